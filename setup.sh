#!/bin/bash
# Build the fact-extraction driver (offline). Checks build facts lazily per configuration.
set -e
cd "$(dirname "$0")/driver"
CARGO_NET_OFFLINE=true cargo +nightly build --release --offline
test -x target/release/tlsh-facts
