"""Def-use expression extraction over MIR paths (no evaluation on inputs).

For a function body this enumerates acyclic CFG paths and, along each, rewrites every
local into an expression tree over the function's parameters, constants, table items and
call results.  Branch conditions, stores through projections, calls (in order) and
Assert terminators are recorded per path.  This is a dataflow abstraction: nothing is
ever computed on concrete inputs; rules pattern-match the trees.

Expression forms (tuples):
  ('param', n)                 n-th parameter (1-based)
  ('const', int)               integer/bool/char literal (bits)
  ('cparam', name)             const generic parameter
  ('cpath', path, value|None)  named constant (assoc const / const item), value when evaluable
  ('table', path)              const/static array item used as a value
  ('bytes', hex)               byte-string literal
  ('fn', path)                 function item
  ('zst', tystr)
  ('bin', op, a, b) ('ovf', op, a, b) ('un', op, a) ('cast', kind, tystr, a)
  ('ref', mut, place_expr) ('deref', e) ('field', e, i) ('index', e, idx) ('cindex', e, off, from_end)
  ('subslice', e, from, to, from_end) ('variant', e, name)
  ('agg', kind, [ops]) ('repeat', e, n) ('discr', e) ('len', e)
  ('call', id, path, [args])   id = block index of the call (unique per body)
  ('load', place_expr, ver)    value read from memory not known from a previous store
  ('local', n)                 uninitialised / unknown local
"""
from . import engine

MAX_PATHS = 6000


# hook: (Sym, raw discriminant) -> value fixed by crate constants for every variant, or None (see props/constfold.py)
CONST_ORACLE = [None]


class PathLimit(Exception):
    pass


class Path:
    __slots__ = ("conds", "stores", "calls", "asserts", "ret", "blocks", "end", "env")

    def __init__(self):
        self.conds = []  # (bb, discr_expr, taken_value or 'otherwise', [excluded values])
        self.stores = []  # (bb, place_expr, value_expr)
        self.calls = []  # (bb, path, [arg exprs], callee json)
        self.asserts = []  # (bb, kind, cond_expr, expected, msg)
        self.ret = None
        self.blocks = []
        self.end = None  # 'return' | 'loop' | 'diverge' | 'unreachable'
        self.env = None


def _const_expr(F, c):
    k = c.get("k")
    if k == "val":
        return ("const", c["v"])
    if k == "cparam":
        return ("cparam", c["n"])
    if k == "uneval":
        v = c.get("value")
        if "promoted" in c:
            return ("promoted", c["path"], c["promoted"])
        ty = F.ty(c.get("ty")) if c.get("ty") is not None else None
        if v is not None and v.get("k") == "val":
            return ("cpath", c["path"], v["v"], ty["s"] if ty else None)
        if ty is not None and ty["k"] == "array":
            return ("table", c["path"])
        return ("cpath", c["path"], None, ty["s"] if ty else None)
    if k == "fn":
        return ("fn", c["path"])
    if k == "zst":
        return ("zst", F.tys(c["ty"]))
    if k in ("mem_ref", "slice"):
        return ("ref", False, ("bytes", c.get("bytes")))
    if k == "indirect":
        return ("bytes", c.get("bytes"))
    if k == "static_ref":
        return ("ref", False, ("table", c["path"]))
    if k == "fn_ptr":
        return ("fn", c["path"])
    return ("constx", k)


class Sym:
    def __init__(self, body, promoted_resolver=None):
        self.b = body
        self.F = body.f
        self.nparams = body.mir["arg_count"]
        self._prom = {}
        self.enums = {}  # ('discr', e) -> (enum path, {discriminant: variant name})
        self.field_ty = {}  # ('field', place, i) -> type id (from MIR place projections)

    # ---------------------------------------------------------- types of raw expressions
    def type_of(self, e, depth=0):
        """Type JSON of a raw (un-normalised) expression, or None."""
        F = self.F
        if depth > 40 or not isinstance(e, tuple) or not e:
            return None
        k = e[0]
        if k == "param" or k == "lv" or k == "local":
            if self.b.mir and e[1] < len(self.b.mir["locals"]):
                return F.ty(self.b.mir["locals"][e[1]]["ty"])
            return None
        if k == "val":
            return self.type_of(e[1], depth + 1)
        if k == "call" and isinstance(e[1], int):
            t = self.b.blocks[e[1]]["term"]
            d = t.get("dst")
            if d is not None and "p" not in d:
                return F.ty(self.b.mir["locals"][d["l"]]["ty"])
            return None
        if k == "cast":
            return {"k": "prim" if e[2] in ("u8", "u16", "u32", "u64", "usize", "i8", "i16", "i32", "i64", "isize", "f32", "f64", "bool") else "other", "s": e[2]}
        if k == "load" or k == "mutated":
            if k == "mutated" and not isinstance(e[1], tuple):
                return self.type_of(("lv", e[1]), depth + 1)
            return self.type_of(e[1], depth + 1)
        if k == "deref":
            t = self.type_of(e[1], depth + 1)
            if t and t.get("k") in ("ref", "ptr"):
                return F.ty(t["to"])
            return None
        if k == "ref":
            return None
        if k == "field":
            if e in self.field_ty:
                return F.ty(self.field_ty[e])
            bt = self.type_of(e[1], depth + 1)
            if bt is None:
                return None
            if bt.get("k") == "tuple" and e[2] < len(bt["elems"]):
                return F.ty(bt["elems"][e[2]])
            if e[1][0] == "variant" and bt.get("k") == "adt":
                args = [a for a in bt.get("args", []) if a.get("k") == "ty"]
                if bt["path"].endswith("option::Option") and e[1][2] == "Some" and args:
                    return F.ty(args[0]["ty"])
                if bt["path"].endswith("result::Result") and len(args) == 2:
                    return F.ty(args[0 if e[1][2] == "Ok" else 1]["ty"])
                if bt["path"].endswith("ops::ControlFlow") and len(args) == 2:
                    return F.ty(args[1 if e[1][2] == "Continue" else 0]["ty"])
            return None
        if k == "variant":
            return self.type_of(e[1], depth + 1)
        if k in ("index", "cindex"):
            bt = self.type_of(e[1], depth + 1)
            if bt and bt.get("k") in ("array", "slice"):
                return F.ty(bt["elem"])
            if e[1][0] == "table":
                c = F.consts.get(e[1][1])
                if c:
                    t = F.ty(c["ty"])
                    if t.get("k") == "array":
                        return F.ty(t["elem"])
            return None
        if k == "table":
            c = F.consts.get(e[1])
            return F.ty(c["ty"]) if c else None
        if k == "cpath" and len(e) > 3 and e[3]:
            return {"k": "prim", "s": e[3]}
        if k == "cparam":
            return {"k": "prim", "s": "usize"}  # every const generic parameter of this crate is a usize
        if k == "bin":
            if e[1] in ("Eq", "Ne", "Lt", "Le", "Gt", "Ge"):
                return {"k": "prim", "s": "bool"}
            return self.type_of(e[2], depth + 1) or self.type_of(e[3], depth + 1)
        if k == "un":
            return self.type_of(e[2], depth + 1)
        return None

    def variant(self, discr_expr, value):
        """Variant name selected by switch value `value` on `discr_expr` (raw, un-normalised)."""
        info = self.enums.get(discr_expr)
        if not info:
            return None
        return info[1].get(value)

    def variant_taken(self, discr_expr, taken, vals):
        """Like variant(), and on the fall-through edge the one variant the listed values leave (if exactly one)."""
        if taken != "otherwise":
            return self.variant(discr_expr, taken)
        info = self.enums.get(discr_expr)
        if not info:
            return None
        rest = [nm for v, nm in info[1].items() if v not in vals]
        return rest[0] if len(rest) == 1 else None

    def promoted(self, idx):
        """Value of promoted constant #idx of this body (a reference to a constant value)."""
        if idx in self._prom:
            return self._prom[idx]
        res = ("promoted", self.b.path, idx)
        proms = self.b.d.get("promoted") or []
        if idx < len(proms):
            pb = engine.Body(self.F, {"path": self.b.path + "::{promoted#%d}" % idx, "kind": "Promoted", "mir": proms[idx]})
            try:
                ps = [p for p in Sym(pb).paths(max_paths=8) if p.end == "return"]
            except PathLimit:
                ps = []
            if len(ps) == 1:
                r = ps[0].ret
                if r[0] == "ref" and r[2][0] == "lv":
                    v = ps[0].env["locals"].get(r[2][1])
                    if v is not None:
                        r = ("ref", r[1], v)
                res = r
        self._prom[idx] = res
        return res

    # ---------------------------------------------------------- expressions
    def operand(self, env, op):
        if "const" in op:
            e = _const_expr(self.F, op["const"])
            if e[0] == "promoted" and e[1] == self.b.path:
                return self.promoted(e[2])
            return e
        pl = op.get("copy") or op.get("move")
        if pl is None:
            return ("other", str(op))
        return self.read(env, pl)

    def place_expr(self, env, pl):
        """Expression denoting the *place* (an lvalue tree)."""
        local = pl["l"]
        e = ("lv", local)
        base_val = None
        for i, p in enumerate(pl.get("p", [])):
            if p == "*":
                # deref of a local holding a pointer: use the pointer's value
                if e[0] == "lv":
                    pv = env["locals"].get(e[1])
                    if pv is None:
                        pv = ("param", e[1]) if 1 <= e[1] <= self.nparams else ("local", e[1])
                else:
                    pv = self._read_lv(env, e)
                if pv[0] == "ref":
                    e = pv[2]
                else:
                    e = ("deref", pv)
            elif isinstance(p, str):
                e = ("proj", e, p)
            elif "f" in p:
                e = ("field", e, p["f"])
                if p.get("ty") is not None:
                    self.field_ty[e] = p["ty"]
            elif "idx" in p:
                e = ("index", e, self.read(env, {"l": p["idx"]}))
            elif "cidx" in p:
                e = ("cindex", e, p["cidx"], p["from_end"])
            elif "sub_from" in p:
                e = ("subslice", e, p["sub_from"], p["sub_to"], p["from_end"])
            elif "variant" in p:
                e = ("variant", e, p.get("vname") or p["variant"])
        return e

    def _read_lv(self, env, lv):
        """Value stored at lvalue tree `lv`."""
        k = lv[0]
        if k == "val":
            return lv[1]
        if k == "lv":
            v = env["locals"].get(lv[1])
            if v is None:
                if 1 <= lv[1] <= self.nparams:
                    return ("param", lv[1])
                return ("local", lv[1])
            return v
        # constant tables are pure values: project structurally
        if _root(lv)[0] in ("table", "bytes"):
            return lv
        # memory: look for the most recent store to the same place
        for (spl, sval) in reversed(env["mem"]):
            if spl == lv:
                return sval
            if _may_alias(spl, lv):
                return ("load", lv, len(env["mem"]))
        # structural projection of a known value
        if k == "field":
            base = self._read_lv(env, lv[1]) if lv[1][0] in ("lv",) or _is_pure_lv(lv[1]) else None
            if base is not None:
                if base[0] == "agg" and lv[2] < len(base[2]):
                    return base[2][lv[2]]
                if base[0] == "bin" and base[1].endswith("WithOverflow"):
                    op = base[1][: -len("WithOverflow")]
                    return ("bin", op, base[2], base[3]) if lv[2] == 0 else ("ovf", op, base[2], base[3])
                if base[0] not in ("load", "local"):
                    return ("field", base, lv[2])
        if k == "index":
            base = self._read_lv(env, lv[1]) if _is_pure_lv(lv[1]) else None
            if base is not None and base[0] not in ("load", "local"):
                return ("index", base, lv[2])
        if k == "cindex":
            base = self._read_lv(env, lv[1]) if _is_pure_lv(lv[1]) else None
            if base is not None and base[0] not in ("load", "local"):
                if base[0] == "agg" and not lv[3] and lv[2] < len(base[2]):
                    return base[2][lv[2]]
                return ("cindex", base, lv[2], lv[3])
        if k == "variant":
            base = self._read_lv(env, lv[1]) if _is_pure_lv(lv[1]) else None
            if base is not None and base[0] not in ("load", "local"):
                return ("variant", base, lv[2])
        return ("load", lv, 0)

    def read(self, env, pl):
        return self._read_lv(env, self.place_expr(env, pl))

    def rvalue(self, env, s):
        rv = s["rv"]
        if rv == "use":
            return self.operand(env, s["op"])
        if rv == "bin":
            return ("bin", s["op"], self.operand(env, s["a"]), self.operand(env, s["b"]))
        if rv == "un":
            a = self.operand(env, s["a"])
            if s["op"] == "PtrMetadata":
                return ("len", a)
            if s["op"] == "Not" and a[0] == "const" and a[1] in (0, 1, True, False):
                # `!` of a known constant read from a *bool-typed* local (e.g. the result of `matches!`): fold it here, where the
                # operand's MIR type is still known (constants carry no type afterwards, so the evaluator could not pick a width)
                try:
                    pl = s["a"].get("copy") or s["a"].get("move")
                    if pl is not None and "p" not in pl and (self.F.ty(self.b.mir["locals"][pl["l"]]["ty"]) or {}).get("s") == "bool":
                        return ("const", 0 if a[1] else 1)
                except Exception:
                    pass
            return ("un", s["op"], a)
        if rv == "cast":
            return ("cast", s["kind"], self.F.tys(s["ty"]), self.operand(env, s["op"]))
        if rv == "ref":
            pe = self.place_expr(env, s["place"])
            if s["bk"] != "mut" and pe[0] == "lv":
                v = env["locals"].get(pe[1])
                if v is None and 1 <= pe[1] <= self.nparams:
                    v = ("param", pe[1])
                if v is not None and v[0] in ("call", "const", "cpath", "bin", "cast", "field", "variant", "load", "param", "index", "cindex", "ref") \
                        or (v is not None and v[0] == "agg" and v[1] in ("array", "tuple")):
                    # shared reference to a temporary holding a known value
                    return ("ref", False, ("val", v))
            return ("ref", s["bk"] == "mut", pe)
        if rv == "rawptr":
            return ("rawptr", s["mut"], self.place_expr(env, s["place"]))
        if rv == "copy_for_deref":
            return self.read(env, s["place"])
        if rv == "discr":
            v = self.read(env, s["place"])
            e = ("discr", v)
            if "variants" in s:
                names = {int(k): nm for k, nm in s["variants"].items()}
                self.enums[e] = (s.get("enum"), names)
                # discriminant of a value built in this function: fold
                if v[0] == "agg" and v[1].startswith("adt:"):
                    vn = v[1].rsplit("::", 1)[-1]
                    for d, nm in names.items():
                        if nm == vn:
                            return ("const", d)
            return e
        if rv == "agg":
            kind = s["agg"]
            if kind == "adt":
                kind = "adt:%s::%s" % (s["path"], s["vname"])
            elif kind == "closure":
                kind = "closure:%s" % s["path"]
            return ("agg", kind, tuple(self.operand(env, o) for o in s["ops"]))
        if rv == "repeat":
            n = s["n"]
            nn = ("const", n["v"]) if n.get("k") == "val" else (("cparam", n["n"]) if n.get("k") == "cparam" else ("cexpr", str(n)))
            return ("repeat", self.operand(env, s["op"]), nn)
        return ("rv", rv)

    # ---------------------------------------------------------- paths
    def paths(self, entry=0, max_paths=MAX_PATHS, stop_at=None):
        out = []
        env0 = {"locals": dict(self._entry_consts(entry)) if entry else {}, "mem": []}
        self._walk(entry, env0, Path(), set(), out, max_paths, stop_at or set())
        return out

    def _entry_consts(self, entry):
        """Locals that hold a compile-time constant whenever control reaches `entry`: assigned exactly once, by a statement in a
        block strictly dominating `entry`, never borrowed or stored through, of primitive type, and whose value is built only
        from constants, const parameters and other such locals.  (A walk started at a loop header otherwise loses them.)"""
        key = ("entry_consts", entry)
        cache = self.__dict__.setdefault("_ec", {})
        if key in cache:
            return cache[key]
        b = self.b
        tainted = set()
        for blk in b.blocks:
            for s_ in blk["stmts"]:
                if s_.get("rv") in ("ref", "rawptr") and "place" in s_:
                    tainted.add(s_["place"]["l"])
                d_ = s_.get("dst")
                if d_ is not None and "p" in d_:
                    tainted.add(d_["l"])
            t_ = blk["term"]
            if t_["t"] == "call" and "p" in t_["dst"]:
                tainted.add(t_["dst"]["l"])

        def is_const(e):
            if not isinstance(e, tuple) or not e:
                return True
            if e[0] in ("const", "cparam", "cpath"):
                return True
            if e[0] in ("cast", "bin", "un"):
                return all(is_const(x) for x in e[1:] if isinstance(x, tuple))
            return False

        out = {}
        changed = True
        while changed:
            changed = False
            for local, ds in b.defs().items():
                if local in out or local in tainted or len(ds) != 1 or ds[0][1] == "term":
                    continue
                bb = ds[0][0]
                if bb == entry or not b.dominates(bb, entry) or 1 <= local <= self.nparams:
                    continue
                ty = b.local_ty(local)
                if not ty or ty.get("k") != "prim":
                    continue
                st = ds[0][2]
                if st.get("rv") not in ("use", "cast", "bin", "un"):
                    continue
                try:
                    v = self.rvalue({"locals": dict(out), "mem": []}, st)
                except Exception:
                    continue
                if is_const(v):
                    out[local] = v
                    changed = True
        cache[key] = out
        return out

    def _unwrap_or_diamond(self, env, p, bb, d, t):
        """join block of an unwrap_or-shaped diamond on discriminant d (after assigning the joined local), else None"""
        if d[0] != "discr" or d not in self.enums:
            return None
        names = self.enums[d][1]
        kinds = set(names.values())
        if kinds == {"None", "Some"}:
            good, bad, fn = "Some", "None", "core::option::Option::<T>::unwrap_or"
        elif kinds == {"Ok", "Err"}:
            good, bad, fn = "Ok", "Err", "core::result::Result::<T, E>::unwrap_or"
        else:
            return None
        blocks = self.b.blocks
        arms = {}
        for v, b2 in t["targets"]:
            if names.get(v) in (good, bad):
                arms[names[v]] = b2
        ob = blocks[t["otherwise"]]
        if ob["term"]["t"] != "unreachable":
            # `otherwise` may be the second arm
            missing = [k_ for k_ in (good, bad) if k_ not in arms]
            if len(missing) == 1:
                arms[missing[0]] = t["otherwise"]
            else:
                return None
        if set(arms) != {good, bad} or arms[good] == arms[bad]:
            return None
        X = d[1]
        payload = ("field", ("variant", X, good), 0)

        def run_arm(bi):
            blk = blocks[bi]
            if blk["term"]["t"] != "goto":
                return None
            e2 = self._fork(env)
            assigned = []
            for s_ in blk["stmts"]:
                if "dst" not in s_ or s_["rv"] == "set_discr":
                    continue
                if "p" in s_["dst"]:
                    return None  # a store through a place: not a pure value arm
                if s_["rv"] not in ("use", "cast", "copy_for_deref"):
                    return None
                val = self.rvalue(e2, s_)
                e2["locals"][s_["dst"]["l"]] = val
                assigned.append(s_["dst"]["l"])
            return blk["term"]["target"], e2, assigned

        ra, rb = run_arm(arms[good]), run_arm(arms[bad])
        if ra is None or rb is None or ra[0] != rb[0] or not ra[2] or not rb[2]:
            return None
        # the local that survives is the last one assigned in both arms
        r = ra[2][-1]
        if rb[2][-1] != r:
            return None
        va, vb = ra[1]["locals"][r], rb[1]["locals"][r]
        strip = lambda e: e[3] if (e[0] == "cast" and False) else e
        if strip(va) != payload:
            return None
        if _mentions(vb, X):
            return None
        # temporaries assigned in the arms must not be live afterwards except r: only accept arms assigning r and temps that feed it
        env["locals"][r] = ("call", bb, fn, (X, vb))
        return ra[0]

    def _enum_eq(self, d):
        """(discriminant expression, variant discriminant, is `!=`, (enum path, {discr: name})) if d is `a == E::V` / `a != E::V` through
        the built-in derived PartialEq of a field-less enum E, else None"""
        if d[0] != "call" or not isinstance(d[1], int) or not d[2].endswith(("core::cmp::PartialEq>::eq", "core::cmp::PartialEq>::ne")) or len(d[3]) != 2:
            return None
        F = self.F
        ops = []
        for a in d[3]:
            while a[0] in ("ref", "val"):
                a = a[-1]
            ops.append(a)
        for x, y in ((ops[0], ops[1]), (ops[1], ops[0])):
            if y[0] == "agg" and isinstance(y[1], str) and y[1].startswith("adt:") and not y[2]:
                vpath = y[1][4:]
                epath, vname = vpath.rsplit("::", 1)
                adt = None
                for a_ in F.d.get("adts", []):
                    if a_["path"] == epath:
                        adt = a_
                if adt is None or not adt.get("variants") or any(v.get("fields") for v in adt["variants"]):
                    return None
                if not any(im.get("trait") == "core::cmp::PartialEq" and F.tys(im["self_ty"]) == epath and im.get("derived") and im.get("builtin_derived") for im in F.impls):
                    return None
                names = {v["discr"]: v["name"] for v in adt["variants"]}
                idx = [k for k, v in names.items() if v == vname]
                if len(idx) != 1:
                    return None
                return ("discr", x), idx[0], d[2].endswith("::ne"), (epath, names)
        return None

    def _fork(self, env):
        return {"locals": dict(env["locals"]), "mem": list(env["mem"])}

    def _clone(self, p):
        q = Path()
        q.conds = list(p.conds)
        q.stores = list(p.stores)
        q.calls = list(p.calls)
        q.asserts = list(p.asserts)
        q.blocks = list(p.blocks)
        return q

    def _finish(self, p, env, end, out, max_paths):
        p.end = end
        p.env = env
        out.append(p)
        if len(out) > max_paths:
            raise PathLimit(self.b.path)

    def _assign(self, env, p, bb, dst, val):
        if "p" not in dst:
            env["locals"][dst["l"]] = val
        else:
            lv = self.place_expr(env, dst)
            if lv[0] == "lv":
                env["locals"][lv[1]] = val
            else:
                env["mem"].append((lv, val))
                p.stores.append((bb, lv, val))

    def _counting_loops(self):
        """{header block: summary} for loops of the form `for item in ITER { if PRED(item) { acc += 1 } }` (nothing else live
        after the loop, no stores, no calls): entered with acc == 0 such a loop is `acc = ITER.filter(PRED).count()`, and the
        walker substitutes that call so that the loop and the adapter spelling give the same expression."""
        if self.__dict__.get("_cl") is not None:
            return self._cl
        self._cl = {}
        b = self.b
        found = {}
        for h, blk in enumerate(b.blocks):
            t = blk["term"]
            if t["t"] != "call" or blk.get("cleanup") or not (engine.callee_path(t) or "").endswith("::next"):
                continue
            fwd = b.reachable_from(h)
            L = {x for x in fwd if b.dominates(h, x) and h in b.reachable_from(x) and (x == h or True)}
            if not any(h in b.succs(x) for x in L):
                continue
            exits = {s_ for x in L for s_ in b.succs(x) if s_ not in L and b.blocks[s_]["term"]["t"] != "unreachable"}
            if len(exits) != 1:
                continue
            X = next(iter(exits))
            try:
                ps = self.paths(entry=h, stop_at={X})
            except PathLimit:
                continue
            stops = [q for q in ps if q.end == "stop"]
            loops = [q for q in ps if q.end == "loop" and q.blocks[-1] == h]
            if len(stops) != 1 or len(stops) + len(loops) != len([q for q in ps if q.end != "unreachable"]) or not loops:
                continue
            if any(q.stores or len(q.calls) != 1 or q.calls[0][0] != h for q in stops + loops):
                continue
            nx = stops[0].calls[0]
            a0 = nx[2][0]
            if not (a0[0] == "ref" and a0[2][0] == "lv"):
                continue
            it = a0[2][1]
            nxe = ("call", h, nx[1], nx[2])
            if len(stops[0].conds) != 1 or stops[0].conds[0][1] != ("discr", nxe):
                continue
            if any(not q.conds or q.conds[0][1] != ("discr", nxe) for q in loops):
                continue
            assigned = set()
            for l_, ds in b.defs().items():
                if any(d_[0] in L for d_ in ds):
                    assigned.add(l_)
            outside = b.reachable_from(X) - L
            used = set()

            def scan(o):
                if isinstance(o, dict):
                    if isinstance(o.get("l"), int):
                        used.add(o["l"])
                    for v_ in o.values():
                        scan(v_)
                elif isinstance(o, list):
                    for v_ in o:
                        scan(v_)
            for x in outside:
                scan(b.blocks[x]["stmts"])
                scan(b.blocks[x]["term"])
            live = (assigned & used) - {it}
            if len(live) != 1:
                continue
            acc = next(iter(live))
            item = ("field", ("variant", nxe, "Some"), 0)

            def repl(e):
                if e == item:
                    return ("item",)
                if isinstance(e, tuple):
                    return tuple(repl(x) for x in e)
                return e
            inc, keep, okv = [], [], True
            for q in loops:
                v = q.env["locals"].get(acc, ("local", acc))
                if v == ("local", acc):
                    keep.append(q)
                elif v[0] == "bin" and v[1].startswith("Add") and sorted([v[2], v[3]], key=repr) == sorted([("local", acc), ("const", 1)], key=repr):
                    inc.append(q)
                else:
                    okv = False
            if not okv or not inc:
                continue
            if len(inc) == 1 and len(keep) == 1 and len(inc[0].conds) == 2 and len(keep[0].conds) == 2 \
                    and inc[0].conds[1][1] == keep[0].conds[1][1] and inc[0].conds[1][3] == [0]:
                pred = (repl(inc[0].conds[1][1]), inc[0].conds[1][2] == "otherwise")
            elif not keep and len(inc) == 1 and len(inc[0].conds) == 1:
                pred = None
            else:
                continue
            found[h] = {"it": it, "acc": acc, "exit": X, "pred": pred, "blocks": sorted(L)}
        self._cl = found
        return found

    def _walk(self, bb, env, p, onpath, out, max_paths, stop_at):
        blocks = self.b.blocks
        while True:
            if bb in onpath:
                p.blocks.append(bb)
                self._finish(p, env, "loop", out, max_paths)
                return
            if bb in stop_at:
                p.blocks.append(bb)
                self._finish(p, env, "stop", out, max_paths)
                return
            if blocks[bb]["term"]["t"] == "call" and p.blocks:
                cl = self._counting_loops().get(bb)
                if cl is not None and env["locals"].get(cl["acc"]) == ("const", 0):
                    itv = env["locals"].get(cl["it"], ("local", cl["it"]))
                    src = itv
                    if cl["pred"] is not None:
                        fa = (itv, ("agg", "closure:<counting-loop@%d>" % bb, ()))
                        p.calls.append((bb, "core::iter::Iterator::filter", fa, {"synthetic": True}))
                        src = ("call", bb, "core::iter::Iterator::filter", fa)
                    p.calls.append((bb, "core::iter::Iterator::count", (src,), {"synthetic": True}))
                    env["locals"][cl["acc"]] = ("call", bb, "core::iter::Iterator::count", (src,))
                    p.blocks.append(bb)
                    bb = cl["exit"]
                    continue
            onpath = onpath | {bb}
            p.blocks.append(bb)
            blk = blocks[bb]
            for s in blk["stmts"]:
                if "dst" not in s:
                    continue
                if s["rv"] == "set_discr":
                    continue
                val = self.rvalue(env, s)
                self._assign(env, p, bb, s["dst"], val)
            t = blk["term"]
            k = t["t"]
            if k == "goto":
                bb = t["target"]
                continue
            if k == "return":
                p.ret = env["locals"].get(0, ("local", 0))
                self._finish(p, env, "return", out, max_paths)
                return
            if k in ("unreachable", "resume", "terminate", "other", "asm", "tailcall"):
                self._finish(p, env, k, out, max_paths)
                return
            if k == "drop":
                bb = t["target"]
                continue
            if k == "assert":
                cond = self.operand(env, t["cond"])
                p.asserts.append((bb, t["msg"]["kind"], cond, t["expected"], t["msg"]))
                bb = t["target"]
                continue
            if k == "call":
                c = t["callee"]
                path = engine.callee_path(t) or "<indirect>"
                args = tuple(self.operand(env, a) for a in t["args"])
                if "indirect" in c:
                    args = (self.operand(env, c["indirect"]),) + args
                p.calls.append((bb, path, args, c))
                # a callee receiving &mut P may change P
                for a in args:
                    while a[0] == "cast":
                        a = a[3]
                    if a[0] == "ref" and a[1]:
                        lv = a[2]
                        if lv[0] == "lv":
                            env["locals"][lv[1]] = ("mutated", lv[1], bb, env["locals"].get(lv[1]))
                        else:
                            env["mem"].append((lv, ("mutated", lv, bb)))
                            # &mut of a part of a local: a later read of the whole local must not see its old value
                            root = lv
                            while root[0] in ("field", "index", "cindex", "variant"):
                                root = root[1]
                            if root[0] == "lv":
                                env["locals"][root[1]] = ("mutated", root[1], bb, env["locals"].get(root[1]))
                self._assign(env, p, bb, t["dst"], ("call", bb, path, args))
                if t.get("target") is None:
                    self._finish(p, env, "diverge", out, max_paths)
                    return
                bb = t["target"]
                continue
            if k == "switch":
                d = self.operand(env, t["discr"])
                vals = [v for v, _ in t["targets"]]
                # constant discriminant: follow the only feasible edge
                if d[0] != "const" and CONST_ORACLE[0] is not None:
                    cv = CONST_ORACLE[0](self, d)
                    if cv is not None:
                        d = ("const", cv)
                if d[0] == "const":
                    tgt = t["otherwise"]
                    for v, b2 in t["targets"]:
                        if v == d[1]:
                            tgt = b2
                    bb = tgt
                    continue
                # `match opt { Some(v) => v, None => K }` (and the Result analogue) is `opt.unwrap_or(K)`: a two-armed diamond whose arms
                # only assign the same local and rejoin is folded into that call, so both spellings give the same expression
                dj = self._unwrap_or_diamond(env, p, bb, d, t)
                if dj is not None:
                    bb = dj
                    continue
                # `x == Enum::Variant` / `x != ..` through the derived PartialEq of a field-less enum is a discriminant test:
                # record it as one, so that `match`, `matches!`, `if let` and `==` spellings give the same decisions
                eqd = self._enum_eq(d) if vals == [0] else None
                if eqd is not None:
                    de, idx, is_ne, names = eqd
                    self.enums[de] = names
                    allv = sorted(names[1])
                    for i, (v, b2) in enumerate([(0, t["targets"][0][1] if t["targets"] and t["targets"][0][0] == 0 else t["otherwise"]), ("otherwise", t["otherwise"])]):
                        truth = (v == "otherwise")
                        same = truth != is_ne
                        # consistency with earlier tests of the same discriminant on this path
                        feasible = True
                        for (_, d2, taken2, vals2) in p.conds:
                            if d2 == de:
                                if taken2 != "otherwise":
                                    feasible = (taken2 == idx) == same
                                elif same and idx in vals2:
                                    feasible = False
                        if not feasible:
                            continue
                        q = self._clone(p)
                        e2 = self._fork(env)
                        if same:
                            q.conds.append((bb, de, idx, allv))
                        elif len(allv) == 2:
                            q.conds.append((bb, de, [x for x in allv if x != idx][0], allv))
                        else:
                            q.conds.append((bb, de, "otherwise", [idx]))
                        self._walk(b2, e2, q, onpath, out, max_paths, stop_at)
                    return
                # the same value was already tested on this path (expressions are values: loads carry versions): stay consistent
                known = None
                excluded = set()
                dk = _cond_key(d)
                for (_, d2, taken2, vals2) in p.conds:
                    if d2 == d or (dk is not None and _cond_key(d2) == dk):
                        if taken2 != "otherwise":
                            known = taken2
                        else:
                            excluded |= set(vals2)
                if known is not None:
                    tgt = t["otherwise"]
                    for v, b2 in t["targets"]:
                        if v == known:
                            tgt = b2
                    bb = tgt
                    continue
                succs = [(v, b2) for v, b2 in t["targets"] if v not in excluded] + [("otherwise", t["otherwise"])]
                if excluded and set(v for v, _ in t["targets"]) <= excluded and len(succs) == 1:
                    bb = t["otherwise"]
                    continue
                for i, (v, b2) in enumerate(succs):
                    last = i == len(succs) - 1
                    q = p if last else self._clone(p)
                    e2 = env if last else self._fork(env)
                    q.conds.append((bb, d, v, vals))
                    self._walk(b2, e2, q, onpath, out, max_paths, stop_at)
                return
            self._finish(p, env, "unknown:" + k, out, max_paths)
            return


_SLEN = "core::slice::<impl [T]>::len"


def _cond_key(d):
    """Canonical form of a condition in which the length of a slice is spelled either `x.len()` or as the pointer metadata of a
    (re)borrow of x -- the same value; None if the condition mentions no slice length (then only identical expressions are
    treated as the same test)."""
    hit = [False]

    def strip(x):
        while isinstance(x, tuple) and x and x[0] in ("ref", "rawptr", "deref", "cast") and isinstance(x[-1], tuple):
            x = x[-1]
        return x

    def rec(x):
        if not isinstance(x, tuple) or not x:
            return x
        if x[0] == "call" and len(x) == 4 and x[2] == _SLEN and len(x[3]) == 1:
            hit[0] = True
            return ("slen", rec(strip(x[3][0])))
        if x[0] == "len" and len(x) == 2:
            hit[0] = True
            return ("slen", rec(strip(x[1])))
        return tuple(rec(y) for y in x)
    k = rec(d)
    return k if hit[0] else None


def _mentions(e, x):
    if e == x:
        return True
    if isinstance(e, tuple):
        return any(_mentions(y, x) for y in e if isinstance(y, tuple))
    return False


def _is_pure_lv(lv):
    while True:
        if lv[0] == "lv":
            return True
        if lv[0] in ("field", "index", "cindex", "variant", "subslice", "proj"):
            lv = lv[1]
            continue
        return False


def _root(lv):
    while lv[0] in ("field", "index", "cindex", "variant", "subslice", "proj"):
        lv = lv[1]
    return lv


def _may_alias(a, b):
    """Conservative: same root object and not provably distinct constant projections."""
    ra, rb = _root(a), _root(b)
    if ra != rb:
        # different deref roots may alias only if both are derefs of unknown pointers;
        # distinct parameters of reference type are noalias for our purposes
        return False
    # same root: compare projection chains
    pa, pb = _chain(a), _chain(b)
    for x, y in zip(pa, pb):
        if x == y:
            continue
        if x[0] == y[0] == "field" and x[1] != y[1]:
            return False
        if x[0] == y[0] == "cindex" and x[1:] != y[1:]:
            return False
        if x[0] == y[0] == "index" and x[1][0] == "const" and y[1][0] == "const" and x[1] != y[1]:
            return False
        return True
    return True


def _chain(lv):
    out = []
    while lv[0] in ("field", "index", "cindex", "variant", "subslice", "proj"):
        out.append((lv[0],) + tuple(lv[2:]))
        lv = lv[1]
    out.reverse()
    return out


# ---------------------------------------------------------------- helpers


def strip_casts(e):
    while e[0] == "cast" and e[1] in ("IntToInt",):
        e = e[3]
    return e


def fmt(e, depth=0):
    """Compact rendering for messages."""
    if depth > 30:
        return "..."
    k = e[0]
    if k == "param":
        return "p%s" % (e[1],)
    if k == "const":
        return str(e[1])
    if k == "cparam":
        return e[1]
    if k == "cpath":
        v = e[2] if len(e) > 2 else None
        return "{%s%s}" % (e[1].rsplit("::", 1)[-1], "" if v is None else "=%d" % v)
    if k == "table":
        return e[1].rsplit("::", 1)[-1]
    if k == "bin" or k == "ovf":
        return "%s%s(%s, %s)" % ("ovf:" if k == "ovf" else "", e[1], fmt(e[2], depth + 1), fmt(e[3], depth + 1))
    if k == "un":
        return "%s(%s)" % (e[1], fmt(e[2], depth + 1))
    if k == "cast":
        return "(%s as %s)" % (fmt(e[3], depth + 1), e[2])
    if k == "ref":
        if len(e) == 2:
            return "&%s" % fmt(e[1], depth + 1)
        return "&%s%s" % ("mut " if e[1] else "", fmt(e[2], depth + 1))
    if k == "deref":
        return "*%s" % fmt(e[1], depth + 1)
    if k == "field":
        return "%s.%d" % (fmt(e[1], depth + 1), e[2])
    if k == "index":
        return "%s[%s]" % (fmt(e[1], depth + 1), fmt(e[2], depth + 1))
    if k == "cindex":
        return "%s[%s%d]" % (fmt(e[1], depth + 1), "-" if e[3] else "", e[2])
    if k == "variant":
        return "%s as %s" % (fmt(e[1], depth + 1), e[2])
    if k == "agg":
        return "%s{%s}" % (e[1].rsplit("::", 2)[-1] if e[1].startswith("adt:") else e[1], ", ".join(fmt(x, depth + 1) for x in e[2]))
    if k == "call":
        if isinstance(e[1], str):
            return "%s(%s)" % (e[1].rsplit("::", 1)[-1], ", ".join(fmt(x, depth + 1) for x in e[2]))
        return "%s@%d(%s)" % (e[2].rsplit("::", 1)[-1], e[1], ", ".join(fmt(x, depth + 1) for x in e[3]))
    if k == "load":
        return "load(%s)" % fmt(e[1], depth + 1)
    if k == "lv":
        return "_%d" % e[1]
    if k == "val":
        return fmt(e[1], depth + 1)
    if k == "discr":
        return "discr(%s)" % fmt(e[1], depth + 1)
    if k == "len":
        return "len(%s)" % fmt(e[1], depth + 1)
    if k == "mutated":
        return "mutated(%s)" % (fmt(e[1], depth + 1) if isinstance(e[1], tuple) else e[1],)
    if k == "repeat":
        return "[%s; %s]" % (fmt(e[1], depth + 1), fmt(e[2], depth + 1))
    return str(e)[:80]


def walk(e, fn):
    """Pre-order traversal calling fn(subexpr)."""
    if not isinstance(e, tuple):
        return
    if e and isinstance(e[0], str):
        fn(e)
        rest = e[1:]
    else:
        rest = e
    for x in rest:
        if isinstance(x, tuple):
            walk(x, fn)
        elif isinstance(x, list):
            for y in x:
                if isinstance(y, tuple):
                    walk(y, fn)


def leaves(e, kinds=("param", "const", "cparam", "cpath", "table", "load", "call", "local")):
    out = []

    def f(x):
        if isinstance(x, tuple) and x and x[0] in kinds:
            out.append(x)

    walk(e, f)
    return out


def contains(e, pred):
    found = []

    def f(x):
        if pred(x):
            found.append(x)

    walk(e, f)
    return bool(found)
