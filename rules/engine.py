"""E2 engine: configuration matrix, driver invocation, fact loading, CFG utilities.

Nothing here runs library code of /repo: the only process started is
`cargo +nightly check` with the tlsh-facts driver as RUSTC_WORKSPACE_WRAPPER.
"""
import fcntl
import hashlib
import json
import os
import shutil
import subprocess
import sys
import time
from concurrent.futures import ThreadPoolExecutor

VERIF = os.path.dirname(os.path.dirname(os.path.abspath(__file__)))
REPO = os.environ.get("TLSH_REPO", "/repo")
WORK = os.path.join(VERIF, ".work")
DRIVER = os.path.join(VERIF, "driver", "target", "release", "tlsh-facts")

ND = ["--no-default-features"]
CONFIGS = {
    # key: (cargo args, extra rustflags, why)
    "K0": ([], "", "default: runtime-dispatch SIMD, default tables, hex-simd"),
    "K1": (ND, "", "no_std, no alloc, every naive path"),
    "K2": (ND + ["--features", "opt-embedded-default"], "", "16x16 Q table, half encode table"),
    "K3": (ND + ["--features", "opt-low-memory-hex-str-decode-half-table"], "", "half decode table"),
    "K4": (ND + ["--features", "opt-low-memory-hex-str-decode-quarter-table"], "", "quarter decode table"),
    "K5": (ND + ["--features", "opt-low-memory-hex-str-decode-min-table"], "", "no decode table"),
    "K6": (ND + ["--features", "opt-low-memory-hex-str-encode-min-table"], "", "nibble encoder"),
    "K7": (ND + ["--features", "opt-low-memory-buckets"], "", "guarded bucket increment"),
    "K8": (["--features", "unsafe"], "", "invariant! becomes unreachable_unchecked"),
    "K9": (["--features", "strict-parser"], "", "validity gates"),
    "K10": (["--features", "serde"], "", "serde"),
    "K11": (["--features", "serde,strict-parser"], "", "serde + strict"),
    "K12": (["--features", "serde,serde-buffered,strict-parser"], "", "serde buffered + strict"),
    "K13": (ND + ["--features", "simd"], "", "static dispatch, SSE2 baseline"),
    "K14a": (ND + ["--features", "simd"], "-C target-feature=+ssse3", "static SSSE3"),
    "K14b": (ND + ["--features", "simd"], "-C target-feature=+sse4.1", "static SSE4.1"),
    "K14c": (ND + ["--features", "simd"], "-C target-feature=+avx2", "static AVX2"),
    "K15": (ND + ["--features", "alloc,easy-functions"], "", "alloc without std"),
    "K16": (["--features", "unsafe,serde,strict-parser"], "", "unsafe text path in Serialize"),
    # other targets: type-checked with -Zbuild-std (rust-src is installed), nothing is ever executed
    "K17": (ND + ["--features", "simd"], "", "aarch64: static NEON backends", {"target": "aarch64-unknown-linux-gnu", "build_std": "core,alloc"}),
    "K19": (ND, "", "i686: 32-bit usize, 32-bit pseudo-SIMD", {"target": "i686-unknown-linux-gnu", "build_std": "core,alloc"}),
    "K20": (ND + ["--features", "simd"], "-C target-feature=+simd128", "wasm32: simd128 bucket aggregation", {"target": "wasm32-unknown-emscripten", "build_std": "core,alloc"}),
    "K21": (ND, "", "riscv64 without Zbb: length encoder without leading_zeros", {"target": "riscv64gc-unknown-linux-gnu", "build_std": "core,alloc"}),
}
ALL_KEYS = list(CONFIGS)


def target_of(key):
    ex = CONFIGS[key][3] if len(CONFIGS[key]) > 3 else {}
    return ex.get("target", "x86_64-unknown-linux-gnu")


def pointer_width(key):
    return 32 if target_of(key).startswith(("i686", "wasm32", "arm", "riscv32")) else 64


class EnvError(Exception):
    """Broken environment (not a property violation)."""


def _sysroot():
    return subprocess.check_output(["rustc", "+nightly", "--print", "sysroot"], text=True).strip()


_digest_cache = {}


def tree_digest(root=None):
    """Digest of the working tree of /repo (tracked + untracked source files)."""
    root = root or REPO
    if root in _digest_cache:
        return _digest_cache[root]
    h = hashlib.sha256()
    files = []
    for dp, dn, fn in os.walk(root):
        dn[:] = [d for d in dn if d not in (".git", "target")]
        for f in fn:
            files.append(os.path.join(dp, f))
    files.sort()
    for f in files:
        try:
            with open(f, "rb") as fh:
                data = fh.read()
        except OSError:
            continue
        h.update(os.path.relpath(f, root).encode())
        h.update(b"\0")
        h.update(hashlib.sha256(data).digest())
    try:
        st = os.stat(DRIVER)
        h.update(("%d:%d" % (st.st_size, int(st.st_mtime))).encode())
    except OSError:
        pass
    _digest_cache[root] = h.hexdigest()
    return _digest_cache[root]


def ensure_driver():
    if not os.path.exists(DRIVER):
        r = subprocess.run(
            ["cargo", "+nightly", "build", "--release", "--offline"],
            cwd=os.path.join(VERIF, "driver"),
            capture_output=True,
            text=True,
        )
        if r.returncode != 0 or not os.path.exists(DRIVER):
            raise EnvError("cannot build tlsh-facts driver:\n" + r.stderr[-2000:])


def build_facts(key, repo=None, package="fast-tlsh", crate="tlsh", manifest_dir=None, extra_crates=None):
    """Run the driver for configuration `key`; returns (path, log, compiled_ok)."""
    repo = repo or REPO
    args, rflags = CONFIGS[key][0], CONFIGS[key][1]
    extra = CONFIGS[key][3] if len(CONFIGS[key]) > 3 else {}
    tag = hashlib.sha256(repo.encode()).hexdigest()[:8] if repo != "/repo" else "repo"
    fdir = os.path.join(WORK, "facts", tag, key)
    tdir = os.path.join(WORK, "target", tag, key)
    os.makedirs(fdir, exist_ok=True)
    os.makedirs(tdir, exist_ok=True)
    out = os.path.join(fdir, crate + ".json")
    stamp = os.path.join(fdir, crate + ".digest")
    digest = tree_digest(repo)
    lock = open(os.path.join(fdir, ".lock"), "w")
    fcntl.flock(lock, fcntl.LOCK_EX)
    try:
        if os.path.exists(out) and os.path.exists(stamp) and open(stamp).read().strip() == digest:
            return out, "(cached for this tree digest)", True
        for p in (out, stamp):
            if os.path.exists(p):
                os.remove(p)
        # delete workspace members' fingerprints so cargo cannot replay a stale run
        fp = os.path.join(tdir, "debug", ".fingerprint")
        if os.path.isdir(fp):
            for d in os.listdir(fp):
                if d.startswith(("fast-tlsh-", "serde-tests-", "tlsh-")):
                    shutil.rmtree(os.path.join(fp, d), ignore_errors=True)
        env = dict(os.environ)
        env.update(
            {
                "LD_LIBRARY_PATH": _sysroot() + "/lib",
                "RUSTFLAGS": ("-Zmir-opt-level=0 -Awarnings " + rflags).strip(),
                "RUSTC_WORKSPACE_WRAPPER": DRIVER,
                "TLSH_FACTS_OUT_DIR": fdir,
                "TLSH_FACTS_CRATES": ",".join([crate] + (extra_crates or [])),
                "CARGO_TARGET_DIR": tdir,
                "CARGO_NET_OFFLINE": "true",
                "CARGO_INCREMENTAL": "0",
            }
        )
        cmd = ["cargo", "+nightly", "check", "--offline", "-p", package] + args
        if extra.get("target"):
            cmd += ["--target", extra["target"], "-Zbuild-std=" + extra.get("build_std", "core")]
        r = subprocess.run(cmd, cwd=manifest_dir or repo, env=env, capture_output=True, text=True)
        log = r.stderr[-6000:]
        if r.returncode != 0 or not os.path.exists(out):
            return None, log, False
        with open(stamp, "w") as f:
            f.write(digest)
        return out, log, True
    finally:
        fcntl.flock(lock, fcntl.LOCK_UN)
        lock.close()


def load_configs(keys, repo=None):
    """Build (in parallel) and load facts for the given configuration keys."""
    ensure_driver()
    keys = list(dict.fromkeys(keys))
    res = {}
    with ThreadPoolExecutor(max_workers=min(8, len(keys))) as ex:
        futs = {k: ex.submit(build_facts, k, repo) for k in keys}
        for k, f in futs.items():
            res[k] = f.result()
    out = {}
    failures = {}
    for k, (path, log, ok) in res.items():
        if not ok:
            failures[k] = log
        else:
            out[k] = Facts(k, path)
    return out, failures


# ---------------------------------------------------------------------------


import re

_CORE_MODS = ("default|ops|convert|option|result|cmp|clone|marker|fmt|iter|slice|array|str|num|mem|ptr|hint|arch|"
              "intrinsics|panicking|hash|any|cell|char|primitive|error|ascii|f32|f64|u8|u16|u32|u64|usize|i32|ffi|alloc")
_ALLOC_MODS = "vec|string|boxed|borrow|rc"
_RE_CORE = re.compile(r"\bstd::(%s)::" % _CORE_MODS)
_RE_ALLOC = re.compile(r"\bstd::(%s)::" % _ALLOC_MODS)


def _canon(path, krate=None):
    """`std::` is a re-export facade: name core/alloc items by their defining crate so that
    paths are identical in std and no_std configurations."""
    if "std::" not in path:
        return path
    if krate == "core":
        return path.replace("std::", "core::")
    path = _RE_CORE.sub(lambda m: "core::%s::" % m.group(1), path)
    path = _RE_ALLOC.sub(lambda m: "alloc::%s::" % m.group(1), path)
    return path


def _canon_paths(x):
    if isinstance(x, dict):
        for k in ("path", "trait", "impl", "trait_item", "parent", "in_trait", "enum"):
            if isinstance(x.get(k), str):
                x[k] = _canon(x[k], x.get("krate") if k == "path" else None)
        if isinstance(x.get("s"), str) and "k" in x:
            x["s"] = _canon(x["s"])
        for v in x.values():
            _canon_paths(v)
    elif isinstance(x, list):
        for v in x:
            _canon_paths(v)


class Facts:
    def __init__(self, key, path):
        self.key = key
        self.path = path
        with open(path) as f:
            self.d = json.load(f)
        _canon_paths(self.d)
        self.types = self.d["types"]
        self.bodies = [Body(self, b) for b in self.d["bodies"]]
        self.by_path = {}
        for b in self.bodies:
            self.by_path.setdefault(b.path, []).append(b)
        self.consts = {c["path"]: c for c in self.d["consts"]}
        self.impls = self.d["impls"]
        self.items = self.d["items"]
        self.features = sorted(
            c.split('"')[1] for c in self.d["cfg"] if c.startswith("feature=")
        )

    # -- types
    def ty(self, i):
        return self.types[i] if i is not None else None

    def tys(self, i):
        return self.types[i]["s"] if i is not None else None

    # -- constants
    def const_bytes(self, path):
        c = self.consts.get(path)
        if not c or not c.get("value"):
            return None
        v = c["value"]
        if "bytes" in v:
            return bytes.fromhex(v["bytes"])
        return None

    def const_int(self, path):
        c = self.consts.get(path)
        if not c or not c.get("value"):
            return None
        return c["value"].get("v")

    @property
    def usize_bytes(self):
        return pointer_width(self.key) // 8 if self.key in CONFIGS else 8

    def const_array(self, path, elem_size, signed=False):
        b = self.const_bytes(path)
        if b is None:
            return None
        return [
            int.from_bytes(b[i : i + elem_size], "little", signed=signed)
            for i in range(0, len(b), elem_size)
        ]

    # -- bodies
    def fn(self, path):
        """Unique body with exactly this path (or None)."""
        l = self.by_path.get(path, [])
        return l[0] if len(l) == 1 else None

    def find(self, pred):
        return [b for b in self.bodies if pred(b)]

    def method(self, name, impl_self_prefix=None, trait=None, kind=("AssocFn", "Fn")):
        """Bodies of functions called `name`, filtered by the impl's self type / trait."""
        out = []
        for b in self.bodies:
            if b.name != name or not b.kind.startswith(kind):
                continue
            im = b.impl_info()
            if impl_self_prefix is not None:
                if not im or not self.tys(im["self_ty"]).startswith(impl_self_prefix):
                    continue
            if trait is not None:
                if not im or im.get("trait") != trait:
                    continue
            out.append(b)
        return out

    def impl_by_path(self, path):
        for im in self.impls:
            if im["path"] == path:
                return im
        return None

    def impl_consts(self, self_prefix, trait=None):
        """{instantiation self type string: {const name: int}} for matching impls."""
        out = {}
        for im in self.impls:
            if not self.tys(im["self_ty"]).startswith(self_prefix):
                continue
            if trait is not None and im.get("trait") != trait:
                continue
            if trait is None and im.get("trait") is not None:
                continue
            for inst in im["insts"]:
                d = out.setdefault(inst["self"], {})
                for k, v in inst["consts"].items():
                    d[k] = (v or {}).get("v")
        return out


class Body:
    def __init__(self, facts, d):
        self.f = facts
        self.d = d
        self.path = d["path"]
        self.kind = d["kind"]
        self.name = d.get("name") or self.path.rsplit("::", 1)[-1]
        self.mir = d.get("mir")
        self.blocks = self.mir["blocks"] if self.mir else []
        self.loc = d.get("loc") or {}
        self._dom = None
        self._preds = None
        self._defs = None

    def __repr__(self):
        return "<Body %s>" % self.path

    def where(self):
        return "%s:%s" % (self.loc.get("file"), self.loc.get("line"))

    def impl_info(self):
        p = self.d.get("impl")
        return self.f.impl_by_path(p) if p else None

    # ---- CFG
    def succs(self, i, cleanup=False):
        t = self.blocks[i]["term"]
        k = t["t"]
        if k == "goto":
            return [t["target"]]
        if k == "switch":
            return [x[1] for x in t["targets"]] + [t["otherwise"]]
        if k in ("call", "drop", "assert"):
            return [t["target"]] if t.get("target") is not None else []
        return []

    def preds(self):
        if self._preds is None:
            p = {i: [] for i in range(len(self.blocks))}
            for i in range(len(self.blocks)):
                for s in self.succs(i):
                    p[s].append(i)
            self._preds = p
        return self._preds

    def reachable_from(self, start, avoid=()):
        seen = set()
        st = [start]
        while st:
            x = st.pop()
            if x in seen or x in avoid:
                continue
            seen.add(x)
            st.extend(self.succs(x))
        return seen

    def dominators(self):
        """dom[b] = set of blocks dominating b (iterative)."""
        if self._dom is not None:
            return self._dom
        n = len(self.blocks)
        reach = self.reachable_from(0)
        allb = set(reach)
        dom = {b: set(allb) for b in reach}
        dom[0] = {0}
        preds = self.preds()
        changed = True
        order = sorted(reach)
        while changed:
            changed = False
            for b in order:
                if b == 0:
                    continue
                ps = [p for p in preds[b] if p in reach]
                if not ps:
                    continue
                new = set.intersection(*(dom[p] for p in ps)) | {b}
                if new != dom[b]:
                    dom[b] = new
                    changed = True
        self._dom = dom
        return dom

    def dominates(self, a, b):
        d = self.dominators()
        return b in d and a in d[b]

    def calls(self):
        """[(bb, term)] for call terminators (non-cleanup)."""
        out = []
        for i, b in enumerate(self.blocks):
            if b.get("cleanup"):
                continue
            if b["term"]["t"] == "call":
                out.append((i, b["term"]))
        return out

    def return_blocks(self):
        return [i for i, b in enumerate(self.blocks) if b["term"]["t"] == "return" and not b.get("cleanup")]

    # ---- definitions
    def defs(self):
        """local -> [(bb, stmt_index or 'term', node)] over all assignments whose
        destination is exactly the local (no projection)."""
        if self._defs is None:
            d = {}
            for i, b in enumerate(self.blocks):
                for j, s in enumerate(b["stmts"]):
                    dst = s.get("dst")
                    if dst is not None and "p" not in dst:
                        d.setdefault(dst["l"], []).append((i, j, s))
                t = b["term"]
                if t["t"] == "call":
                    dst = t["dst"]
                    if "p" not in dst:
                        d.setdefault(dst["l"], []).append((i, "term", t))
            self._defs = d
        return self._defs

    def single_def(self, local):
        l = self.defs().get(local, [])
        return l[0] if len(l) == 1 else None

    def arg_index(self, local):
        """1-based parameter index if `local` is a parameter, else None."""
        return local if self.mir and 1 <= local <= self.mir["arg_count"] else None

    def local_name(self, local):
        for n in self.mir.get("names", []):
            if n["place"]["l"] == local and "p" not in n["place"]:
                return n["name"]
        return None

    def local_ty(self, local):
        return self.f.ty(self.mir["locals"][local]["ty"])

    # ---- provenance
    def origin(self, op, depth=0):
        """Follow a chain of single-definition copies/moves/casts/refs back to its root.

        Returns a tuple describing the root:
          ('param', n, proj)         function parameter n (1-based) with projection path
          ('const', constjson)
          ('call', bb, term)          result of the call terminating block bb
          ('rv', bb, idx, stmt)       some other rvalue (bin/agg/...)
          ('multi', local)            local with several definitions
          ('undef', local)
        """
        if depth > 40:
            return ("deep",)
        if "const" in op:
            return ("const", op["const"])
        pl = op.get("copy") or op.get("move")
        if pl is None:
            return ("other", op)
        return self.origin_place(pl, depth)

    def origin_place(self, pl, depth=0):
        local = pl["l"]
        proj = pl.get("p", [])
        a = self.arg_index(local)
        ds = self.defs().get(local, [])
        if a is not None and not ds:
            return ("param", a, proj)
        if len(ds) == 0:
            return ("undef", local, proj)
        if len(ds) > 1:
            return ("multi", local, proj)
        bb, idx, node = ds[0]
        if idx == "term":
            return ("call", bb, node, proj)
        rv = node["rv"]
        if rv == "use":
            r = self.origin(node["op"], depth + 1)
            return _extend(r, proj)
        if rv == "copy_for_deref":
            r = self.origin_place(node["place"], depth + 1)
            return _extend(r, proj)
        if rv == "ref":
            r = self.origin_place(node["place"], depth + 1)
            return _extend(_extend(r, ["&"]), proj)
        if rv == "cast":
            r = self.origin(node["op"], depth + 1)
            return _extend(_extend(r, [("cast", node["kind"], node["ty"])]), proj)
        return ("rv", bb, idx, node, proj)


def _extend(r, proj):
    if not proj:
        return r
    if r[0] in ("param",):
        return (r[0], r[1], list(r[2]) + list(proj))
    if r[0] in ("call",):
        return (r[0], r[1], r[2], list(r[3]) + list(proj))
    if r[0] == "rv":
        return (r[0], r[1], r[2], r[3], list(r[4]) + list(proj))
    if r[0] in ("multi", "undef"):
        return (r[0], r[1], list(r[2]) + list(proj))
    if r[0] == "const":
        return ("const", r[1], proj) if len(r) == 2 else ("const", r[1], list(r[2]) + list(proj))
    return r


def callee_path(term, prefer_resolved=True):
    c = term["callee"]
    if prefer_resolved and c.get("resolved"):
        return c["resolved"]["path"]
    return c.get("path")


def callee_krate(term):
    c = term["callee"]
    if c.get("resolved"):
        return c["resolved"]["krate"]
    return c.get("krate")


def const_val(c):
    """Integer value of a const operand json if it is a plain value."""
    if c is None:
        return None
    if c.get("k") == "val":
        return c["v"]
    if c.get("k") == "uneval" and c.get("value") and c["value"].get("k") == "val":
        return c["value"]["v"]
    return None
