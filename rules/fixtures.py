"""Positive fixtures (DESIGN 3.2): the zero-expected rules must fire on a crate that violates them."""
import os

from . import engine, callgraph, sym
from .props import panics, c17

FIXDIR = os.path.join(engine.VERIF, "fixtures", "positive")


def facts():
    saved = engine.CONFIGS.get("FIX")
    engine.CONFIGS["FIX"] = ([], "", "positive fixtures")
    try:
        path, log, ok = engine.build_facts("FIX", repo=FIXDIR, package="tlsh-fixture", crate="tlsh_fixture")
    finally:
        if saved is None:
            engine.CONFIGS.pop("FIX", None)
    if not ok:
        raise engine.EnvError("positive fixture crate does not type-check:\n" + (log or "")[-1500:])
    return engine.Facts("FIX", path)


def selfcheck(which):
    """Returns a list of problems (empty = every requested rule fired on its fixture and stayed silent on the twin)."""
    F = facts()
    problems = []
    if "alloc" in which:
        G = callgraph.CallGraph(F)
        reach = G.reach(["core_op_allocates"])
        ext = {e for p in reach for e in G.ext.get(p, ())}
        if not any(kr == "alloc" for (_, kr) in ext):
            problems.append("call-graph rule: no path from fixture `core_op_allocates` to crate alloc was found")
    if "taint" in which:
        b = F.fn("invariant_on_reader")
        hit = False
        if b is not None:
            S = sym.Sym(b)
            for p in S.paths():
                if p.calls and p.calls[-1][1] == "core::hint::unreachable_unchecked" and p.conds:
                    if c17.foreign_trait_calls(b, p.conds[-1][1]):
                        hit = True
        if not hit:
            problems.append("taint rule: the invariant fed by <R as Read>::read in the fixture was not flagged")
    if "panic" in which:
        roots = ["unwrap_on_parse", "unguarded_index", "unguarded_window", "unguarded_add", "guarded_index", "guarded_window", "guarded_add"]
        sites, reach, G = panics.collect(F, roots)
        panics.discharge(F, sites, None)
        bad = {}
        for s in sites:
            bad.setdefault(s.body.path, []).append(bool(s.undischarged or not s.idioms))
        for fn in ("unwrap_on_parse", "unguarded_index", "unguarded_window", "unguarded_add"):
            if not any(bad.get(fn, [])):
                problems.append("panic-site rule: fixture `%s` was not flagged" % fn)
        for fn in ("guarded_index", "guarded_window", "guarded_add"):
            if any(bad.get(fn, [True])) or fn not in bad:
                problems.append("panic-site rule: discharged twin `%s` was flagged (or has no site)" % fn)
    return problems
