"""Value rules over the crate's own constant tables (read from the compiler's constant
evaluator).  Every function records obligations on ctx under the given rule name.
The reference side is computed here, independently of the crate's initialisers."""
import json
import os
from fractions import Fraction

from . import engine

SPEC = os.path.join(engine.VERIF, "spec")


def spec_pearson():
    t = json.load(open(os.path.join(SPEC, "pearson.json")))["table"]
    assert len(t) == 256 and sorted(t) == list(range(256))
    assert t[:8] == [1, 87, 49, 12, 176, 178, 102, 166]
    return t


def spec_topval():
    return json.load(open(os.path.join(SPEC, "topval.json")))["table"]


def need(ctx, rule, F, path, esize, what=None, signed=False):
    a = F.const_array(path, esize, signed)
    if a is None:
        ctx.missing(rule, "constant %s (%s) not found/evaluable in %s" % (path, what or "", F.key), cfg=F.key)
    return a


def cmp_table(ctx, rule, F, name, got, want, fmt=str, exhaustive_note=None):
    """Compare entry by entry; one obligation per table plus a violation naming the
    first differing entries."""
    ctx.instance(rule)
    if got is None:
        return False
    bad = [i for i in range(min(len(got), len(want))) if got[i] != want[i]]
    ok = not bad and len(got) == len(want)
    msg = ""
    if not ok:
        msg = "%s differs from the reference: len %d vs %d; first differing entries %s" % (
            name, len(got), len(want),
            ", ".join("[%d]=%s (reference %s)" % (i, fmt(got[i]), fmt(want[i])) for i in bad[:6]))
    ctx.ob(rule, (name, "value"), ok, msg, cfg=F.key, detail={"entries": len(want)})
    return ok


# ------------------------------------------------------------------ Pearson


def pearson_tables(ctx, rule, F):
    T = spec_pearson()
    got = need(ctx, rule, F, "pearson::SUBST_TABLE", 1, "Pearson permutation")
    cmp_table(ctx, rule, F, "pearson::SUBST_TABLE", got, T)
    t48 = need(ctx, rule, F, "pearson::SUBST_TABLE_48", 1, "48-fold table")
    cmp_table(ctx, rule, F, "pearson::SUBST_TABLE_48", t48, [48 if x >= 240 else x % 48 for x in T])
    if "opt-pearson-table-double" in F.features:
        d = F.const_bytes("pearson::SUBST_TABLE_DOUBLE")
        if d is None:
            ctx.missing(rule, "pearson::SUBST_TABLE_DOUBLE", cfg=F.key)
        else:
            want = bytes(T[T[b1] ^ b2] for b2 in range(256) for b1 in range(256))
            cmp_table(ctx, rule, F, "pearson::SUBST_TABLE_DOUBLE", list(d), list(want))
    v = F.const_int("pearson::INITIAL_STATE")
    ctx.instance(rule)
    ctx.ob(rule, ("pearson::INITIAL_STATE", "value"), v == 0, "INITIAL_STATE is %r, reference 0" % v, cfg=F.key)
    w = F.const_int("generate::WINDOW_SIZE")
    ctx.instance(rule)
    ctx.ob(rule, ("generate::WINDOW_SIZE", "value"), w == 5, "WINDOW_SIZE is %r, reference 5" % w, cfg=F.key)


# ------------------------------------------------------------------ length


def topval_table(ctx, rule, F):
    """TOP_VALUE_BY_ENCODING == reference, re-derived head, structural laws on the tail."""
    spec = spec_topval()
    got = need(ctx, rule, F, "length::TOP_VALUE_BY_ENCODING", 4, "topval")
    cmp_table(ctx, rule, F, "length::TOP_VALUE_BY_ENCODING", got, spec)
    if got is None:
        return None
    T = got
    # head re-derivation in exact arithmetic
    head = [int(Fraction(3, 2) ** (i + 1)) for i in range(16)]
    head += [int(657 * Fraction(13, 10) ** (i - 0x0f)) for i in range(0x10, 0x16)]
    ctx.ob(rule, ("topval", "head-rederived"), T[:22] == head,
           "entries 0x00..0x15 are not floor(1.5^(i+1)) / floor(657*1.3^(i-0x0f)): %s vs %s" % (T[:22], head), cfg=F.key)
    inc = all(T[i] < T[i + 1] for i in range(len(T) - 1))
    bad = [i for i in range(len(T) - 1) if not T[i] < T[i + 1]]
    ctx.ob(rule, ("topval", "strictly-increasing"), inc, "not strictly increasing at %s" % bad[:5], cfg=F.key)
    ratios_ok = all(Fraction(10998, 10000) <= Fraction(T[i + 1], T[i]) <= Fraction(11002, 10000) for i in range(0x16, len(T) - 1))
    ctx.ob(rule, ("topval", "tail-ratio"), ratios_ok, "tail successive ratio outside [1.0998,1.1002]", cfg=F.key)
    ctx.ob(rule, ("topval", "len-170"), len(T) == 170, "length %d" % len(T), cfg=F.key)
    ctx.ob(rule, ("topval", "max"), T[-1] == 4224281216, "last entry %d != 4224281216" % T[-1], cfg=F.key)
    size = F.const_int("length::ENCODED_VALUE_SIZE")
    ctx.ob(rule, ("length::ENCODED_VALUE_SIZE", "value"), size == 170 == len(T), "ENCODED_VALUE_SIZE %r" % size, cfg=F.key)
    mx = F.const_int("length::MAX")
    ctx.ob(rule, ("length::MAX", "value"), mx == T[-1] == 4224281216, "length::MAX %r" % mx, cfg=F.key)
    return T


def clz_table(ctx, rule, F, T):
    """ENCODED_INDICES_BY_LEADING_ZEROS brackets every leading-zero class."""
    I = need(ctx, rule, F, "length::ENCODED_INDICES_BY_LEADING_ZEROS", F.usize_bytes, "clz bracket table")
    ctx.instance(rule)
    if I is None or T is None:
        return None
    ctx.ob(rule, ("clz-table", "len-33"), len(I) == 33, "length %d" % len(I), cfg=F.key)
    if len(I) != 33:
        return None
    n = len(T)
    for c in range(32):
        bottom, top = I[c + 1], I[c]
        lo, hi = 1 << (31 - c), (1 << (32 - c)) - 1  # all len with clz(len) == c
        hi2 = min(hi, T[-1])
        # The restricted search returns bottom + #{entries of T[bottom:top] < len}; the global code
        # is #{entries of T < len}.  They agree for every len in [lo, hi2] iff all entries before
        # `bottom` are < lo and all entries from `top` on are >= hi2.
        ok = (bottom <= top <= n
              and (bottom == 0 or T[bottom - 1] < lo)
              and (top == n or T[top] >= hi2))
        msg = ""
        if not ok:
            msg = "class %d (len in [%d,%d]): bottom=%d top=%d n=%d; T[bottom-1]=%s T[top]=%s" % (
                c, lo, hi2, bottom, top, n, T[bottom - 1] if 0 < bottom <= n else None,
                T[top] if top < n else None)
        ctx.ob(rule, ("clz-table", "class-%d" % c), ok, msg, cfg=F.key,
               detail={"bottom": bottom, "top": top})
    return I


# ------------------------------------------------------------------ distances


def ring(a, b, n):
    d = (a - b) % n
    return min(d, n - d)


def q_sub(a, b):
    d = ring(a, b, 16)
    return d if d <= 1 else (d - 1) * 12


def q_dist(x, y):
    return q_sub(x & 15, y & 15) + q_sub(x >> 4, y >> 4)


def l_dist(i):
    d = min(i, 256 - i)
    return d if d <= 1 else d * 12


def qdist_tables(ctx, rule, F):
    if "opt-dist-qratios-table-double" in F.features:
        b = F.const_bytes("compare::dist_qratios::QDIST_VALUE_2")
        if b is None:
            ctx.missing(rule, "QDIST_VALUE_2", cfg=F.key)
            return None
        want = [q_dist(x, y) for y in range(256) for x in range(256)]
        cmp_table(ctx, rule, F, "compare::dist_qratios::QDIST_VALUE_2", list(b), want)
        return ("double", list(b))
    if "opt-dist-qratios-table" in F.features:
        b = F.const_bytes("compare::dist_qratios::QDIST_VALUE")
        if b is None:
            ctx.missing(rule, "QDIST_VALUE", cfg=F.key)
            return None
        want = [q_sub(x, y) for y in range(16) for x in range(16)]
        cmp_table(ctx, rule, F, "compare::dist_qratios::QDIST_VALUE", list(b), want)
        return ("single", list(b))
    return None


def ldist_table(ctx, rule, F):
    if "opt-dist-length-table" not in F.features:
        return None
    a = need(ctx, rule, F, "compare::dist_length::LDIST_VALUE", 2, "length distance table")
    cmp_table(ctx, rule, F, "compare::dist_length::LDIST_VALUE", a, [l_dist(i) for i in range(256)])
    return a


# ------------------------------------------------------------------ hex


HEXU = b"0123456789ABCDEF"


def hexval(c):
    ch = chr(c)
    if ch in "0123456789":
        return c - 48
    if ch in "ABCDEF":
        return c - 65 + 10
    if ch in "abcdef":
        return c - 97 + 10
    return None


def hex_tables(ctx, rule, F):
    """Encode/decode tables and their mutual-inverse algebra. Returns dict of tables present."""
    out = {}
    feats = F.features
    nib = F.const_bytes("parse::hex_str::HEX_UPPER_NIBBLE_TABLE")
    ctx.instance(rule)
    if nib is None:
        ctx.missing(rule, "HEX_UPPER_NIBBLE_TABLE", cfg=F.key)
    else:
        ctx.ob(rule, ("HEX_UPPER_NIBBLE_TABLE", "value"), bytes(nib) == HEXU,
               "nibble table is %r, reference %r" % (bytes(nib), HEXU), cfg=F.key)
        out["nib"] = nib
    if "opt-low-memory-hex-str-encode-min-table" not in feats:
        bt = F.const_bytes("parse::hex_str::HEX_UPPER_BYTE_TABLE")
        want = b"".join(bytes([HEXU[v >> 4], HEXU[v & 15]]) for v in range(256))
        cmp_table(ctx, rule, F, "parse::hex_str::HEX_UPPER_BYTE_TABLE", list(bt) if bt else None, list(want), fmt=lambda x: repr(chr(x)))
        out["byte"] = bt
    if "opt-low-memory-hex-str-encode-half-table" not in feats:
        rt = F.const_bytes("parse::hex_str::HEX_UPPER_BYTE_REV_TABLE")
        want = b"".join(bytes([HEXU[v & 15], HEXU[v >> 4]]) for v in range(256))
        cmp_table(ctx, rule, F, "parse::hex_str::HEX_UPPER_BYTE_REV_TABLE", list(rt) if rt else None, list(want), fmt=lambda x: repr(chr(x)))
        out["rev"] = rt
    # decode tables
    inv = F.const_int("parse::hex_str::HEX_INVALID")
    out["invalid"] = inv
    if "opt-low-memory-hex-str-decode-min-table" not in feats:
        quarter = "opt-low-memory-hex-str-decode-quarter-table" in feats
        es = 1 if quarter else 2
        want_inv = 0xFF if quarter else 0x100
        ctx.instance(rule)
        ctx.ob(rule, ("HEX_INVALID", "value"), inv == want_inv, "HEX_INVALID %r, expected %#x" % (inv, want_inv), cfg=F.key)
        lo = F.const_array("parse::hex_str::HEX_REV_TABLE_LO", es)
        want = [hexval(c) if hexval(c) is not None else want_inv for c in range(256)]
        cmp_table(ctx, rule, F, "parse::hex_str::HEX_REV_TABLE_LO", lo, want, fmt=hex)
        out["lo"] = lo
        if "opt-low-memory-hex-str-decode-half-table" not in feats:
            hi = F.const_array("parse::hex_str::HEX_REV_TABLE_HI", 2)
            want = [(hexval(c) << 4) if hexval(c) is not None else 0x100 for c in range(256)]
            cmp_table(ctx, rule, F, "parse::hex_str::HEX_REV_TABLE_HI", hi, want, fmt=hex)
            out["hi"] = hi
    else:
        ctx.instance(rule)
        ctx.ob(rule, ("HEX_INVALID", "value"), inv == 0xFF, "HEX_INVALID %r, expected 0xff" % inv, cfg=F.key)
    # canonical: every encoder table byte is an upper-case hex digit (< 0x80)
    for nm in ("nib", "byte", "rev"):
        t = out.get(nm)
        if t:
            ctx.ob(rule, (nm, "uppercase-hex-ascii"), all(b in HEXU for b in t),
                   "%s table contains a byte outside 0-9A-F" % nm, cfg=F.key)
    return out


def maxima(ctx, rule, F, qt, lt):
    """Table laws for C08: symmetry, zero iff diagonal, maximum == MAX_DISTANCE, attained."""
    qmax = F.const_int("compare::dist_qratios::MAX_DISTANCE")
    lmax = F.const_int("compare::dist_length::MAX_DISTANCE")
    if qt:
        kind, t = qt
        n = 256 if kind == "double" else 16
        sym = all(t[y * n + x] == t[x * n + y] for x in range(n) for y in range(x))
        ctx.ob(rule, ("qdist", "symmetric"), sym, "Q-ratio distance table is not symmetric", cfg=F.key)
        z = all((t[y * n + x] == 0) == (x == y) for x in range(n) for y in range(n))
        ctx.ob(rule, ("qdist", "zero-iff-diagonal"), z, "Q-ratio distance table has a zero off the diagonal or non-zero on it", cfg=F.key)
        m = max(t) if kind == "double" else 2 * max(t)
        ctx.ob(rule, ("qdist", "max==MAX_DISTANCE"), m == qmax == 168,
               "table maximum %d, MAX_DISTANCE %r, reference 168" % (m, qmax), cfg=F.key)
    else:
        ctx.ob(rule, ("qdist", "max==MAX_DISTANCE"), qmax == 168, "MAX_DISTANCE %r" % qmax, cfg=F.key)
    if lt:
        ctx.ob(rule, ("ldist", "zero-iff-0"), lt[0] == 0 and all(v != 0 for v in lt[1:]), "L[0]!=0 or zero elsewhere", cfg=F.key)
        ctx.ob(rule, ("ldist", "symmetric"), all(lt[i] == lt[(256 - i) % 256] for i in range(256)), "L[i] != L[256-i]", cfg=F.key)
        ctx.ob(rule, ("ldist", "max==MAX_DISTANCE"), max(lt) == lmax == 1536 and lt[128] == 1536,
               "table maximum %d at %d, MAX_DISTANCE %r, reference 1536 at 128" % (max(lt), lt.index(max(lt)), lmax), cfg=F.key)
    else:
        ctx.ob(rule, ("ldist", "max==MAX_DISTANCE"), lmax == 1536, "MAX_DISTANCE %r" % lmax, cfg=F.key)
