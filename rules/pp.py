"""Human-readable MIR printer for the JSON facts (development aid + replay output)."""


def place(p):
    s = "_%d" % p["l"]
    for e in p.get("p", []):
        if e == "*":
            s = "(*%s)" % s
        elif isinstance(e, str):
            s += "." + e
        elif "f" in e:
            s += ".%d" % e["f"]
        elif "idx" in e:
            s += "[_%d]" % e["idx"]
        elif "cidx" in e:
            s += "[%s%d of %d]" % ("-" if e["from_end"] else "", e["cidx"], e["min"])
        elif "sub_from" in e:
            s += "[%d..%s%d]" % (e["sub_from"], "-" if e["from_end"] else "", e["sub_to"])
        elif "variant" in e:
            s += " as %s" % (e.get("vname") or e["variant"])
    return s


def const(c, F=None):
    k = c.get("k")
    if k == "val":
        return "const %d" % c["v"]
    if k == "cparam":
        return "const %s" % c["n"]
    if k == "uneval":
        v = c.get("value")
        base = "const {%s}" % c["path"]
        if "promoted" in c:
            base += "#promoted[%d]" % c["promoted"]
        if v and v.get("k") == "val":
            base += "=%d" % v["v"]
        return base
    if k == "fn":
        return "fn %s" % c["path"]
    if k == "zst":
        return "const ZST" + ("<%s>" % F.tys(c["ty"]) if F else "")
    if k in ("mem_ref", "slice", "indirect"):
        return "const &%s" % (c.get("bytes", "?")[:40])
    if k == "static_ref":
        return "&static %s" % c["path"]
    return "const <%s>" % k


def operand(o, F=None):
    if "copy" in o:
        return place(o["copy"])
    if "move" in o:
        return "move " + place(o["move"])
    if "const" in o:
        return const(o["const"], F)
    return str(o)


def stmt(s, F=None):
    rv = s["rv"]
    d = place(s["dst"]) if "dst" in s else "?"
    if rv == "use":
        r = operand(s["op"], F)
    elif rv == "bin":
        r = "%s(%s, %s)" % (s["op"], operand(s["a"], F), operand(s["b"], F))
    elif rv == "un":
        r = "%s(%s)" % (s["op"], operand(s["a"], F))
    elif rv == "ref":
        r = "&%s%s" % ("mut " if s["bk"] == "mut" else "", place(s["place"]))
    elif rv == "rawptr":
        r = "&raw %s%s" % ("mut " if s["mut"] else "const ", place(s["place"]))
    elif rv == "cast":
        r = "%s as %s (%s)" % (operand(s["op"], F), F.tys(s["ty"]) if F else s["ty"], s["kind"])
    elif rv == "discr":
        r = "discriminant(%s)" % place(s["place"])
    elif rv == "agg":
        what = s["agg"]
        if what == "adt":
            what = "%s::%s" % (s["path"], s["vname"])
        r = "%s{%s}" % (what, ", ".join(operand(o, F) for o in s["ops"]))
    elif rv == "repeat":
        r = "[%s; %s]" % (operand(s["op"], F), s["n"].get("v", s["n"].get("n")))
    elif rv == "copy_for_deref":
        r = "deref_copy " + place(s["place"])
    elif rv == "set_discr":
        r = "set_discriminant %d" % s["variant"]
    else:
        r = rv
    return "%s = %s" % (d, r)


def term(t, F=None):
    k = t["t"]
    if k == "goto":
        return "goto -> bb%d" % t["target"]
    if k == "switch":
        return "switchInt(%s) -> [%s, otherwise: bb%d]" % (
            operand(t["discr"], F),
            ", ".join("%d: bb%d" % (v, b) for v, b in t["targets"]),
            t["otherwise"],
        )
    if k == "call":
        c = t["callee"]
        name = c.get("path") or "<indirect %s>" % operand(c["indirect"], F)
        res = c.get("resolved")
        if res and res["path"] != name:
            name += " => " + res["path"]
        return "%s = %s(%s) -> %s" % (
            place(t["dst"]),
            name,
            ", ".join(operand(a, F) for a in t["args"]),
            "bb%d" % t["target"] if t.get("target") is not None else "!",
        )
    if k == "assert":
        return "assert(%s%s, %s) -> bb%d" % (
            "" if t["expected"] else "!",
            operand(t["cond"], F),
            t["msg"]["kind"],
            t["target"],
        )
    if k == "drop":
        return "drop(%s) -> bb%d" % (place(t["place"]), t["target"])
    return k


def body(b):
    F = b.f
    out = ["fn %s  [%s] %s" % (b.path, b.kind, b.where())]
    if b.mir:
        for i, l in enumerate(b.mir["locals"]):
            nm = b.local_name(i)
            out.append("    let %s_%d: %s;%s" % ("mut " if l["mut"] else "", i, F.tys(l["ty"]), "  // " + nm if nm else ""))
        for i, bl in enumerate(b.blocks):
            out.append("  bb%d%s:" % (i, " (cleanup)" if bl.get("cleanup") else ""))
            for s in bl["stmts"]:
                out.append("      " + stmt(s, F))
            t = bl["term"]
            ln = (t.get("loc") or {}).get("line")
            mac = (t.get("loc") or {}).get("macros")
            out.append("      %s   // L%s%s" % (term(t, F), ln, " " + ",".join(mac) if mac else ""))
    return "\n".join(out)
