"""Normalisation of sym expressions into canonical, comparison-friendly tuples."""

COMM = {"BitXor", "BitAnd", "BitOr", "Add", "Mul", "Eq", "Ne", "AddUnchecked", "MulUnchecked"}
FLIP = {"Lt": "Gt", "Gt": "Lt", "Le": "Ge", "Ge": "Le"}

# wrapper functions that do not change the value (crate-local identity helpers are
# verified separately by R-07.1: `likely`/`unlikely` return their argument)
IDENTITY_CALLS = {"intrinsics::likely", "intrinsics::unlikely"}
# lossless integer conversions written as calls: u32::from(x), usize::from(x), x.into() -- the value is unchanged, exactly
# like the widening `as` casts that are stripped below (only unsigned/bool sources into unsigned targets; From is only
# implemented for lossless pairs, so the implemented pairs are all widening or same-width)
import re as _re
_INT = r"(?:u8|u16|u32|u64|u128|usize|bool)"
WIDENING_FROM = _re.compile(r"^<(%s) as core::convert::From<(%s)>>::from$|^<(%s) as core::convert::Into<(%s)>>::into$|^core::convert::num::<impl core::convert::From<(%s)> for (%s)>::from$" % (_INT, _INT, _INT, _INT, _INT, _INT))


def short(path):
    return path


def n(e, keep_casts=False):
    """Canonical form: IntToInt casts stripped (unless keep_casts), named constants replaced
    by their value when known, commutative operands sorted, call ids dropped,
    `Gt(a,b)` rewritten as `Lt(b,a)` and `Ge(a,b)` as `Le(b,a)`."""
    k = e[0]
    if k in ("param", "const", "cparam", "table", "fn", "zst", "bytes", "local", "lv"):
        return e
    if k == "cpath":
        return ("const", e[2]) if len(e) > 2 and e[2] is not None else ("cpath", e[1])
    if k == "cast":
        inner = n(e[3], keep_casts)
        if e[1] == "IntToInt" and not keep_casts:
            return inner
        if e[1].startswith("PointerCoercion"):
            return inner
        return ("cast", e[1], e[2], inner)
    if k == "bin":
        a, b = n(e[2], keep_casts), n(e[3], keep_casts)
        op = e[1]
        for suf in ("WithOverflow", "Unchecked"):
            if op.endswith(suf):
                op = op[: -len(suf)]
        if op in ("Gt", "Ge"):
            op = FLIP[op]
            a, b = b, a
        # unsigned arithmetic by a power of two: x % 2^k is x & (2^k - 1), x / 2^k is x >> k (all integers handled here are unsigned)
        if op == "Rem" and b[0] == "const" and isinstance(b[1], int) and b[1] > 0 and b[1] & (b[1] - 1) == 0:
            op, b = "BitAnd", ("const", b[1] - 1)
        elif op == "Div" and b[0] == "const" and isinstance(b[1], int) and b[1] > 1 and b[1] & (b[1] - 1) == 0:
            op, b = "Shr", ("const", b[1].bit_length() - 1)
        if op in COMM and repr(a) > repr(b):
            a, b = b, a
        return ("bin", op, a, b)
    if k == "ovf":
        return ("ovf", e[1], n(e[2], keep_casts), n(e[3], keep_casts))
    if k == "un":
        inner = n(e[2], keep_casts)
        if e[1] == "Not" and inner[0] == "bin" and inner[1] in ("Lt", "Le", "Eq", "Ne"):
            # logical negation of a comparison: !(a < b) is b <= a, !(a <= b) is b < a, !(a == b) is a != b
            op, a, b = inner[1], inner[2], inner[3]
            if op == "Lt":
                return ("bin", "Le", b, a)
            if op == "Le":
                return ("bin", "Lt", b, a)
            flipped = "Ne" if op == "Eq" else "Eq"
            return ("bin", flipped, a, b)
        if e[1] == "Not" and inner[0] == "un" and inner[1] == "Not":
            return inner[2]
        return ("un", e[1], inner)
    if k == "ref":
        inner = n(e[-1], keep_casts)
        if inner[0] == "deref":
            return inner[1]  # reborrow `&*x` is `x`
        return ("ref", inner)
    if k == "rawptr":
        return ("rawptr", n(e[-1], keep_casts))
    if k in ("deref", "discr", "len"):
        return (k, n(e[1], keep_casts))
    if k == "field":
        return ("field", n(e[1], keep_casts), e[2])
    if k == "index":
        return ("index", n(e[1], keep_casts), n(e[2], keep_casts))
    if k == "cindex":
        if not e[3]:
            return ("index", n(e[1], keep_casts), ("const", e[2]))
        return ("cindex", n(e[1], keep_casts), e[2], e[3])
    if k == "subslice":
        return ("subslice", n(e[1], keep_casts), e[2], e[3], e[4])
    if k == "variant":
        return ("variant", n(e[1], keep_casts), e[2])
    if k == "agg":
        return ("agg", e[1], tuple(n(x, keep_casts) for x in e[2]))
    if k == "repeat":
        return ("repeat", n(e[1], keep_casts), n(e[2], keep_casts))
    if k == "call":
        path, rawargs = (e[1], e[2]) if isinstance(e[1], str) else (e[2], e[3])
        args = tuple(n(x, keep_casts) for x in rawargs)
        if len(args) == 1 and WIDENING_FROM.match(path):
            if not keep_casts:
                return args[0]
            m_ = WIDENING_FROM.match(path)
            tgt = m_.group(1) or m_.group(4) or m_.group(6)
            return ("cast", "IntToInt", tgt, args[0])
        if path in IDENTITY_CALLS and len(args) == 1:
            return args[0]
        return ("call", path, args)
    if k == "load":
        return ("load", n(e[1], keep_casts))
    if k == "mutated":
        if isinstance(e[1], tuple):
            return ("mutated", n(e[1], keep_casts))
        return ("mutated", ("lv", e[1]))
    if k == "val":
        return n(e[1], keep_casts)
    if k == "proj":
        return ("proj", n(e[1], keep_casts), e[2])
    return e


def P(i):
    return ("param", i)


def C(v):
    return ("const", v)


def call(path, *args):
    return ("call", path, tuple(args))


def binop(op, a, b):
    if op in COMM and repr(a) > repr(b):
        a, b = b, a
    return ("bin", op, a, b)


def idx(base, i):
    return ("index", base, i)


def table(path):
    return ("table", path)


def self_field(param, f):
    """place of field f of *param"""
    return ("field", ("deref", ("param", param)), f)


def load(place):
    return ("load", place)


def match(pat, e, b=None):
    """Structural match with wildcards ('?', name) (binds consistently) and ('?*',) (anything).
    Returns the binding dict or None."""
    if b is None:
        b = {}
    if isinstance(pat, tuple) and pat and pat[0] == "?":
        if pat[1] in b:
            return b if b[pat[1]] == e else None
        b[pat[1]] = e
        return b
    if isinstance(pat, tuple) and pat and pat[0] == "?*":
        return b
    if isinstance(pat, (tuple, list)):
        if not isinstance(e, (tuple, list)) or len(pat) != len(e):
            return None
        for x, y in zip(pat, e):
            if match(x, y, b) is None:
                return None
        return b
    return b if pat == e else None


def V(name):
    return ("?", name)


ANY = ("?*",)


def find_all(e, pred):
    out = []

    def rec(x):
        if isinstance(x, tuple):
            if x and isinstance(x[0], str):
                if pred(x):
                    out.append(x)
                for y in x[1:]:
                    rec(y)
            else:
                for y in x:
                    rec(y)
        elif isinstance(x, list):
            for y in x:
                rec(y)

    rec(e)
    return out
