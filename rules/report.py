"""Obligation bookkeeping, known findings, evidence and replay files."""
import hashlib
import json
import os
import time

from . import engine

EVID = os.environ.get("TLSH_EVIDENCE_DIR") or os.path.join(engine.VERIF, "evidence")
REPLAY = os.path.join(EVID, "replay")
KNOWN = os.path.join(engine.VERIF, "known_findings.txt")


def load_known():
    findings = {}
    fixed = []
    if os.path.exists(KNOWN):
        for line in open(KNOWN):
            line = line.strip()
            if not line or line.startswith("#"):
                continue
            if line.startswith("finding:"):
                rest = line[len("finding:"):].strip()
                parts = rest.split(None, 2)
                prop = parts[0].split("=", 1)[1]
                key = parts[1].split("=", 1)[1]
                text = parts[2] if len(parts) > 2 else ""
                findings[(prop, key)] = text
            elif line.startswith("fixed:"):
                fixed.append(line)
    return findings, fixed


class Ctx:
    """One run of one property's rules."""

    def __init__(self, prop, tier, seed):
        self.prop = prop
        self.tier = tier
        self.seed = seed
        self.t0 = time.time()
        self.findings = []  # dicts
        self.rules = {}  # rule -> stats
        self.assumptions = []
        self.not_decided = []
        self.configs = []
        self.config_failures = {}
        self.notes = []

    def rule(self, name, text, level="D"):
        r = self.rules.setdefault(
            name,
            {"text": text, "level": level, "obligations": 0, "discharged": 0, "instances": 0,
             "nontrivial": set(), "samples": [], "floor": None, "configs": set(), "exhaustive": None},
        )
        return r

    def ob(self, rule, key, ok, msg="", cfg=None, where=None, detail=None, trivial=False):
        """Record one obligation. `key` is a tuple of strings without line numbers."""
        r = self.rules[rule]
        r["obligations"] += 1
        if cfg:
            r["configs"].add(cfg)
        skey = "|".join(str(k) for k in key)
        if not trivial:
            r["nontrivial"].add(skey)
        if ok:
            r["discharged"] += 1
            if len(r["samples"]) < 4:
                r["samples"].append({"key": skey, "cfg": cfg, "where": where, "ok": True,
                                     **({"detail": detail} if detail is not None else {})})
        else:
            self.findings.append(
                {"property": self.prop, "rule": rule, "key": rule + "|" + skey, "cfg": cfg, "msg": msg,
                 "where": where, "detail": detail, "rule_text": r["text"]}
            )
        return ok

    def instance(self, rule, n=1):
        self.rules[rule]["instances"] += n

    def floor(self, rule, n, what):
        """Fail closed if fewer than n instances were seen."""
        r = self.rules[rule]
        r["floor"] = n
        if r["instances"] < n:
            self.findings.append(
                {"property": self.prop, "rule": rule, "key": rule + "|instance-floor|" + what, "cfg": None,
                 "msg": "instance floor: expected at least %d %s, found %d (anchor missing or "
                        "unrecognised shape)" % (n, what, r["instances"]),
                 "where": None, "detail": None, "rule_text": r["text"]}
            )

    def missing(self, rule, what, cfg=None):
        self.rules[rule]["obligations"] += 1
        self.findings.append(
            {"property": self.prop, "rule": rule, "key": rule + "|anchor-missing|" + what, "cfg": cfg,
             "msg": "anchor missing / unrecognised shape: " + what, "where": None, "detail": None,
             "rule_text": self.rules[rule]["text"]}
        )

    # ------------------------------------------------------------------
    def finish(self, meta):
        known, fixed = load_known()
        os.makedirs(REPLAY, exist_ok=True)
        # de-duplicate findings by key (same finding in several configurations)
        by_key = {}
        for f in self.findings:
            e = by_key.setdefault(f["key"], dict(f, cfgs=[]))
            if f["cfg"] and f["cfg"] not in e["cfgs"]:
                e["cfgs"].append(f["cfg"])
        violations = 0
        known_hits = 0
        lines = []
        for key, f in sorted(by_key.items()):
            if (self.prop, key) in known:
                known_hits += 1
                lines.append("KNOWN-FINDING: property=%s %s [%s]" % (self.prop, known[(self.prop, key)], key))
                continue
            violations += 1
            h = hashlib.sha256(key.encode()).hexdigest()[:12]
            rp = os.path.join(REPLAY, "%s-%s.json" % (self.prop, h))
            with open(rp, "w") as fh:
                json.dump(f, fh, indent=1, default=str)
            lines.append("VIOLATION property=%s replay=%s" % (self.prop, rp))
            lines.append("  rule   : %s -- %s" % (f["rule"], f["rule_text"]))
            lines.append("  key    : %s" % key)
            lines.append("  config : %s" % ",".join(f["cfgs"]))
            if f.get("where"):
                lines.append("  where  : %s" % f["where"])
            lines.append("  what   : %s" % f["msg"])
        # evidence
        tot_ob = sum(r["obligations"] for r in self.rules.values())
        tot_dis = sum(r["discharged"] for r in self.rules.values())
        nontriv = sum(len(r["nontrivial"]) for r in self.rules.values())
        samples = []
        rules_out = {}
        for name, r in self.rules.items():
            rules_out[name] = {
                "text": r["text"], "level": r["level"], "obligations": r["obligations"],
                "discharged": r["discharged"], "instances": r["instances"], "floor": r["floor"],
                "distinct_nontrivial": len(r["nontrivial"]), "configs": sorted(r["configs"]),
                **({"exhaustive": r["exhaustive"]} if r["exhaustive"] is not None else {}),
            }
            for s in r["samples"][:2]:
                samples.append(dict(s, rule=name))
        ev = {
            "property_id": self.prop,
            "tier": self.tier,
            "seed": self.seed,
            "level": "other",
            "coverage": {
                "explanation": meta["explanation"],
                "evaluations": tot_ob,
                "distinct_nontrivial": nontriv,
                "rule": "one evaluation = one static obligation (rule instance at a named construct in one "
                        "build configuration); distinct = distinct (rule, construct, role) keys ignoring the "
                        "configuration; non-trivial = the obligation constrains the code (not a vacuous or "
                        "bookkeeping entry)",
                "obligations": tot_ob,
                "discharged": tot_dis,
                "samples": samples[:24] or [{"note": "no obligations"}],
                "checker_cmd": meta["cmd"],
                "trusted_base": meta.get("trusted_base", []),
                "configs_analysed": self.configs,
                "config_failures": sorted(self.config_failures),
                "tree_digest": engine.tree_digest(),
                "rules": rules_out,
                "not_decided": meta.get("not_decided", []),
                "known_findings_matched": known_hits,
                "fixed_entries": fixed,
                "notes": self.notes,
            },
            "assumptions": meta.get("assumptions", []) + self.assumptions,
            "wall_s": round(time.time() - self.t0, 3),
            "violations": violations,
        }
        os.makedirs(EVID, exist_ok=True)
        tmp = os.path.join(EVID, "%s.json.tmp%d" % (self.prop, os.getpid()))
        with open(tmp, "w") as fh:
            json.dump(ev, fh, indent=1, default=str)
        os.replace(tmp, os.path.join(EVID, "%s.json" % self.prop))
        return violations, lines
