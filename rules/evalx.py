"""Exact evaluation of extracted (raw, un-normalised) MIR expressions and decision trees on assignments of their leaves.

Used by rules that decide a small pure function over its whole finite domain (a byte, a pair of nibbles, the classes of
the byte domain under a table, the lane inputs of a kernel): the function's MIR paths are the decision tree, the leaves are
parameters / table items / constants, and every integer operation is reduced to the width of its MIR type.  Nothing of the
crate is executed; the "program" evaluated is the expression tree taken from the compiler's MIR."""
from . import sym
from .norm import n

WIDTHS = {"u8": 8, "u16": 16, "u32": 32, "u64": 64, "usize": 64, "bool": 1}


class Unknown(Exception):
    """the expression contains a construct the evaluator does not model (reported, never guessed)"""


class Panics(Exception):
    """the evaluated path ends in a panic / the operation overflows in a checked context"""


def set_target(F):
    WIDTHS["usize"] = F.usize_bytes * 8


def _width(S, x):
    t = S.type_of(x)
    return WIDTHS.get(t["s"]) if t and t.get("s") in WIDTHS else None


def _ev_impl(S, F, x, asg, tabs=None):
    """asg: {'params': {i: value}, 'subst': {normalised expr: value}, 'calls': {path: fn(*values)}, plus rule-specific keys}"""
    k = x[0]
    sub = asg.get("subst")
    if sub:
        nx = n(x)
        if nx in sub:
            return sub[nx]
    if k == "const":
        return x[1]
    if k == "param":
        ps = asg.get("params") or {}
        if x[1] in ps:
            return ps[x[1]]
        raise Unknown("parameter %s" % x[1])
    if k == "cparam":
        cp = asg.get("cparams") or {}
        if x[1] in cp:
            return cp[x[1]]
        raise Unknown("const parameter %s" % x[1])
    if k == "cpath":
        if len(x) > 2 and isinstance(x[2], int):
            return x[2]
        cv = asg.get("cpath_values") or {}
        if x[1] in cv:
            return cv[x[1]]
        last = x[1].rsplit("::", 1)[-1]
        if last in cv:
            return cv[last]
        raise Unknown(sym.fmt(n(x)))
    if k == "cast":
        v = ev(S, F, x[3], asg, tabs)
        if x[1] == "IntToInt":
            w = WIDTHS.get(x[2])
            if w is None or not isinstance(v, int):
                raise Unknown("cast to %s" % x[2])
            return v & ((1 << w) - 1)
        return v
    if k == "load":
        hook = asg.get("load")
        if hook is not None:
            v = hook(x)
            if v is not None:
                return v
        hook2 = asg.get("load2")
        pl = x[1]
        if hook2 is not None and pl[0] in ("index", "cindex"):
            basev = ev(S, F, pl[1], asg, tabs)
            iv = pl[2] if pl[0] == "cindex" else ev(S, F, pl[2], asg, tabs)
            v = hook2(basev, iv)
            if v is not None:
                return v
        if pl[0] in ("field", "deref", "param", "lv", "local"):
            return ev(S, F, pl, asg, tabs)
        raise Unknown(sym.fmt(n(x)))
    if k == "bytes":
        return ("bytes", x[1])
    if k == "repeat" and asg.get("symbolic"):
        return ("repeat", ev(S, F, x[1], asg, tabs), ev(S, F, x[2], asg, tabs) if isinstance(x[2], tuple) else x[2])
    if k in ("lv", "mutated", "local") and asg.get("symbolic"):
        return ("raw", x)  # the content of a local the evaluation does not track (e.g. a buffer filled by a callee): opaque, never a number
    if k == "table":
        return ("tab", x[1])
    if k == "index" and x[1][0] == "table":
        arr = tabs(x[1][1]) if tabs else None
        i = ev(S, F, x[2], asg, tabs)
        if arr is None or not isinstance(i, int):
            raise Unknown("table %s[%s]" % (x[1][1], i))
        if not (0 <= i < len(arr)):
            raise Panics("index %d out of range of %s" % (i, x[1][1]))
        return arr[i]
    if k == "index" and x[1][0] == "index" and x[1][1][0] == "table":
        # two-dimensional table
        arr = tabs(x[1][1][1]) if tabs else None
        i = ev(S, F, x[1][2], asg, tabs)
        j = ev(S, F, x[2], asg, tabs)
        dims = asg.get("dims", {}).get(x[1][1][1])
        if arr is None or dims is None:
            raise Unknown("2-d table %s" % x[1][1][1])
        if not (0 <= i < dims[0] and 0 <= j < dims[1]):
            raise Panics("index out of range of %s" % x[1][1][1])
        return arr[i * dims[1] + j]
    if k == "bin":
        a, b = ev(S, F, x[2], asg, tabs), ev(S, F, x[3], asg, tabs)
        op = x[1]
        checked = True
        for suf in ("WithOverflow", "Unchecked"):
            if op.endswith(suf):
                op = op[: -len(suf)]
        if op in ("Lt", "Le", "Gt", "Ge") and not (isinstance(a, int) and isinstance(b, int)):
            raise Unknown("ordering of values that are not numbers: %s" % sym.fmt(n(x))[:80])
        if op in ("Eq", "Ne", "Lt", "Le", "Gt", "Ge"):
            return int({"Eq": a == b, "Ne": a != b, "Lt": a < b, "Le": a <= b, "Gt": a > b, "Ge": a >= b}[op])
        if not (isinstance(a, int) and isinstance(b, int)):
            raise Unknown("arithmetic on a value that is not a number: %s" % sym.fmt(n(x))[:80])
        if op in ("BitOr", "BitAnd", "BitXor"):
            return {"BitOr": a | b, "BitAnd": a & b, "BitXor": a ^ b}[op]
        if op in ("Div", "Rem"):
            if b == 0:
                raise Panics("division by zero")
            return a // b if op == "Div" else a % b
        w = _width(S, x)
        if w is None:
            raise Unknown("width of %s" % sym.fmt(n(x))[:80])
        if op == "Shr":
            if b >= w:
                raise Panics("shift amount %d" % b)
            return a >> b
        if op == "Shl":
            if b >= w:
                raise Panics("shift amount %d" % b)
            return (a << b) & ((1 << w) - 1)
        if op in ("Add", "Sub", "Mul"):
            v = {"Add": a + b, "Sub": a - b, "Mul": a * b}[op]
            if not (0 <= v < (1 << w)):
                raise Panics("arithmetic overflow in %s" % sym.fmt(n(x))[:60])
            return v
        raise Unknown("operator %s" % op)
    if k == "ovf":
        # the overflow flag of a checked operation: evaluated by the assert that consumes it
        a, b = ev(S, F, x[2], asg, tabs), ev(S, F, x[3], asg, tabs)
        w = _width(S, ("bin", x[1], x[2], x[3]))
        if w is None:
            raise Unknown("width of overflow check")
        v = {"Add": a + b, "Sub": a - b, "Mul": a * b}.get(x[1])
        if v is None:
            raise Unknown("overflow check of %s" % x[1])
        return int(not (0 <= v < (1 << w)))
    if k == "un":
        v = ev(S, F, x[2], asg, tabs)
        if x[1] == "Not":
            w = _width(S, x[2])
            if w is None:
                raise Unknown("Not on unknown width: %r" % (x[2],))
            return (~v) & ((1 << w) - 1)
        raise Unknown("unary %s" % x[1])
    if k == "call":
        path = x[2] if isinstance(x[1], int) else x[1]
        args = x[3] if isinstance(x[1], int) else x[2]
        if path.endswith(("intrinsics::likely", "intrinsics::unlikely", "hint::likely", "hint::unlikely")) and len(args) == 1:
            return ev(S, F, args[0], asg, tabs)
        from .norm import WIDENING_FROM
        if len(args) == 1 and WIDENING_FROM.match(path):
            return ev(S, F, args[0], asg, tabs)
        for key, fn in (asg.get("lazy_calls") or {}).items():
            if path == key or path.endswith(key):
                return fn(args)  # handler decides from the unevaluated arguments
        for key, fn in (asg.get("xcalls") or {}).items():
            if path == key or path.endswith(key):  # handler also receives the calling body and block (for type arguments)
                return fn(S, x[1] if isinstance(x[1], int) else None, [ev(S, F, a, asg, tabs) for a in args])
        calls = asg.get("calls") or {}
        for key, fn in calls.items():
            if path == key or path.endswith(key):
                return fn(*[ev(S, F, a, asg, tabs) for a in args])
        import re
        m = re.match(r"^core::num::<impl (u8|u16|u32|u64|usize)>::(checked_add|checked_sub|checked_mul)$", path)
        if m and len(args) == 2:
            w = WIDTHS[m.group(1)]
            a, b = ev(S, F, args[0], asg, tabs), ev(S, F, args[1], asg, tabs)
            v = {"checked_add": a + b, "checked_sub": a - b, "checked_mul": a * b}[m.group(2)]
            return ("Some", v) if 0 <= v < (1 << w) else ("None",)
        if path.endswith("::get") and path.startswith(("core::slice::<impl [T]>", "core::array::")) and len(args) == 2:
            base = ev(S, F, args[0], asg, tabs)
            i = ev(S, F, args[1], asg, tabs)
            if isinstance(base, tuple) and base and base[0] == "tab" and isinstance(i, int):
                arr = tabs(base[1]) if tabs else None
                if arr is None:
                    raise Unknown("table %s" % base[1])
                return ("Some", arr[i]) if 0 <= i < len(arr) else ("None",)
            raise Unknown("get on %s" % (base,))
        if path.endswith("FromResidual<core::option::Option<core::convert::Infallible>>>::from_residual"):
            return ("None",)
        if path.endswith("::from_residual") and len(args) == 1:
            v = ev(S, F, args[0], asg, tabs)
            if isinstance(v, tuple) and v and v[0] in ("Err", "None"):
                return v
            raise Unknown("from_residual of %s" % (v,))
        m = re.match(r"^core::num::<impl (u8|u16|u32|u64|usize)>::(wrapping_add|wrapping_sub|wrapping_mul|wrapping_shr|wrapping_shl|rotate_left|min|max|abs_diff)$", path)
        if m and len(args) == 2:
            w = WIDTHS[m.group(1)]
            a, b = ev(S, F, args[0], asg, tabs), ev(S, F, args[1], asg, tabs)
            mask = (1 << w) - 1
            op = m.group(2)
            if op == "wrapping_add":
                return (a + b) & mask
            if op == "wrapping_sub":
                return (a - b) & mask
            if op == "wrapping_mul":
                return (a * b) & mask
            if op == "wrapping_shr":
                return a >> (b % w)
            if op == "wrapping_shl":
                return (a << (b % w)) & mask
            if op == "rotate_left":
                b %= w
                return ((a << b) | (a >> (w - b))) & mask if b else a
            if op == "min":
                return min(a, b)
            if op == "max":
                return max(a, b)
            if op == "abs_diff":
                return abs(a - b)
        # a function of the crate itself: evaluate its body on the argument values (bounded depth)
        cb = F.fn(path)
        if cb is not None and cb.mir is not None and asg.get("_depth", 0) < 4 and not asg.get("no_inline"):
            vals = [ev(S, F, a, asg, tabs) for a in args]
            S2 = sym.Sym(cb)
            # const generic arguments of the call, in order, bind the callee's const parameters
            cps = {}
            if isinstance(x[1], int):
                c_ = S.b.blocks[x[1]]["term"]["callee"]
                cargs = [a for a in ((c_.get("resolved") or c_).get("args") or []) if a.get("k") in ("val", "cparam")]
                cnames = [g["n"] for g in cb.d.get("generics", []) if g.get("k") == "const"]
                for nm_, a_ in zip(cnames[-len(cargs):] if cargs else [], cargs):
                    if a_["k"] == "val":
                        cps[nm_] = a_["v"]
                    elif a_["n"] in (asg.get("cparams") or {}):
                        cps[nm_] = asg["cparams"][a_["n"]]
            sub_asg = dict(asg, params={i + 1: v for i, v in enumerate(vals)}, _depth=asg.get("_depth", 0) + 1, cparams=cps)
            sub_asg.pop("subst", None)
            return run(S2, F, S2.paths(), sub_asg, tabs)
        if asg.get("symbolic"):
            vals = [ev(S, F, a, asg, tabs) for a in args]
            short = path.rsplit("::", 1)[-1]
            if path.endswith("bool>::then_some") and len(vals) == 2 and isinstance(vals[0], int):
                return ("Some", vals[1]) if vals[0] else ("None",)
            if path.endswith("bool>::then") and len(vals) == 2 and isinstance(vals[0], int):
                if not vals[0]:
                    return ("None",)
                f = vals[1]
                if isinstance(f, tuple) and f and f[0] == "closure":
                    cb_ = F.fn(f[1])
                    if cb_ is not None and cb_.mir is not None:
                        S3 = sym.Sym(cb_)
                        sub3 = dict(asg, params={1: f[2]}, _depth=asg.get("_depth", 0) + 1)
                        sub3.pop("subst", None)
                        return ("Some", run(S3, F, S3.paths(), sub3, tabs))
                raise Unknown("bool::then with %r" % (f,))
            # Option / Result combinators on structured values
            if path.startswith(("core::option::Option", "core::result::Result")) and vals and isinstance(vals[0], tuple):
                v0 = vals[0]
                def apply(f, a):
                    if isinstance(f, tuple) and f and f[0] == "closure":
                        cb_ = F.fn(f[1])
                        if cb_ is not None and cb_.mir is not None:
                            S3 = sym.Sym(cb_)
                            sub3 = dict(asg, params={1: f[2], 2: a}, _depth=asg.get("_depth", 0) + 1)
                            sub3.pop("subst", None)
                            return run(S3, F, S3.paths(), sub3, tabs)
                    if isinstance(f, tuple) and f and f[0] == "fn":
                        # a handler for this function, else the function's own body (a local fn item used as a callback)
                        for key_, fn_ in (asg.get("calls") or {}).items():
                            if f[1] == key_ or f[1].endswith(key_):
                                return fn_(a)
                        cb_ = F.fn(f[1])
                        if cb_ is not None and cb_.mir is not None and asg.get("_depth", 0) < 4 and not asg.get("no_inline"):
                            S3 = sym.Sym(cb_)
                            sub3 = dict(asg, params={1: a}, _depth=asg.get("_depth", 0) + 1)
                            sub3.pop("subst", None)
                            return run(S3, F, S3.paths(), sub3, tabs)
                        return ("app", f[1], a)
                    return ("app", f, a)
                def apply0(f):
                    if isinstance(f, tuple) and f and f[0] == "closure":
                        cb_ = F.fn(f[1])
                        if cb_ is not None and cb_.mir is not None:
                            S3 = sym.Sym(cb_)
                            sub3 = dict(asg, params={1: f[2]}, _depth=asg.get("_depth", 0) + 1)
                            sub3.pop("subst", None)
                            return run(S3, F, S3.paths(), sub3, tabs)
                    return ("app", f, ())
                if short == "and_then" and v0[0] in ("Some", "Ok"):
                    return apply(vals[1], v0[1])
                if short == "and_then" and v0[0] in ("None", "Err"):
                    return v0
                if short == "ok_or_else" and v0[0] in ("Some", "None"):
                    return ("Ok", v0[1]) if v0[0] == "Some" else ("Err", apply0(vals[1]))
                if short == "or_else" and v0[0] in ("Some", "Ok"):
                    return v0
                if short == "or_else" and v0[0] == "Err":
                    return apply(vals[1], v0[1])
                if short == "or_else" and v0[0] == "None":
                    return apply0(vals[1])
                if short == "unwrap_or_else" and v0[0] in ("Some", "Ok"):
                    return v0[1]
                if short == "unwrap_or_else" and v0[0] == "Err":
                    return apply(vals[1], v0[1])
                if short == "unwrap_or_else" and v0[0] == "None":
                    return apply0(vals[1])
                if short == "filter" and v0[0] == "None":
                    return v0
                if short == "filter" and v0[0] == "Some":
                    keep = apply(vals[1], v0[1])
                    if isinstance(keep, int):
                        return v0 if keep else ("None",)
                if short == "ok_or" and v0[0] in ("Some", "None"):
                    return ("Ok", v0[1]) if v0[0] == "Some" else ("Err", vals[1])
                if short == "ok" and v0[0] in ("Ok", "Err"):
                    return ("Some", v0[1]) if v0[0] == "Ok" else ("None",)
                if short == "map" and v0[0] in ("Ok", "Some"):
                    return (v0[0], apply(vals[1], v0[1]))
                if short == "map" and v0[0] in ("Err", "None"):
                    return v0
                if short == "map_err" and v0[0] == "Err":
                    return ("Err", apply(vals[1], v0[1]))
                if short == "map_err" and v0[0] == "Ok":
                    return v0
                if short == "unwrap_or" and v0[0] in ("Ok", "Some"):
                    return v0[1]
                if short == "unwrap_or" and v0[0] in ("Err", "None"):
                    return vals[1]
                if short in ("unwrap", "expect") and v0[0] in ("Ok", "Some"):
                    return v0[1]
                if short in ("unwrap", "expect") and v0[0] in ("Err", "None"):
                    raise Panics("%s on %s" % (short, v0[0]))
                if short == "is_some":
                    return int(v0[0] == "Some")
                if short == "is_none":
                    return int(v0[0] == "None")
                if short == "is_ok":
                    return int(v0[0] == "Ok")
                if short == "is_err":
                    return int(v0[0] == "Err")
            if path.endswith("Try>::branch") and vals and isinstance(vals[0], tuple) and vals[0][0] in ("Ok", "Err", "Some", "None"):
                v0 = vals[0]
                return ("adt", "core::ops::ControlFlow::Continue", v0[1]) if v0[0] in ("Ok", "Some") else ("adt", "core::ops::ControlFlow::Break", v0 if v0[0] == "Err" else ("None",))
            return ("app", path, tuple(vals)) if len(vals) != 1 else ("app", path, vals[0])
        raise Unknown("call %s" % path)
    if k == "agg":
        if x[1].endswith("Option::Some"):
            return ("Some", ev(S, F, x[2][0], asg, tabs))
        if x[1].endswith("Option::None"):
            return ("None",)
        if x[1].endswith("Result::Ok"):
            return ("Ok", ev(S, F, x[2][0], asg, tabs))
        if x[1].endswith("Result::Err"):
            return ("Err", ev(S, F, x[2][0], asg, tabs))
        if x[1] == "tuple":
            return tuple(ev(S, F, y, asg, tabs) for y in x[2])
        if x[1] in ("array", "adt:array") and asg.get("symbolic"):
            return ("array",) + tuple(ev(S, F, y, asg, tabs) for y in x[2])
        if x[1].startswith("closure:"):
            return ("closure", x[1][len("closure:"):], tuple(ev(S, F, y, asg, tabs) for y in x[2]))
        if asg.get("symbolic") and x[1].startswith("adt:"):
            return ("adt", x[1][4:]) + tuple(ev(S, F, y, asg, tabs) for y in x[2])
        raise Unknown("aggregate %s" % x[1])
    if k == "discr":
        v = ev(S, F, x[1], asg, tabs)
        if isinstance(v, tuple) and v and v[0] in ("None", "Some", "Ok", "Err"):
            return {"None": 0, "Some": 1, "Ok": 0, "Err": 1}[v[0]]
        if isinstance(v, tuple) and v and v[0] == "adt" and v[1].startswith("core::ops::ControlFlow::"):
            return 0 if v[1].endswith("Continue") else 1
        if isinstance(v, tuple) and v and v[0] == "adt":
            info = S.enums.get(x) if hasattr(S, "enums") else None
            if info:
                for val, nm in info[1].items():
                    if v[1].endswith("::" + nm):
                        return val
        raise Unknown("discriminant of %s" % (v,))
    if k == "variant":
        # payload access is through field(variant(x, name), i)
        v = ev(S, F, x[1], asg, tabs)
        return v
    if k == "fn":
        return ("fn", x[1])
    if k == "field" and isinstance(x[2], int):
        v = ev(S, F, x[1], asg, tabs)
        if isinstance(v, tuple) and v[:1] == ("raw",):
            return ("raw", x)  # a part of an untracked local
        if isinstance(v, tuple) and v and v[0] in ("obj", "fld"):
            fv = ("fld", v, x[2])
            known = asg.get("fields") or {}
            return known[fv] if fv in known else fv
        if x[1][0] == "variant" and isinstance(v, tuple) and v and v[0] == "adt" and v[1].startswith("core::ops::ControlFlow::") and x[2] == 0:
            if not v[1].endswith("::" + x[1][2]):
                raise Unknown("payload of %s read as %s" % (v[1], x[1][2]))
            return v[2]
        if x[1][0] == "variant" and isinstance(v, tuple) and v and v[0] in ("Some", "Ok", "Err") and x[2] == 0:
            if v[0] != x[1][2]:
                raise Unknown("payload of %s read as %s" % (v[0], x[1][2]))
            return v[1]
        if isinstance(v, tuple) and v and v[0] == "adt":
            return v[2 + x[2]]
        if isinstance(v, tuple) and x[2] < len(v):
            return v[x[2]]
        raise Unknown("field of %s" % sym.fmt(n(x[1]))[:60])
    if k in ("ref", "val", "deref", "rawptr"):
        return ev(S, F, x[-1], asg, tabs)
    if k == "len":
        lz = (asg.get("lazy_calls") or {}).get("core::slice::<impl [T]>::len")
        if lz is not None:
            return lz((x[1],))
        hook = (asg.get("calls") or {}).get("core::slice::<impl [T]>::len")
        if hook is not None:
            return hook(ev(S, F, x[1], asg, tabs))
    raise Unknown(sym.fmt(n(x))[:80])


def ev(S, F, x, asg, tabs=None):
    """Evaluate x under asg.  Anything the evaluator was not built for (an unexpected value shape inside a handler, an index
    out of a tuple, ...) is reported as Unknown -- the rules treat that as 'cannot evaluate', never as a result."""
    try:
        return _ev_impl(S, F, x, asg, tabs)
    except (Unknown, Panics):
        raise
    except RecursionError:
        raise
    except (TypeError, IndexError, KeyError, ValueError, AttributeError, ZeroDivisionError) as ex:
        raise Unknown("not evaluable here (%s: %s)" % (type(ex).__name__, str(ex)[:80]))


def select(S, F, paths, asg, tabs=None):
    """the unique enumerated path whose conditions all hold under asg (Panics if it diverges)"""
    return run(S, F, paths, asg, tabs, want_path=True)


def run(S, F, paths, asg, tabs=None, want_path=False):
    """Value returned by the function whose enumerated paths are `paths` under assignment asg: the unique path whose
    conditions all hold is selected; a feasible diverging path raises Panics."""
    hits = []
    memo = {}  # forked paths share the condition objects of their common prefix
    for p in paths:
        if p.end not in ("return", "diverge", "unreachable"):
            continue
        ok = True
        for (_, d, taken, vals) in p.conds:
            k_ = id(d)
            if k_ in memo:
                v = memo[k_]
            else:
                v = memo[k_] = ev(S, F, d, asg, tabs)
            if not isinstance(v, int):
                raise Unknown("branch on a value that is not known: %s" % sym.fmt(n(d))[:80])
            ok = (v not in vals) if taken == "otherwise" else (v == taken)
            if not ok:
                break
        if ok:
            # overflow / bounds assertions on the way
            for (abb, kind, cond, expected, msg) in getattr(p, "asserts", []) or []:
                v = ev(S, F, cond, asg, tabs)
                if bool(v) != bool(expected):
                    raise Panics("%s assertion fails" % kind)
            hits.append(p)
    if len(hits) != 1:
        raise Unknown("%d paths feasible" % len(hits))
    p = hits[0]
    if p.end != "return":
        raise Panics("path ends in %s" % p.end)
    if want_path:
        return p
    return ev(S, F, p.ret, asg, tabs)
