"""Whole-crate call graph over resolved callees (conservative for trait dispatch,
closures, function items used as values and callbacks from external generic code)."""
from . import engine

CALLBACK_TRAITS = (
    "core::str::FromStr", "core::convert::From", "core::convert::TryFrom", "core::fmt::Display", "core::fmt::Debug",
    "core::default::Default", "core::clone::Clone", "core::cmp::PartialEq", "core::convert::AsRef",
)


class CallGraph:
    def __init__(self, F):
        self.F = F
        self.local = F.d.get("crate", "tlsh")
        self.nodes = {}
        for b in F.bodies:
            if b.mir is None:
                continue
            # several bodies can share a path (macro-generated `_` consts); keep functions unique by path+kind
            self.nodes.setdefault(b.path, b)
        self.impl_methods = {}  # trait item path -> [impl method body paths]
        self.methods_of_adt = {}  # adt path -> [(trait, body path)]
        for im in F.impls:
            tr = im.get("trait")
            st = F.ty(im["self_ty"])
            for it in im["items"]:
                if it["kind"] != "fn":
                    continue
                if it.get("trait_item"):
                    self.impl_methods.setdefault(it["trait_item"], []).append(it["path"])
                if st and st.get("k") == "adt" and tr:
                    self.methods_of_adt.setdefault(st["path"], []).append((tr, it["path"]))
        # local ADTs implementing a given local trait; assoc type values of local traits
        self.adts_of_trait = {}
        self.alias_values = {}
        for im in F.impls:
            tr = im.get("trait")
            st = F.ty(im["self_ty"])
            if tr and st and st.get("k") == "adt":
                self.adts_of_trait.setdefault(tr, set()).add(st["path"])
            for it in im["items"]:
                if it["kind"] == "type" and it.get("trait_item") and "ty" in it:
                    t = F.ty(it["ty"])
                    if t and t.get("k") == "adt":
                        self.alias_values.setdefault(it["trait_item"], set()).add(t["path"])
        self.edges = {}  # path -> set(local callee paths): resolved calls, local trait dispatch, closures, fn items
        self.cb_edges = {}  # speculative callbacks from external generic code into local trait impls
        self.ext = {}  # path -> set((ext path, krate))
        self.unknown = {}  # path -> set(description) for indirect / foreign-trait-on-param calls
        for p, b in self.nodes.items():
            self._scan(b)

    def _add(self, src, dst, speculative=False):
        if dst in self.nodes:
            if speculative:
                self.cb_edges.setdefault(src, set()).add(dst)
            else:
                self.edges.setdefault(src, set()).add(dst)
            return True
        return False

    def _scan(self, b):
        F = self.F
        src = b.path
        self.edges.setdefault(src, set())
        self.ext.setdefault(src, set())
        self.unknown.setdefault(src, set())
        mono = {}
        for m in b.d.get("mono") or []:
            for c in m["calls"]:
                mono.setdefault(c["bb"], []).append(c["resolved"])
        bodies = [b.blocks] + [pb["blocks"] for pb in (b.d.get("promoted") or [])]
        for bi, blocks in enumerate(bodies):
            for i, blk in enumerate(blocks):
                # function items / closures used as values
                for s in blk["stmts"]:
                    self._scan_values(src, s)
                t = blk["term"]
                if t["t"] != "call":
                    continue
                for a in t["args"]:
                    self._scan_operand(src, a)
                c = t["callee"]
                if "indirect" in c:
                    self.unknown[src].add("indirect call through %s" % F.tys(c.get("fty")))
                    continue
                res = c.get("resolved")
                targets = []
                if res:
                    targets.append(res)
                if bi == 0:
                    targets += mono.get(i, [])
                if not targets:
                    # unresolved: trait method
                    tr_item = c["path"]
                    impls = self.impl_methods.get(tr_item, [])
                    if c.get("trait_krate") == self.local or impls:
                        for m in impls:
                            self._add(src, m)
                        self._add(src, tr_item)  # default body, if any
                    else:
                        self.unknown[src].add("foreign trait method %s on %s" % (c["path"], F.tys(c.get("self_ty"))))
                        self.ext[src].add((c["path"], c.get("krate")))
                    continue
                for r in targets:
                    if r["krate"] == self.local:
                        if not self._add(src, r["path"]):
                            self.unknown[src].add("local callee without body %s" % r["path"])
                    else:
                        self.ext[src].add((r["path"], r["krate"]))
                        self._callbacks(src, r, b)
                    if r.get("kind") == "virtual":
                        self.unknown[src].add("virtual call %s" % r["path"])

    def _callbacks(self, src, res, body=None):
        """External generic code instantiated with local types may call their trait impls."""
        F = self.F
        self._cur_bounds = {}
        if body is not None:
            for g in body.d.get("generics", []):
                if g.get("k") == "ty":
                    self._cur_bounds[g["n"]] = g.get("bounds", [])
        for a in res.get("args", []):
            if a.get("k") != "ty":
                continue
            t = F.ty(a["ty"])
            self._type_callbacks(src, t, 0)

    def _candidates(self, t):
        """Local ADT paths a type parameter / projection may stand for (None = any)."""
        if t.get("k") == "param":
            bounds = [b for b in getattr(self, "_cur_bounds", {}).get(t["n"], [])
                      if not (b.startswith("core::marker::") and b != "core::marker::Copy")]
            if not bounds:
                return None
            sets = [self.adts_of_trait.get(b, set()) for b in bounds]
            return set.intersection(*sets)
        if t.get("k") == "alias":
            vals = self.alias_values.get(t["path"])
            if vals is not None:
                return vals
            # associated type of a trait without local impls: it can only stand for a local ADT that
            # implements every declared bound of the associated type (`type Error: de::Error`)
            bounds = [b for b in (t.get("bounds") or []) if not (b.startswith("core::marker::") and b != "core::marker::Copy")]
            if not bounds:
                return None
            sets = [self.adts_of_trait.get(b, set()) for b in bounds]
            return set.intersection(*sets)
        return None

    def _type_callbacks(self, src, t, depth):
        F = self.F
        if t is None or depth > 4:
            return
        k = t.get("k")
        if k == "adt":
            if t.get("krate") == self.local:
                for tr, m in self.methods_of_adt.get(t["path"], []):
                    if tr in CALLBACK_TRAITS:
                        self._add(src, m, speculative=True)
            for a in t.get("args", []):
                if a.get("k") == "ty":
                    self._type_callbacks(src, F.ty(a["ty"]), depth + 1)
        elif k in ("param", "alias"):
            cands = self._candidates(t)
            for adt, ms in self.methods_of_adt.items():
                if cands is not None and adt not in cands:
                    continue
                for tr, m in ms:
                    if tr in CALLBACK_TRAITS:
                        self._add(src, m, speculative=True)
        elif k in ("ref", "ptr"):
            self._type_callbacks(src, F.ty(t["to"]), depth + 1)
        elif k in ("array", "slice"):
            self._type_callbacks(src, F.ty(t["elem"]), depth + 1)
        elif k == "tuple":
            for e in t.get("elems", []):
                self._type_callbacks(src, F.ty(e), depth + 1)
        elif k == "closure":
            self._add(src, t["path"])
        elif k == "fndef":
            if t.get("krate") == self.local:
                self._add(src, t["path"])

    def _scan_operand(self, src, op):
        c = op.get("const") if isinstance(op, dict) else None
        if not c:
            return
        if c.get("k") == "fn":
            if c.get("krate") == self.local:
                self._add(src, c["path"])
            else:
                self.ext[src].add((c["path"], c.get("krate")))
        elif c.get("k") == "fn_ptr":
            self._add(src, c["path"])
        elif c.get("k") == "zst":
            t = self.F.ty(c.get("ty"))
            self._cur_bounds = {}
            self._type_callbacks(src, t, 0)

    def _scan_values(self, src, s):
        rv = s.get("rv")
        if rv == "agg":
            if s.get("agg") == "closure":
                self._add(src, s["path"])
            for o in s.get("ops", []):
                self._scan_operand(src, o)
        elif rv in ("use", "cast", "repeat", "un"):
            for k in ("op", "a"):
                if k in s and isinstance(s[k], dict):
                    self._scan_operand(src, s[k])
        elif rv == "bin":
            self._scan_operand(src, s["a"])
            self._scan_operand(src, s["b"])

    # ------------------------------------------------------------------
    def all_edges(self, x):
        return set(self.edges.get(x, ())) | set(self.cb_edges.get(x, ()))

    def reach(self, roots, speculative=False, runtime_only=False):
        """{node: predecessor} for all nodes reachable from roots (BFS).  With runtime_only the initialisers of
        constants and statics are not entered: they are evaluated by the compiler (a panic there is a build error,
        not a run-time event), so what they call is not reachable at run time through them."""
        prev = {}
        q = []
        for r in roots:
            if r in self.nodes and r not in prev:
                prev[r] = None
                q.append(r)
        while q:
            x = q.pop(0)
            if runtime_only and x in self.nodes and str(self.nodes[x].kind).startswith(("Const", "Static", "AnonConst", "AssocConst", "InlineConst")):
                continue
            for y in sorted(self.all_edges(x) if speculative else self.edges.get(x, ())):
                if y not in prev:
                    prev[y] = x
                    q.append(y)
        return prev

    def chain(self, prev, node):
        out = [node]
        while prev.get(out[-1]) is not None:
            out.append(prev[out[-1]])
        return list(reversed(out))
