"""C06 -- binary form round-trips; binary, hex and accessors describe the same parts."""
from .. import sym
from ..norm import n, P, C, V, ANY, match, find_all, binop
from . import layout, common, cmpmodel, c04, c08, hexcodec

ID = "C06"
CONFIGS = {"quick": ["K0", "K1", "K6", "K9"], "thorough": ["K0", "K1", "K2", "K3", "K5", "K6", "K9", "K13"]}
META = {
    "explanation": (
        "Static slice-window analysis (MIR paths + constant folding for the five variants).  Decided: store_into_bytes "
        "writes checksum at [0,CK), the length code at [CK], the Q-ratio byte at [CK+1] and the body at [CK+2,SIZE); "
        "TryFrom<&[u8;N]> reads exactly those windows into the same-typed fields; the windows tile [0,SIZE); "
        "TryFrom<&[u8]> returns the length error iff len != SIZE and otherwise forwards; in the lenient configurations "
        "the array conversion has no error exit.  Part accessors return the same-typed fields, the Q-ratio bit layout "
        "(Q1 bits 0-3, Q2 bits 4-7) is read from the generated constants, the hex writer uses the same field order "
        "(C04) so the text is these bytes with header nibbles swapped, per-bucket quartile lookup indexes byte "
        "len-1-i/4 shifted by 2*(i%4) (first bucket in the low bits of the last byte), and clear_checksum zeroes the "
        "whole checksum array and nothing else."
        "  The serializers and parsers themselves are decided by abstract evaluation (wmodel / rmodel, DESIGN 9.5) with the idiom-based window rules as fallback."
    ),
    "trusted_base": ["rustc nightly front end and constant evaluator", "bitfield-struct generated accessors (constants checked)"],
    "assumptions": [],
    "not_decided": [],
}
TECHNIQUE = 'abstract evaluation of the binary/text serializers and parsers (field windows per variant), exhaustive evaluation of the quartile accessor and bit-field layout, whole-array rules'


def ref_bin_layout(env):
    ck = env["SIZE_CKSUM"]
    return {"checksum": (0, ck), "lvalue": (ck, ck + 1), "qratios": (ck + 1, ck + 2), "body": (ck + 2, env["SIZE_IN_BYTES"])}


def run(ctx, FS):
    for key, F in FS.items():
        envs = layout.variant_envs(F)
        r = "R-06.1"
        ctx.rule(r, "binary writer/reader use the same constant windows (checksum, length, Q ratios, body); slice conversion gates on len == SIZE")
        if envs is None:
            ctx.missing(r, "variant constants", cfg=key)
            continue
        binary_layout(ctx, r, F, envs)
        r = "R-06.2"
        ctx.rule(r, "part accessors return the same-typed fields; Q-ratio bit layout Q1 = bits 0-3, Q2 = bits 4-7; new(q1,q2) feeds with_q1ratio/with_q2ratio")
        accessors(ctx, r, F)
        r = "R-06.3"
        ctx.rule(r, "hex writer/reader use the same field order as the binary form (reversed codec on header bytes)")
        c04.text_layout(ctx, r, F)
        # the per-byte codecs behind the hex form: header bytes nibble-reversed, body bytes plain, in every table configuration
        hexcodec.encoders(ctx, r, F)
        hexcodec.decoders(ctx, r, F)
        r = "R-06.4"
        ctx.rule(r, "quartile(i) = (data[len-1-i/4] >> 2*(i%4)) & 3 with the documented index assertion i < NUM_BUCKETS", "N")
        quartile(ctx, r, F)
        r = "R-06.5"
        ctx.rule(r, "clear_checksum zeroes the entire checksum array and touches nothing else")
        c08.clear_checksum(ctx, r, F)
        r = "R-06.6"
        ctx.rule(r, "equality and copying of hashes are structural: PartialEq/Eq/Clone of the hash types and of their four parts are the compiler's derives "
                    "(field-wise over integers and integer arrays), so `==` holds exactly when all parts are equal")
        structural(ctx, r, F)


STRUCTURAL = ["hash::inner::FuzzyHash<", "hash::FuzzyHash<", "hash::body::FuzzyHashBodyData<", "hash::checksum::FuzzyHashChecksumData<",
              "hash::qratios::FuzzyHashQRatios", "hash::qratios::InnerQRatios", "length::FuzzyHashLengthEncoding"]


def structural(ctx, r, F):
    for prefix in STRUCTURAL:
        for tr in ("core::cmp::PartialEq", "core::clone::Clone"):
            ims = [im for im in F.impls if im.get("trait") == tr and F.tys(im["self_ty"]).startswith(prefix)]
            ctx.instance(r)
            # InnerQRatios is produced by the bitfield macro: its Clone is the macro's `derive`, still the built-in one
            ctx.ob(r, (prefix.rstrip("<"), tr.rsplit("::", 1)[-1] + "-derived"), len(ims) == 1 and bool(ims[0].get("derived")) and bool(ims[0].get("builtin_derived")),
                   "%s for %s is not the built-in derive (impls: %s)" % (tr, prefix, [(im.get("derived"), im.get("builtin_derived")) for im in ims]), cfg=F.key)
    # the four parts are the only fields of the inner hash
    hf = common.hash_fields(F)
    ctx.ob(r, ("hash::inner::FuzzyHash", "four-fields"), bool(hf) and sorted(hf) == ["body", "checksum", "lvalue", "qratios"], "fields of the inner hash: %s" % (sorted(hf) if hf else hf), cfg=F.key)


def binary_layout(ctx, r, F, envs):
    W, err = layout.binary_writer(F)
    ctx.instance(r)
    if W is None or W["ok"] is None:
        ctx.missing(r, err or "store_into_bytes Ok path", cfg=F.key)
    else:
        bad = []
        for name, env in envs:
            ref = ref_bin_layout(env)
            seen = {}
            for (s, e, kind, src, ln) in W["ok"]["writes"]:
                seen[src] = (layout.ceval(s, env), layout.ceval(e, env) if e is not None else None)
            for fld, w in ref.items():
                if seen.get(fld) != w:
                    bad.append("%s: %s written at %s; reference %s" % (name, fld, seen.get(fld), w))
        ctx.ob(r, ("store_into_bytes", "field-windows"), not bad, "; ".join(bad[:3]), cfg=F.key, where=W["body"].where())
    arr, slc = layout.binary_reader(F)
    ctx.instance(r, 2)
    hf = common.hash_fields(F)
    strict = "strict-parser" in F.features
    if arr is None or slc is None or not hf:
        ctx.missing(r, "TryFrom<&[u8; N]> / TryFrom<&[u8]> for inner FuzzyHash", cfg=F.key)
        return
    RB = layout.binary_reader_evaluated(F)
    if RB is not None:
        # decided by abstract evaluation of the array parser (rmodel): each field of the Ok value is built from its reference bytes
        bad = list(RB["bad"])
    else:
        S = sym.Sym(arr)
        rets = [p for p in S.paths() if p.end == "return"]
        oks = [p for p in rets if n(p.ret)[1].endswith("Result::Ok")]
        errs = [p for p in rets if n(p.ret)[1].endswith("Result::Err")]
        bad = []
        if len(oks) != 1:
            bad.append("%d Ok paths" % len(oks))
        else:
            okv = n(oks[0].ret)[2][0]
            CK = ("cparam", "SIZE_CKSUM")
            want = {
                "checksum": ("call", "hash::checksum::FuzzyHashChecksumData::<SIZE_CKSUM, SIZE_BUCKETS>::from_raw", (V("ck"),)),
                "lvalue": ("call", "length::FuzzyHashLengthEncoding::from_raw", (("load", ("index", ("deref", V("lview")), V("li"))),)),
                "qratios": ("call", "hash::qratios::FuzzyHashQRatios::from_raw", (("load", ("index", ("deref", V("qview")), V("qi"))),)),
                "body": ("call", "hash::body::FuzzyHashBodyData::<SIZE_BODY>::from_raw", (V("bd"),)),
            }
            if okv[0] != "agg" or len(okv[2]) != 4:
                bad.append("Ok value %s" % sym.fmt(okv)[:80])
            else:
                b = {}
                for fld, fi in hf.items():
                    if match(want[fld], okv[2][fi], b) is None:
                        bad.append("field %s built from %s" % (fld, sym.fmt(okv[2][fi])[:100]))
                if not bad:
                    def arr_window(e):
                        # the sub-slice of the input an array is converted from: x[a..b], x.split_at(k).0 / .1, ...
                        xs = find_all(e, lambda x: (x[0] == "call" and x[1].endswith("::index")) or
                                      (x[0] == "field" and x[1][0] == "call" and x[1][1].endswith(("::split_at", "::split_at_mut"))))
                        ws = [layout.window(x, P(1)) for x in xs]
                        ws = [w for w in ws if w is not None]
                        # the innermost (most specific) view is the one actually converted
                        return ws[0] if ws else None
                    wck, wbd = arr_window(b["ck"]), arr_window(b["bd"])
                    # element reads through a view of the input: absolute offset = view start + index
                    for key_, vk in (("li", "lview"), ("qi", "qview")):
                        if b[vk] != P(1):
                            wv = layout.window(b[vk], P(1))
                            if wv is None:
                                bad.append("byte read through %s" % sym.fmt(b[vk])[:60])
                            else:
                                b[key_] = layout.add(wv[0], b[key_])
                    for name, env in envs:
                        ref = ref_bin_layout(env)
                        got = {
                            "checksum": (layout.ceval(wck[0], env), layout.ceval(wck[1], env)) if wck else None,
                            "lvalue": (layout.ceval(b["li"], env), layout.ceval(b["li"], env) + 1) if layout.ceval(b["li"], env) is not None else None,
                            "qratios": (layout.ceval(b["qi"], env), layout.ceval(b["qi"], env) + 1) if layout.ceval(b["qi"], env) is not None else None,
                            "body": (layout.ceval(wbd[0], env), layout.ceval(wbd[1], env) if wbd[1] is not None else env["SIZE_IN_BYTES"]) if wbd else None,
                        }
                        for fld in ref:
                            if got[fld] != ref[fld]:
                                bad.append("%s: %s read from %s; reference %s" % (name, fld, got[fld], ref[fld]))
        if not strict and errs:
            bad.append("the lenient array conversion has error exits: %s" % [sym.fmt(n(p.ret)) for p in errs][:2])
    ctx.ob(r, ("TryFrom<&[u8; N]>", "field-windows"), not bad, "; ".join(bad[:3]), cfg=F.key, where=arr.where())
    # slice conversion
    # slice conversion, decided by abstract evaluation (any spelling: length test + try_into().unwrap(), or match on the
    # fallible conversion to &[u8; N]): Err(InvalidStringLength) for lengths N-1, N+1, 0; the array parser's result unchanged for N
    from . import c16
    why = c16._visitor_semantics(F, slc, "slice")
    ctx.ob(r, ("TryFrom<&[u8]>", "length-gate"), why is None,
           "slice conversion: %s; reference len != SIZE_IN_BYTES -> Err(InvalidStringLength), else try_from(array) unchanged" % why,
           cfg=F.key, where=slc.where())
    # forwards to the array impl of the same type
    for ob in F.method("try_from", "hash::FuzzyHash<"):
        why = common.wrapper_forwards(F, ob, "core::convert::TryFrom::try_from", 1)
        ctx.instance(r)
        ctx.ob(r, ("hash::FuzzyHash::try_from", "forwards"), why is None, "outer try_from: %s" % why, cfg=F.key, where=ob.where())


def accessors(ctx, r, F):
    hf = common.hash_fields(F)
    for nm, fld in (("checksum", "checksum"), ("length", "lvalue"), ("qratios", "qratios"), ("body", "body")):
        bs = F.method(nm, "hash::inner::FuzzyHash<", trait="hash::public::FuzzyHashType")
        ctx.instance(r)
        if len(bs) != 1 or not hf:
            ctx.missing(r, "accessor %s" % nm, cfg=F.key)
            continue
        ps = cmpmodel.ret_paths(bs[0])
        e = n(ps[0].ret) if len(ps) == 1 else None
        ctx.ob(r, ("FuzzyHash::" + nm, "field"), e == ("ref", ("field", ("deref", P(1)), hf[fld])), "%s() returns %s" % (nm, sym.fmt(e) if e else e), cfg=F.key, where=bs[0].where())
        for ob in F.method(nm, "hash::FuzzyHash<", trait="hash::public::FuzzyHashType"):
            ps = cmpmodel.ret_paths(ob)
            e = n(ps[0].ret) if len(ps) == 1 else None
            ctx.ob(r, ("hash::FuzzyHash::" + nm, "forwards"), e == ("call", "hash::public::FuzzyHashType::" + nm, (("ref", ("field", ("deref", P(1)), 0)),)),
                   "outer %s() is %s" % (nm, sym.fmt(e) if e else e), cfg=F.key, where=ob.where(), trivial=True)
    simple = {
        "length::FuzzyHashLengthEncoding::value": ("load", ("field", ("deref", P(1)), 0)),
        "length::FuzzyHashLengthEncoding::from_raw": ("agg", "adt:length::FuzzyHashLengthEncoding::FuzzyHashLengthEncoding", (P(1),)),
        "hash::qratios::FuzzyHashQRatios::value": ("call", "hash::qratios::InnerQRatios::into_bits", (("load", ("field", ("deref", P(1)), 0)),)),
        "hash::qratios::FuzzyHashQRatios::from_raw": ("agg", "adt:hash::qratios::FuzzyHashQRatios::FuzzyHashQRatios", (("call", "<hash::qratios::InnerQRatios as core::convert::From<u8>>::from", (P(1),)),)),
        "hash::qratios::FuzzyHashQRatios::q1ratio": ("call", "hash::qratios::InnerQRatios::q1ratio", (("ref", ("field", ("deref", P(1)), 0)),)),
        "hash::qratios::FuzzyHashQRatios::q2ratio": ("call", "hash::qratios::InnerQRatios::q2ratio", (("ref", ("field", ("deref", P(1)), 0)),)),
        "hash::qratios::FuzzyHashQRatios::new": ("agg", "adt:hash::qratios::FuzzyHashQRatios::FuzzyHashQRatios",
                                                 (("call", "hash::qratios::InnerQRatios::with_q2ratio", (("call", "hash::qratios::InnerQRatios::with_q1ratio", (("call", "hash::qratios::InnerQRatios::new", ()), P(1))), P(2))),)),
        "hash::body::FuzzyHashBodyData::<SIZE_BODY>::data": ("ref", ("field", ("deref", P(1)), 0)),
        "hash::body::FuzzyHashBodyData::<SIZE_BODY>::from_raw": ("agg", "adt:hash::body::FuzzyHashBodyData::FuzzyHashBodyData", (P(1),)),
        "hash::checksum::FuzzyHashChecksumData::<SIZE_CKSUM, SIZE_BUCKETS>::data": ("ref", ("field", ("deref", P(1)), 0)),
        "hash::checksum::FuzzyHashChecksumData::<SIZE_CKSUM, SIZE_BUCKETS>::from_raw": ("agg", "adt:hash::checksum::FuzzyHashChecksumData::FuzzyHashChecksumData", (("load", ("deref", P(1))),)),
    }
    alt = {"hash::qratios::FuzzyHashQRatios::new": ("agg", "adt:hash::qratios::FuzzyHashQRatios::FuzzyHashQRatios",
           (("call", "hash::qratios::InnerQRatios::with_q1ratio", (("call", "hash::qratios::InnerQRatios::with_q2ratio", (("call", "hash::qratios::InnerQRatios::new", ()), P(2))), P(1))),))}
    qsem = []  # computed on demand: None = the Q-ratio accessors hold by value on their whole domain

    def qratios_by_value():
        if not qsem:
            qsem.append(_qratios_semantics(F))
        return qsem[0]

    for path, want in simple.items():
        b = F.fn(path)
        ctx.instance(r)
        if b is None:
            ctx.missing(r, path, cfg=F.key)
            continue
        ps = cmpmodel.ret_paths(b)
        e = n(ps[0].ret) if len(ps) == 1 else None
        if e != want and e != alt.get(path) and "FuzzyHashQRatios::" in path:
            why_q = qratios_by_value()
            ctx.ob(r, (path.split("::<")[0].rsplit("::", 2)[-2] + "::" + path.rsplit("::", 1)[-1], "shape"), why_q is None,
                   "Q-ratio accessors by value: %s" % why_q, cfg=F.key, where=b.where(), detail={"engine": "evaluation"})
            continue
        ctx.ob(r, (path.split("::<")[0].rsplit("::", 2)[-2] + "::" + path.rsplit("::", 1)[-1], "shape"), e == want or e == alt.get(path),
               "%s is %s; reference %s" % (path, sym.fmt(e) if e else e, sym.fmt(want)), cfg=F.key, where=b.where())
    q = F.impl_consts("hash::qratios::InnerQRatios").get("hash::qratios::InnerQRatios", {})
    ctx.ob(r, ("InnerQRatios", "bit-layout"), (q.get("Q1RATIO_OFFSET"), q.get("Q1RATIO_BITS"), q.get("Q2RATIO_OFFSET"), q.get("Q2RATIO_BITS")) == (0, 4, 4, 4),
           "Q-ratio bitfield constants %s; reference Q1 offset 0 bits 4, Q2 offset 4 bits 4" % q, cfg=F.key)
    # generated getters agree with the constants: q1 = bits & 15, q2 = (bits >> 4) & 15
    for nm, off in (("q1ratio", 0), ("q2ratio", 4)):
        b = F.fn("hash::qratios::InnerQRatios::" + nm)
        if b is None:
            ctx.missing(r, "InnerQRatios::" + nm, cfg=F.key)
            continue
        ps = cmpmodel.ret_paths(b)
        e = n(ps[0].ret) if len(ps) == 1 else None
        bits = ("load", ("field", ("deref", P(1)), 0))
        mask = ("bin", "Shr", C(255), ("bin", "Sub", C(8), C(4)))
        want = binop("BitAnd", mask, ("bin", "Shr", bits, C(off)))
        ctx.ob(r, ("InnerQRatios::" + nm, "getter"), e == want, "generated getter %s is %s; reference (bits >> %d) & 0x0f" % (nm, sym.fmt(e) if e else e, off), cfg=F.key, trivial=True)


def _qratios_semantics(F):
    """None if, for every raw byte v and every pair (a, b) of 4-bit values: value(from_raw(v)) == v, q1ratio(from_raw(v)) == v & 15,
    q2ratio(from_raw(v)) == v >> 4 and value(new(a, b)) == a | b << 4 -- by exact evaluation of the accessors (and the generated
    bit-field functions they call); else a description."""
    from .. import evalx
    evalx.set_target(F)
    Q = "hash::qratios::FuzzyHashQRatios::"
    fns = {nm: F.fn(Q + nm) for nm in ("from_raw", "value", "q1ratio", "q2ratio", "new")}
    if any(v is None for v in fns.values()):
        return "accessor missing"
    syms = {nm: sym.Sym(b) for nm, b in fns.items()}

    def call(nm, *args):
        S_ = syms[nm]
        return evalx.run(S_, F, S_.paths(), {"symbolic": True, "params": {i + 1: a for i, a in enumerate(args)}})
    try:
        for v in range(256):
            h = call("from_raw", v)
            got = (call("value", h), call("q1ratio", h), call("q2ratio", h))
            if got != (v, v & 15, v >> 4):
                return "from_raw(0x%02x): (value, q1ratio, q2ratio) = %r; reference %r" % (v, got, (v, v & 15, v >> 4))
        for a in range(16):
            for b_ in range(16):
                got = call("value", call("new", a, b_))
                if got != (a | (b_ << 4)):
                    return "new(%d, %d).value() = %r; reference %d" % (a, b_, got, a | (b_ << 4))
    except evalx.Panics as ex:
        return "panics (%s)" % ex
    except evalx.Unknown as ex:
        return "cannot evaluate: %s" % ex
    return None


_QSEM = {}


def _quartile_semantics(F, b, S, paths, size, nb):
    """evaluate quartile(index) for every index < NUM_BUCKETS and every value of the byte it reads: the byte read is
    data[size-1-index/4] and the result is (byte >> 2*(index%4)) & 3"""
    from .. import evalx
    from . import cfgdiff
    if not nb:
        return "NUM_BUCKETS unknown"
    sig = (cfgdiff.body_sig(F, b), size, nb)
    if sig in _QSEM:
        return _QSEM[sig]
    evalx.set_target(F)
    data = ("field", ("deref", P(1)), 0)
    why = None
    try:
        for i in range(nb):
            for v in range(256):
                pos = []

                def hook(basev, iv):
                    # a read of self.data[iv], in this function or in a helper it passes the array to
                    if basev == ("fld", ("obj", "self"), 0):
                        pos.append(iv)
                        return v
                    return None

                asg = {"params": {1: ("obj", "self"), 2: i}, "load2": hook, "lazy_calls": {"core::slice::<impl [T]>::len": lambda raw: size}}
                got = evalx.run(S, F, paths, asg)
                want = (v >> (2 * (i % 4))) & 3
                if pos and any(p_ != size - 1 - i // 4 for p_ in pos):
                    why = "quartile(%d) reads data[%s]; reference data[%d]" % (i, pos, size - 1 - i // 4)
                    break
                if not pos:
                    why = "quartile(%d) does not read the body" % i
                    break
                if got != want:
                    why = "quartile(%d) with byte 0x%02x gives %s; reference %d" % (i, v, got, want)
                    break
            if why:
                break
    except (evalx.Unknown, evalx.Panics) as ex:
        why = "cannot evaluate: %s" % ex
    _QSEM[sig] = why
    return why


def quartile(ctx, r, F):
    bs = F.method("quartile", "hash::body::FuzzyHashBodyData<", trait="hash::body::FuzzyHashBody")
    ctx.instance(r, len(bs))
    if len(bs) != 3:
        ctx.missing(r, "three quartile impls (found %d)" % len(bs), cfg=F.key)
        return
    consts = F.impl_consts("hash::body::FuzzyHashBodyData<", "hash::body::FuzzyHashBody")
    for b in bs:
        st = F.tys(b.impl_info()["self_ty"])
        size = int(st.split("<")[1].rstrip(">"))
        nb = consts.get(st, {}).get("NUM_BUCKETS")
        S = sym.Sym(b)
        paths = S.paths()
        rets = [p for p in paths if p.end == "return"]
        div = [p for p in paths if p.end == "diverge"]
        data = ("field", ("deref", P(1)), 0)
        ln = ("call", "core::slice::<impl [T]>::len", (("ref", data),))
        why = _quartile_semantics(F, b, S, paths, size, nb)
        ok = why is None
        gate = [(n(d), (taken == "otherwise") if vals == [0] else bool(taken)) for (_, d, taken, vals) in rets[0].conds] if rets else None
        okg = gate == [(("bin", "Lt", P(2), C(nb)), True)] and nb == 4 * size and len(div) == 1
        ctx.ob(r, ("quartile<%d>" % size, "shape"), ok, "quartile(i) is not (data[len-1-i/4] >> 2*(i%%4)) & 3 for every i < NUM_BUCKETS and every byte value: %s" % why, cfg=F.key, where=b.where())
        ctx.ob(r, ("quartile<%d>" % size, "documented-assertion"), okg, "index assertion is %s with NUM_BUCKETS=%s; reference i < %d" % (gate, nb, 4 * size), cfg=F.key, where=b.where())
