"""C13 -- string comparison helpers equal parse-then-compare and blame the right side."""
from .. import sym
from ..norm import n, P, C, V, match, find_all
from . import cmpmodel, hexcodec, common

ID = "C13"
CONFIGS = {"quick": ["K0", "K3", "K4", "K5"], "thorough": ["K0", "K1", "K3", "K4", "K5", "K15"]}
META = {
    "explanation": (
        "Static analysis (MIR paths + resolved callees).  compare_with is decided as a decision table: the first "
        "parse takes the first parameter and its Err(e) edge returns ParseErrorEither(Left, e) with the same e; the "
        "second parse takes the second parameter, is only reached on the first's Ok edge, and its Err(e) edge returns "
        "(Right, e); the Ok value is the compare of the two parsed values.  str::parse::<T> is followed through "
        "FromStr for the outer and inner hash types to from_str_bytes(s.as_bytes(), None) (prefix auto-detection; "
        "case-insensitivity is C05's alphabet rule).  compare() instantiates Tlsh and passes arguments in order; the "
        "accessors of ParseErrorEither return fields 0 and 1."
    ),
    "trusted_base": ["rustc nightly front end", "core::str::parse::<T> == <T as FromStr>::from_str"],
    "assumptions": [],
    "not_decided": [],
}
TECHNIQUE = 'decision table of compare_with by evaluation (parse order, side tags, error pass-through), wrapper forwarding by abstract evaluation, decoder evaluation'
PARSE = "core::str::<impl str>::parse"


def _compare_with_table(F, b):
    from .. import evalx
    evalx.set_target(F)
    S = sym.Sym(b)
    paths = S.paths()
    side = lambda s_, e: ("Err", ("adt", "errors::ParseErrorEither::ParseErrorEither", ("adt", "errors::ParseErrorSide::" + s_), e))
    order = []
    for lres in (("Ok", "A"), ("Err", "EL")):
        for rres in (("Ok", "B"), ("Err", "ER")):
            del order[:]

            def parse(arg, lres=lres, rres=rres):
                order.append(arg)
                return lres if arg == "LHS" else rres

            asg = {"symbolic": True, "no_inline": True, "params": {1: "LHS", 2: "RHS"}, "calls": {PARSE: parse}}
            try:
                got = evalx.run(S, F, paths, asg)
            except (evalx.Unknown, evalx.Panics) as ex:
                return "cannot evaluate: %s" % ex
            if lres[0] == "Err":
                want = [side("Left", "EL")]
                if "RHS" in order and order.index("RHS") < order.index("LHS"):
                    return "the right operand is parsed before the left one"
            elif rres[0] == "Err":
                want = [side("Right", "ER")]
            else:
                want = [("Ok", ("app", "hash::public::FuzzyHashType::compare", ("A", "B"))), ("Ok", ("app", "hash::public::FuzzyHashType::compare", ("B", "A")))]
            if got not in want:
                return "parse(left) = %s, parse(right) = %s gives %s; reference %s" % (lres, rres, got, want[0])
    return None


def run(ctx, FS):
    for key, F in FS.items():
        # case- and prefix-insensitivity of the operands is the hex decoder's: 'a'-'f' and 'A'-'F' decode to the same nibbles in every
        # table configuration (tables by value, decoders evaluated on the classes of the byte domain)
        r2 = "R-13.2"
        ctx.rule(r2, "hex digits decode case-insensitively in every decode-table configuration (tables equal the reference by value; decode_1/decode_rev_1 evaluated on byte classes)")
        hexcodec.table_rules(ctx, r2, F)
        hexcodec.decoders(ctx, r2, F)
        if "easy-functions" not in F.features:
            continue
        r = "R-13.1"
        ctx.rule(r, "compare_with: parse left first, Left/Right tags with the parser's own error, Ok = compare(parsed left, parsed right); FromStr chain = from_str_bytes(bytes, None)")
        b = F.fn("compare_easy::compare_with")
        ctx.instance(r)
        if b is None:
            ctx.missing(r, "compare_easy::compare_with", cfg=F.key)
            continue
        S = sym.Sym(b)
        rets = [p for p in S.paths() if p.end == "return"]
        pl, pr = ("call", PARSE, (P(1),)), ("call", PARSE, (P(2),))
        okv = lambda e: ("field", ("variant", e, "Ok"), 0)
        errv = lambda e: ("field", ("variant", e, "Err"), 0)
        side = lambda s, e: ("agg", "adt:core::result::Result::Err", (("agg", "adt:errors::ParseErrorEither::ParseErrorEither", (("agg", "adt:errors::ParseErrorSide::" + s, ()), e)),))
        want = {
            repr([("L", "Err")]): side("Left", errv(pl)),
            repr([("L", "Ok"), ("R", "Err")]): side("Right", errv(pr)),
            repr([("L", "Ok"), ("R", "Ok")]): [("agg", "adt:core::result::Result::Ok", (("call", "hash::public::FuzzyHashType::compare", (("ref", okv(pl)), ("ref", okv(pr)))),)),
                                                ("agg", "adt:core::result::Result::Ok", (("call", "hash::public::FuzzyHashType::compare", (("ref", okv(pr)), ("ref", okv(pl)))),))],
        }
        got = {}
        shape_ok = True
        for p in rets:
            key_ = []
            for (bb, d, taken, vals) in p.conds:
                e = n(d)
                nm = S.variant(d, taken) if taken != "otherwise" else None
                if e == ("discr", pl):
                    key_.append(("L", nm))
                elif e == ("discr", pr):
                    key_.append(("R", nm))
                else:
                    shape_ok = False
            got[repr(key_)] = n(p.ret)
        ok = shape_ok and set(got) == set(want)
        msgs = []
        if ok:
            for k, w in want.items():
                ws = w if isinstance(w, list) else [w]
                if got[k] not in ws:
                    ok = False
                    msgs.append("%s -> %s" % (k, sym.fmt(got[k])))
        else:
            msgs.append("decision keys %s" % sorted(got))
        if not ok:
            # any other spelling (map_err + `?`, let-else, ...): decide the function on the four outcomes of the two parses
            why = _compare_with_table(F, b)
            ok = why is None
            if not ok:
                msgs = [why]
        ctx.ob(r, ("compare_with", "decision-table"), ok,
               "compare_with deviates from: Err(left) -> (Left, e_left); Ok,Err(right) -> (Right, e_right); Ok,Ok -> compare(left,right): %s" % msgs,
               cfg=F.key, where=b.where())
        # parse is instantiated at T
        targs = set()
        for _, t in b.calls():
            if t["callee"].get("path") == PARSE:
                targs.add(tuple(F.tys(a["ty"]) for a in t["callee"]["args"] if a.get("k") == "ty"))
        ctx.ob(r, ("compare_with", "parse-at-T"), targs == {("T",)}, "str::parse is instantiated at %s; reference T" % sorted(targs), cfg=F.key, trivial=True)
        # FromStr chain
        ob = F.method("from_str", "hash::FuzzyHash<")
        ib = F.method("from_str", "hash::inner::FuzzyHash<")
        ctx.instance(r, 3)
        if len(ob) != 1 or len(ib) != 1:
            ctx.missing(r, "FromStr impls for outer/inner FuzzyHash (%d/%d)" % (len(ob), len(ib)), cfg=F.key)
        else:
            why = common.wrapper_forwards(F, ob[0], "core::str::FromStr::from_str", 1)
            ctx.ob(r, ("hash::FuzzyHash::from_str", "forwards"), why is None, "outer from_str: %s" % why, cfg=F.key, where=ob[0].where())
            # the inner type the outer one forwards to
            c = [t for _, t in ob[0].calls() if t["callee"].get("path") == "core::str::FromStr::from_str"]
            st = F.tys(c[0]["callee"]["self_ty"]) if c else None
            ctx.ob(r, ("hash::FuzzyHash::from_str", "inner-type"), st is not None and "InnerFuzzyHashType" in st, "outer from_str parses %s" % st, cfg=F.key, trivial=True)
            ps = cmpmodel.ret_paths(ib[0])
            e = n(ps[0].ret) if len(ps) == 1 else None
            ctx.ob(r, ("hash::inner::FuzzyHash::from_str", "auto-detect-prefix"),
                   e == ("call", "hash::public::FuzzyHashType::from_str_with", (P(1), ("agg", "adt:core::option::Option::None", ()))),
                   "inner from_str is %s; reference from_str_with(s, None)" % (sym.fmt(e) if e else e), cfg=F.key, where=ib[0].where())
        fw = F.fn("hash::public::FuzzyHashType::from_str_with")
        if fw is None:
            ctx.missing(r, "FuzzyHashType::from_str_with", cfg=F.key)
        else:
            ps = cmpmodel.ret_paths(fw)
            e = n(ps[0].ret) if len(ps) == 1 else None
            ctx.ob(r, ("FuzzyHashType::from_str_with", "as-bytes"),
                   e == ("call", "hash::public::FuzzyHashType::from_str_bytes", (("call", "core::str::<impl str>::as_bytes", (P(1),)), P(2))),
                   "from_str_with is %s" % (sym.fmt(e) if e else e), cfg=F.key, where=fw.where())
        for obb in F.method("from_str_bytes", "hash::FuzzyHash<"):
            why = common.wrapper_forwards(F, obb, "hash::public::FuzzyHashType::from_str_bytes", 2)
            ctx.instance(r)
            ctx.ob(r, ("hash::FuzzyHash::from_str_bytes", "forwards"), why is None, "outer from_str_bytes: %s" % why, cfg=F.key, where=obb.where())
        # compare -> compare_with::<Tlsh>
        cb = F.fn("compare_easy::compare")
        ctx.instance(r)
        if cb is None:
            ctx.missing(r, "compare_easy::compare", cfg=F.key)
        else:
            ps = cmpmodel.ret_paths(cb)
            e = n(ps[0].ret) if len(ps) == 1 else None
            c = [t for _, t in cb.calls()]
            targ = F.tys(c[0]["callee"]["args"][0]["ty"]) if c and c[0]["callee"]["args"] else None
            ctx.ob(r, ("compare", "instantiates-Tlsh"), e == ("call", "compare_easy::compare_with", (P(1), P(2))) and targ == "hash::FuzzyHash<1, 128>",
                   "compare is %s at %s" % (sym.fmt(e) if e else e, targ), cfg=F.key, where=cb.where())
        for nm, fi in (("side", 0), ("inner_err", 1)):
            ab = F.fn("errors::ParseErrorEither::" + nm)
            ctx.instance(r)
            if ab is None:
                ctx.missing(r, "ParseErrorEither::" + nm, cfg=F.key)
                continue
            ps = cmpmodel.ret_paths(ab)
            e = n(ps[0].ret) if len(ps) == 1 else None
            ctx.ob(r, ("ParseErrorEither::" + nm, "field"), e == ("load", ("field", ("deref", P(1)), fi)), "%s() returns %s" % (nm, sym.fmt(e) if e else e), cfg=F.key, where=ab.where())
        ctx.floor(r, 8, "helper functions")
