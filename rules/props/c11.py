"""C11 -- oversized and >4 GiB inputs are rejected cleanly; fed length reported exactly."""
from .. import sym
from ..norm import n, P, C, V, ANY, match, find_all, binop
from . import common, cmpmodel, panics, c03

ID = "C11"
CONFIGS = {"quick": ["K0", "K7", "K8"], "thorough": ["K0", "K1", "K7", "K8", "K19"]}
META = {
    "explanation": (
        "Static analysis (MIR + constant evaluator).  The statement quantifies over feeding histories of 2^32 bytes "
        "and more; the truth of the counter arithmetic on every history is not structurally visible and is NOT "
        "decided.  Decided are the constants (TAIL_SIZE = 4, MAX_LEN = 2^32-4 for all five variants, MAX < u32::MAX), "
        "that processed_len is a checked add of the two counters, that finalize maps None to u32::MAX which the "
        "classifier calls TooLarge and that the only None of the length encoder is excluded on every path reaching "
        "its unwrap, and the saturation guard skeleton of update(): the early return on len >= MAX_LEN dominates "
        "every write of the counter, the amount added is the checked u32 conversion of the slice length or, under "
        "the dominating test, MAX_LEN - len with the slice truncated to the same amount, the two overflow checks on "
        "the counter are discharged from those dominating tests, and nobody else writes the counters.  The tail-fill "
        "prologue is evaluated as affine windows for tail_len = 0..4 and len(data) = 0..8 / >= 9 (R-11.5): it adds "
        "min(len(data), TAIL_SIZE - tail_len) to tail_len and the slice that is then counted and iterated starts "
        "exactly after the bytes moved into the tail, so no byte is counted twice or dropped at that boundary."
    ),
    "trusted_base": ["rustc nightly front end and constant evaluator"],
    "assumptions": ["analysed targets: x86_64 (64-bit usize); i686 (32-bit usize) in the thorough tier"],
    "not_decided": ["exactness of the byte counter as an induction over arbitrary histories (decided per update() call: R-11.3 + R-11.5)",
                    "equality with the reference at exactly MAX bytes (C01 at a boundary)"],
}
TECHNIQUE = 'path rules for the saturation guards and counters, affine-window evaluation of the prologue, panic-site idiom discharge (interval + linear relational reasoning), 32-bit target analysis'


def run(ctx, FS):
    for key, F in FS.items():
        consts(ctx, F)
        reported(ctx, F)
        guards(ctx, F)
        no_panic(ctx, F)
        # tail_len accounting of the tail-fill prologue (shared with C03): tail_len' = tail_len + min(len(data), TAIL_SIZE - tail_len)
        # and the counted/iterated slice starts right after the bytes moved into the tail
        c03.prologue_windows(ctx, F, "R-11.5")


def no_panic(ctx, F):
    r = "R-11.4"
    ctx.rule(r, "update()/processed_len() never panic: every overflow check, slice window, copy and subtraction in them is discharged from the dominating "
                "comparisons (interval + linear relational reasoning over path conditions), for any slice length and any generator state reachable through the API")
    roots = [b.path for b in F.bodies if b.name in ("update", "processed_len") and b.kind == "AssocFn" and "generate::" in b.path]
    sites = panics.check(ctx, r, F, roots, floor=20)


def consts(ctx, F):
    r = "R-11.1"
    ctx.rule(r, "TAIL_SIZE == 4 and MAX_LEN == 2^32-4 for all five variants; MAX < u32::MAX")
    g = F.impl_consts("generate::inner::Generator<")
    ctx.instance(r, len(g))
    bad = {k: v for k, v in g.items() if v.get("TAIL_SIZE") != 4 or v.get("MAX_LEN") != 2 ** 32 - 4}
    ctx.ob(r, ("Generator", "TAIL_SIZE/MAX_LEN"), not bad and len(g) == 5, "per-variant constants %s (variants: %d)" % (bad, len(g)), cfg=F.key)
    mx = F.const_int("length::MAX")
    ctx.ob(r, ("length::MAX", "<u32::MAX"), mx is not None and mx < 2 ** 32 - 1, "length::MAX=%r" % mx, cfg=F.key)
    w = F.const_int("generate::WINDOW_SIZE")
    ctx.ob(r, ("WINDOW_SIZE", "5"), w == 5, "WINDOW_SIZE=%r" % w, cfg=F.key, trivial=True)
    ctx.floor(r, 5, "generator variants")


def reported(ctx, F):
    r = "R-11.2"
    ctx.rule(r, "processed_len = checked_add(len, tail_len); None -> u32::MAX -> TooLarge; the encoder's only None is excluded where it is unwrapped")
    gf = common.generator_fields(F)
    bs = F.method("processed_len", "generate::inner::Generator<")
    ctx.instance(r)
    if len(bs) != 1 or not gf:
        ctx.missing(r, "inner Generator::processed_len", cfg=F.key)
        return
    ps = cmpmodel.ret_paths(bs[0])
    got = n(ps[0].ret) if len(ps) == 1 else None
    fld = lambda f: ("load", ("field", ("deref", P(1)), gf[f]))
    want = [("call", "core::num::<impl u32>::checked_add", (fld("len"), fld("tail_len"))), ("call", "core::num::<impl u32>::checked_add", (fld("tail_len"), fld("len")))]
    ctx.ob(r, ("Generator::processed_len", "checked-add"), got in want,
           "processed_len is %s; reference self.len.checked_add(self.tail_len)" % (sym.fmt(got) if got else got), cfg=F.key, where=bs[0].where())
    M, err = common.finalize_model(F)
    if M is None:
        ctx.missing(r, err, cfg=F.key)
        return
    b = M.body
    # consumers of the length value
    lenx = ("call", "core::option::Option::<T>::unwrap_or", (("call", V("pl"), (P(1),)), C(0xFFFFFFFF)))
    consumers = set()
    for p in M.paths:
        for (bb, path, args, c) in p["p"].calls:
            for a in args:
                if match(lenx, n(a)) is not None:
                    consumers.add(path)
    ctx.ob(r, ("finalize", "length-consumers"), consumers == {"length::DataLengthValidity::new", "length::FuzzyHashLengthEncoding::new"},
           "processed_len().unwrap_or(u32::MAX) is consumed by %s" % sorted(consumers), cfg=F.key, where=b.where())
    # unwrap of LengthEncoding::new(len): on every path reaching it validity != TooLarge
    tab, e2 = common.enum_decision(F, "length::DataLengthValidity::is_err_on", {1: "length::DataLengthValidity", 2: "length::DataLengthProcessingMode"})
    bad = []
    reach = 0
    for p in M.paths:
        calls = [c for c in p["p"].calls if c[1] == "core::option::Option::<T>::unwrap" and n(c[2][0])[0] == "call" and n(c[2][0])[1] == "length::FuzzyHashLengthEncoding::new"]
        if not calls:
            continue
        reach += 1
        ev = p["events"] if p["events"] is not None else _events_prefix(M, p)
        gate = [e for e in ev if e[0] == "len_gate"]
        val = [e for e in ev if e[0] == "validity"]
        excluded = False
        if gate and gate[0][1] is False:
            # gate false: TooLarge impossible because is_err_on(TooLarge, *) is true
            excluded = tab is not None and all(tab[("TooLarge", m)][1] == ("const", 1) for m in ("Optimistic", "Conservative"))
        elif val:
            excluded = val[0][1].startswith("not:") and "TooLarge" in val[0][1][4:].split(",") or (not val[0][1].startswith("not:") and val[0][1] != "TooLarge")
        if not excluded:
            bad.append([e[:2] for e in ev][:4])
    ctx.instance(r, reach)
    ctx.ob(r, ("finalize", "encoder-unwrap-discharged"), reach > 0 and not bad,
           "LengthEncoding::new(len).unwrap() is reachable with a too-large length on paths %s" % bad[:2], cfg=F.key, where=b.where())
    # TooLarge <=> len > MAX with the same constant as the encoder's None arm: by value
    lp = F.impl_consts("length::LengthProcessingInfo<", "length::ConstrainedLengthProcessingInfo")
    mx = F.const_int("length::MAX")
    ctx.ob(r, ("TooLarge == encoder None", "same-constant"), len(lp) == 3 and all(v.get("MAX") == mx and v.get("MIN", 1 << 40) <= mx and v.get("MIN_CONSERVATIVE", 1 << 40) <= mx for v in lp.values()),
           "LengthProcessingInfo MAX %s vs length::MAX %r" % ({k: v.get("MAX") for k, v in lp.items()}, mx), cfg=F.key)
    # outer wrapper forwards
    for ob in F.method("processed_len", "generate::Generator<"):
        ps = cmpmodel.ret_paths(ob)
        got = n(ps[0].ret) if len(ps) == 1 else None
        ctx.instance(r)
        ctx.ob(r, ("generate::Generator::processed_len", "forwards"),
               got == ("call", "generate::public::GeneratorType::processed_len", (("ref", ("field", ("deref", P(1)), 0)),)),
               "outer processed_len is %s" % (sym.fmt(got) if got else got), cfg=F.key, where=ob.where())


def encoder_unwrap_ok(F):
    """True iff on every path of finalize reaching LengthEncoding::new(len).unwrap() the too-large class is excluded."""
    M, err = common.finalize_model(F)
    if M is None:
        return False
    tab, e2 = common.enum_decision(F, "length::DataLengthValidity::is_err_on", {1: "length::DataLengthValidity", 2: "length::DataLengthProcessingMode"})
    reach = 0
    for p in M.paths:
        calls = [c for c in p["p"].calls if c[1] == "core::option::Option::<T>::unwrap" and n(c[2][0])[0] == "call" and n(c[2][0])[1] == "length::FuzzyHashLengthEncoding::new"]
        if not calls:
            continue
        reach += 1
        ev = p["events"] if p["events"] is not None else _events_prefix(M, p)
        gate = [e for e in ev if e[0] == "len_gate"]
        val = [e for e in ev if e[0] == "validity"]
        excluded = False
        if gate and gate[0][1] is False:
            excluded = tab is not None and all(tab[("TooLarge", m)][1] == ("const", 1) for m in ("Optimistic", "Conservative"))
        elif val:
            excluded = (val[0][1].startswith("not:") and "TooLarge" in val[0][1][4:].split(",")) or (not val[0][1].startswith("not:") and val[0][1] != "TooLarge")
        if not excluded:
            return False
    return reach > 0


def _events_prefix(M, p):
    """events for a non-returning path (re-classify its conditions)."""
    out = []
    for (bb, d, taken, vals) in p["p"].conds:
        e = n(d)
        truth = (taken == "otherwise") if vals == [0] else (None if taken == "otherwise" else bool(taken))
        if e[0] == "call" and e[1] == "length::DataLengthValidity::is_err_on":
            out.append(("len_gate", truth))
        elif e[0] == "discr" and e[1][0] == "call" and e[1][1] == "length::DataLengthValidity::new":
            names = {v: k for k, v in M.validity.items()}
            if taken == "otherwise":
                out.append(("validity", "not:" + ",".join(sorted(names.get(v, str(v)) for v in vals))))
            else:
                out.append(("validity", names.get(taken, str(taken))))
        elif common._validity_eq(e) is not None and truth is not None:
            vname, _, is_ne = common._validity_eq(e)
            out.append(("validity", vname if (truth != is_ne) else "not:" + vname))
    return out


def _iter_source(e):
    """the slice a by-value byte iterator walks: peels slice::iter / Iterator::copied / cloned / into_iter adapters
    (`for &b in s`, `for b in s.iter().copied()` and `for b in s.iter().cloned()` iterate the same bytes)."""
    while e[0] == "call" and len(e[2]) == 1 and e[1].endswith(("slice::<impl [T]>::iter", "Iterator::copied", "Iterator::cloned", "IntoIterator::into_iter")):
        e = e[2][0]
    return e


def guards(ctx, F, r="R-11.3"):
    ctx.rule(r, "update(): early return on len >= MAX_LEN dominates counter writes; amount added is checked-converted length or MAX_LEN-len with the slice "
                "truncated to the same amount; counter overflow checks discharged; only update/default write the counters", "N")
    gf = common.generator_fields(F)
    bs = F.method("update", "generate::inner::Generator<")
    ctx.instance(r)
    if len(bs) != 1 or not gf:
        ctx.missing(r, "inner Generator::update", cfg=F.key)
        return
    b = bs[0]
    S = sym.Sym(b)
    paths = S.paths()
    LEN = ("field", ("deref", P(1)), gf["len"])
    MAXLEN = None
    # identify constants by name of the associated constant
    is_maxlen = lambda e: e[0] == "cpath" and e[1].endswith("::MAX_LEN")
    conv = ("call", "core::result::Result::<T, E>::unwrap_or", (("call", V("tf"), (("call", "core::slice::<impl [T]>::len", (V("data"),)),)), C(0xFFFFFFFF)))
    guard_seen = 0
    bad = []
    for p in paths:
        stores_len = [(bb, v) for (bb, pl, v) in p.stores if n(pl) == LEN]
        conds = [(bb, n(d), (taken == "otherwise") if vals == [0] else taken) for (bb, d, taken, vals) in p.conds]
        raw_conds = {bb: d for (bb, d, taken, vals) in p.conds}
        g_idx = [i for i, (bb, e, t) in enumerate(conds) if e[0] == "bin" and e[1] == "Le" and is_maxlen(e[2]) and e[3] == ("load", LEN)]
        if stores_len and not g_idx:
            bad.append("counter written on a path without the len >= MAX_LEN test")
            continue
        if g_idx:
            guard_seen += 1
            gi = g_idx[0]
            gbb, ge, gt = conds[gi]
            if gt is True:
                # saturated: returns without consuming anything further
                later_calls = [c for c in p.calls if c[0] > gbb and not c[1].endswith(("unlikely", "likely"))]
                if p.end != "return" or stores_len or any(bb > gbb for (bb, pl, v) in p.stores):
                    bad.append("path with len >= MAX_LEN does not return immediately")
                continue
            # not saturated: exactly one store to len, after the guard
            if len(stores_len) > 1:
                bad.append("counter written %d times on one path" % len(stores_len))
                continue
            if not stores_len:
                continue
            sbb, sv = stores_len[0]
            sv = n(sv)
            # truncation test
            t_idx = [i for i, (bb, e, t) in enumerate(conds) if e[0] == "bin" and e[1] == "Lt" and e[2][0] == "bin" and e[2][1] == "Sub" and is_maxlen(e[2][2]) and e[2][3] == ("load", LEN)]
            if not t_idx:
                bad.append("no `data_len > MAX_LEN - len` test before the counter is written")
                continue
            tbb, te, tt = conds[t_idx[0]]
            amount = te[3]
            room = te[2]
            m = match(conv, amount)
            if m is None:
                # the same conversion spelled as a `match`: on the Ok arm the amount is the converted length itself, on the Err arm
                # (length >= 2^32) it is u32::MAX
                TFC = ("call", V("tf"), (("call", "core::slice::<impl [T]>::len", (V("data"),)),))
                mo = match(("field", ("variant", TFC, "Ok"), 0), amount)
                if mo is not None and mo["tf"].endswith("try_from"):
                    m = mo
                elif amount == C(0xFFFFFFFF):
                    for (bb_, e_, t_) in conds:
                        md = match(("discr", TFC), e_)
                        if md is not None and md["tf"].endswith("try_from") and S.variant(raw_conds[bb_], t_) == "Err":
                            m = md
            if m is None or not m["tf"].endswith("try_from"):
                bad.append("amount compared is %s; reference u32::try_from(data.len()).unwrap_or(u32::MAX)" % sym.fmt(amount))
                continue
            added = None
            mm = match(("bin", "Add", V("a"), V("b")), sv)
            if mm:
                others = [x for x in (mm["a"], mm["b"]) if x != ("load", LEN)]
                added = others[0] if len(others) == 1 else None
            if tt is False and added != amount:
                bad.append("un-truncated path adds %s to the counter; reference the converted slice length" % (sym.fmt(added) if added else sym.fmt(sv)))
            if tt is True:
                if added != room:
                    bad.append("truncated path adds %s to the counter; reference MAX_LEN - len" % (sym.fmt(added) if added else sym.fmt(sv)))
                # the slice iterated afterwards is data[..room]
                its = [c for c in p.calls if c[1].endswith("into_iter") and c[0] > tbb]
                ok_slice = False
                for c in its:
                    a = _iter_source(n(c[2][0]))
                    mi = match(("call", V("ix"), (m["data"], ("agg", V("rk"), (room,)))), a)
                    if mi and mi["ix"].endswith("::index") and mi["rk"].endswith("RangeTo::RangeTo"):
                        ok_slice = True
                if its and not ok_slice:
                    bad.append("truncated path iterates over %s; reference data[..MAX_LEN - len]" % sym.fmt(n(its[0][2][0])))
            if tt is False:
                its = [c for c in p.calls if c[1].endswith("into_iter") and c[0] > tbb]
                for c in its:
                    a = _iter_source(n(c[2][0]))
                    if a != m["data"]:
                        bad.append("un-truncated path iterates over %s but counts len(%s)" % (sym.fmt(a), sym.fmt(m["data"])))
            # overflow assertions on the counter are discharged by the dominating tests
            for (abb, kind, cond, expected, msg) in p.asserts:
                c = n(cond)
                if kind == "overflow" and c[0] == "ovf" and ("load", LEN) in (c[2], c[3]):
                    if c == ("ovf", "Sub", ("cpath", room[2][1]) if room[2][0] == "cpath" else room[2], ("load", LEN)) or (c[0] == "ovf" and c[1] == "Sub" and is_maxlen(c[2]) and c[3] == ("load", LEN)):
                        if not (gbb < abb):
                            bad.append("MAX_LEN - len computed before the len >= MAX_LEN test")
                    elif c[0] == "ovf" and c[1] == "Add":
                        if not (tbb < abb):
                            bad.append("len += amount computed before the truncation test")
                    else:
                        bad.append("unexplained overflow check on the counter: %s" % sym.fmt(c))
    ctx.instance(r, guard_seen)
    ctx.ob(r, ("Generator::update", "saturation-guards"), not bad and guard_seen > 0, "; ".join(sorted(set(bad))[:4]) or "no guarded path found", cfg=F.key, where=b.where())
    # who writes the counters
    writers = set()
    for x in F.bodies:
        if not x.mir or x.kind.startswith(("Const", "Static", "AnonConst", "AssocConst", "InlineConst")):
            continue
        im = x.impl_info()
        for blk in x.blocks:
            for s in blk["stmts"]:
                d = s.get("dst")
                if not d or "p" not in d:
                    continue
                pr = d["p"]
                for e in pr:
                    if isinstance(e, dict) and "f" in e and e["f"] in (gf["len"], gf["tail_len"]):
                        # is the base a Generator?
                        base_ty = x.local_ty(d["l"])
                        s_ty = base_ty["s"]
                        if "generate::inner::Generator<" in s_ty:
                            writers.add(x.name)
            # aggregate construction of a Generator
            for s in blk["stmts"]:
                if s.get("rv") == "agg" and s.get("path") == "generate::inner::Generator":
                    writers.add(x.name)
    ctx.ob(r, ("Generator counters", "who-writes"), writers <= {"update", "default", "clone"} and "update" in writers,
           "functions writing len/tail_len or constructing a Generator: %s; reference update/default(/derived clone)" % sorted(writers), cfg=F.key)
    # no wrapping/saturating arithmetic on the counter
    wr = []
    for p in paths:
        for c in p.calls:
            if ("wrapping_" in c[1] or "saturating_" in c[1] or "overflowing_" in c[1]) and any(find_all(n(a), lambda x: x in (("load", LEN),)) for a in c[2]):
                wr.append(c[1])
    ctx.ob(r, ("Generator::update", "no-wrapping-counter"), not wr, "counter goes through %s" % sorted(set(wr)), cfg=F.key)
