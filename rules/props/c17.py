"""C17 -- the safe API is total and memory-safe in every configuration."""
import re

from .. import sym, callgraph
from ..norm import n, P, C, V, ANY, match, find_all, binop
from . import common, cmpmodel, layout, panics, simd, hexcodec, c11

ID = "C17"
CONFIGS = {"quick": ["K0", "K8"], "thorough": ["K0", "K1", "K8", "K11", "K13", "K14a", "K14b", "K14c", "K16"]}
FIXTURES = {"panic", "taint"}
META = {
    "explanation": (
        "Static analysis of everything that can cause undefined behaviour or a panic.  Undefined behaviour can only "
        "originate in an unsafe operation, and the crate has few, of five kinds; each kind has a rule and an unsafe "
        "operation of an unlisted kind or place is itself a violation (layering).  Decided: every invariant! (the sites "
        "that become unreachable_unchecked under `unsafe`) is discharged from constants, from the length tables over all "
        "32 leading-zero classes, or from const-generic arithmetic for the five variants, and none depends on the result of "
        "a caller-supplied trait implementation (this rule found the repaired defect F3); unsafe operations occur only in "
        "the x86 backends, the dispatch arms, the invariant sites and the two from_utf8_unchecked sites (none at all in the "
        "no-SIMD safe configuration); every target_feature function is called only under a dominating detection or static "
        "feature set implying the features of its whole callee tree; vector loads cover exactly the borrowed arrays / an "
        "asserted chunk; the buffers handed to from_utf8_unchecked can only contain table bytes < 0x80, \"T1\" or hex-simd "
        "output.  Explicit panic sites (unwrap/expect/assert!/indexing/overflow checks) reachable from the public API are "
        "enumerated and discharged by named idioms; the sites inside Generator::update's length/offset arithmetic and the "
        "sums of bounded part distances are listed as NOT decided."
    ),
    "trusted_base": ["rustc nightly front end, constant evaluator, target-feature implication lists", "core/std/hex-simd are free of UB", "core::arch intrinsics are sound when their target features are available",
                     "core::slice::select_nth_unstable post-condition (left <= pivot <= right)"],
    "assumptions": ["x86_64 target; code behind `unstable` (core::intrinsics::assume, portable SIMD) and non-x86 backends is not compiled here"],
    "not_decided": ["absence of arithmetic-overflow/bounds panics inside Generator::update's length/offset arithmetic (see C11)",
                    "that sums of part distances / kernel accumulators stay below u32::MAX (follows from the part maxima, body part not decided)"],
}
TECHNIQUE = "unsafe-operation inventory and layering, invariant discharge by constant folding over finite class domains, taint from foreign trait calls, feature-implication dominance, panic-site idiom discharge"


def run(ctx, FS):
    for key, F in FS.items():
        invariants(ctx, F)
        layering(ctx, F)
        r = "R-17.3"
        ctx.rule(r, "no #[target_feature] function (or intrinsic) is executed unless its features are implied by a dominating detection or the static feature set")
        simd.dispatch(ctx, r, F)
        r = "R-17.4"
        ctx.rule(r, "vector loads stay inside the borrowed array / the asserted chunk; no raw-pointer store exists")
        simd.outer_loads(ctx, r, F)
        simd.agg_kernels(ctx, r, F)
        load_bases(ctx, r, F)
        utf8(ctx, F)
        panic_sites(ctx, F)


# ---------------------------------------------------------------- R-17.1


def teval(e, F, clz):
    """Constant folding of a table fact for one leading-zero class."""
    k = e[0]
    if k == "const":
        return e[1]
    if k == "call" and e[1].endswith("::leading_zeros"):
        return clz
    if k == "bin":
        a, b = teval(e[2], F, clz), teval(e[3], F, clz)
        if a is None or b is None:
            return None
        return {"Add": lambda: a + b, "Sub": lambda: a - b, "Le": lambda: int(a <= b), "Lt": lambda: int(a < b), "Eq": lambda: int(a == b)}.get(e[1], lambda: None)()
    if k == "index" and e[1][0] == "table":
        arr = table_values(F, e[1][1])
        i = teval(e[2], F, clz)
        if arr is None or i is None or not (0 <= i < len(arr)):
            return None
        return arr[i]
    if (k == "call" and e[1].endswith("::len")) or k == "len":
        x = e[2][0] if k == "call" else e[1]
        if x[0] == "ref":
            x = x[1]
        if x[0] == "table":
            arr = table_values(F, x[1])
            return len(arr) if arr is not None else None
    return None


def table_values(F, path):
    c = F.consts.get(path)
    if not c:
        return None
    t = F.ty(c["ty"])
    es = {"u8": 1, "u16": 2, "u32": 4, "usize": 8}.get(F.tys(t["elem"])) if t["k"] == "array" else None
    return F.const_array(path, es) if es else None


def foreign_trait_calls(b, e):
    """Raw call nodes inside e whose callee is a foreign trait method on a type parameter."""
    out = []

    def rec(x):
        if isinstance(x, tuple):
            if x and x[0] == "call" and isinstance(x[1], int):
                c = b.blocks[x[1]]["term"]["callee"]
                st = b.f.ty(c.get("self_ty")) if c.get("self_ty") is not None else None
                if c.get("trait") and c.get("trait_krate") != "tlsh" and st is not None and st["k"] in ("param", "alias") and not c.get("resolved"):
                    out.append(c["path"])
            for y in x[1:] if (x and isinstance(x[0], str)) else x:
                rec(y)
        elif isinstance(x, list):
            for y in x:
                rec(y)

    rec(e)
    return out


def invariants(ctx, F):
    r = "R-17.1"
    ctx.rule(r, "every invariant! is discharged from constants / tables / const-generic arithmetic and none is fed by a caller-supplied trait implementation")
    unsafe_cfg = "unsafe" in F.features
    envs = layout.variant_envs(F)
    gen = F.impl_consts("generate::inner::Generator<")
    sites = []
    for b in F.bodies:
        if b.kind not in ("Fn", "AssocFn", "Closure") or not b.mir:
            continue
        # candidate: function with a terminator expanded from the invariant macro
        has = False
        for blk in b.blocks:
            macs = (blk["term"].get("loc") or {}).get("macros") or []
            if any(m.rsplit("::", 1)[-1] in ("invariant_impl", "invariant") for m in macs):
                has = True
        if unsafe_cfg:
            has = has or any((t["callee"].get("path") or "") == "core::hint::unreachable_unchecked" for _, t in b.calls())
        if not has:
            continue
        S = sym.Sym(b)
        for p in S.paths():
            if p.end != "diverge" and p.end != "unreachable":
                continue
            last = p.calls[-1] if p.calls else None
            if last is None:
                continue
            term = b.blocks[last[0]]["term"]
            macs = (term.get("loc") or {}).get("macros") or []
            is_inv = any(m.rsplit("::", 1)[-1] in ("invariant_impl", "invariant") for m in macs)
            if unsafe_cfg and last[1] == "core::hint::unreachable_unchecked":
                is_inv = True
            if not is_inv or not p.conds:
                continue
            (bb, d, taken, vals) = p.conds[-1]
            sites.append((b, S, p, d, taken, vals, last[1]))
    seen_keys = set()
    for (b, S, p, d, taken, vals, how) in sites:
        e = n(d)
        fails_when = (taken == "otherwise") if vals == [0] else bool(taken)  # the value of the condition on the failing path
        key = (b.path, sym.fmt(e)[:120])
        if key in seen_keys:
            continue
        seen_keys.add(key)
        ctx.instance(r)
        tainted = foreign_trait_calls(b, d)
        ok = False
        how_d = None
        if tainted:
            how_d = "fed by caller-supplied %s" % tainted[0]
        else:
            # (a)/(c): decided by constants for every variant
            env_list = []
            for nm, env in (envs or []):
                env = dict(env)
                key_g = "generate::inner::Generator<%d, %d, %d, %d, %d>" % common.VARIANTS[nm]
                for k2, v2 in (gen.get(key_g) or {}).items():
                    env["assoc:" + k2] = v2
                env_list.append(env)
            tyof = panics.tyof_factory(S, b)
            B = panics.Bounds(S, p, p.conds[-1][0])
            panics.LENOF[0] = lambda x, env: panics._slen(F, b, x, B, env, tyof)
            vs = [panics.cond_truth(e, panics.B0(), tyof, env) for env in env_list]
            if env_list and all(v is not None and v != fails_when for v in vs):
                ok = True
                how_d = "constant for all five variants"
            else:
                # (b): table fact over all leading-zero classes; the argument is a non-zero u32 (dominating len == 0 return)
                nonzero = any(n(c[1]) == binop("Eq", C(0), P(1)) and ((c[2] == 0) if c[3] == [0] else False) for c in p.conds[:-1])
                if nonzero and find_all(e, lambda x: x[0] == "call" and x[1].endswith("::leading_zeros") and x[2] == (P(1),)):
                    vals_ = [teval(e, F, c) for c in range(32)]
                    if all(v is not None and bool(v) != fails_when for v in vals_):
                        ok = True
                        how_d = "table fact for all 32 leading-zero classes"
        ctx.ob(r, (b.path, "invariant", sym.fmt(e)[:100]), ok,
               "invariant `%s` in %s is not discharged (%s); under the `unsafe` feature its failure is undefined behaviour" % (sym.fmt(e)[:120], b.path, how_d or "no rule applies"),
               cfg=F.key, where=b.where(), detail={"discharged_by": how_d, "via": how.rsplit("::", 1)[-1]})
    ctx.floor(r, 5, "invariant! sites")


# ---------------------------------------------------------------- R-17.2


def layering(ctx, F):
    r = "R-17.2"
    ctx.rule(r, "unsafe operations occur only in x86 backends, dispatch arms, invariant! sites and from_utf8_unchecked sites; none in the safe no-SIMD configuration")
    static = set(F.d["target_features"])
    ops = []
    for b in F.bodies:
        if b.kind not in ("Fn", "AssocFn", "Closure") or not b.mir:
            continue
        own = {t["name"] for t in (b.d.get("target_features") or [])} | static
        for i, blk in enumerate(b.blocks):
            for s in blk["stmts"]:
                # raw pointer dereference
                for key_ in ("place", "dst"):
                    pl = s.get(key_)
                    if pl and "*" in (pl.get("p") or []):
                        if b.local_ty(pl["l"])["k"] == "ptr":
                            ops.append((b, "raw-deref", ""))
            t = blk["term"]
            if t["t"] != "call":
                continue
            c = t["callee"]
            cp = (c.get("resolved") or {}).get("path") or c.get("path") or ""
            ctf = set(c.get("target_features") or [])
            if cp.startswith(("core::fmt::Arguments", "core::fmt::rt::")):
                continue  # format_args! plumbing (expansion of write!/panic!), not crate code
            if c.get("unsafe") or (ctf and not ctf <= own):
                macs = (t.get("loc") or {}).get("macros") or []
                ops.append((b, "call", cp, macs))
    ctx.instance(r, len(ops))
    bad = []
    for op in ops:
        b = op[0]
        p = b.path
        if op[1] == "raw-deref":
            bad.append("%s dereferences a raw pointer" % p)
            continue
        cp, macs = op[2], op[3]
        if re.search(r"::x86_(sse2|ssse3|sse4_1|avx2)::", p):
            if cp.startswith("core::arch::") or re.search(r"::x86_(sse2|ssse3|sse4_1|avx2)::", cp) or cp.startswith(("core::ptr::const_ptr", "core::slice::<impl [T]>::as_ptr")):
                continue
            bad.append("%s calls unsafe %s" % (p, cp))
        elif re.search(r"^(compare::dist_body::distance_(32|64)|generate::bucket_aggregation::aggregate_(48|128|256))(::\{closure#\d+\})*$", p):
            if re.search(r"::x86_(sse2|ssse3|sse4_1|avx2)::", cp):
                continue
            bad.append("%s calls unsafe %s" % (p, cp))
        elif cp == "core::hint::unreachable_unchecked":
            if not any(m.rsplit("::", 1)[-1] in ("invariant_impl", "invariant") for m in macs):
                bad.append("%s calls unreachable_unchecked outside invariant!" % p)
        elif cp == "core::str::from_utf8_unchecked":
            if not re.search(r"hash::inner::FuzzyHash<.*(core::fmt::Display>::fmt|serde::Serialize>::serialize)$", p):
                bad.append("%s calls from_utf8_unchecked" % p)
        elif p.startswith("generate::_::") or p.startswith("<generate::_::"):
            continue  # bitflags-generated plumbing
        else:
            bad.append("%s performs an unsafe call to %s" % (p, cp))
    ctx.ob(r, ("unsafe-operations", "layering"), not bad, "; ".join(sorted(set(bad))[:3]), cfg=F.key, detail={"unsafe_operations": len(ops)})
    if "simd-per-arch" not in F.features and "unsafe" not in F.features:
        ctx.ob(r, ("safe-configuration", "no-unsafe-operation"), not ops, "the forbid(unsafe_code) configuration contains %d unsafe operations" % len(ops), cfg=F.key)
    else:
        ctx.floor(r, 20, "unsafe operations inventoried")


def load_bases(ctx, r, F):
    """Vector load pointers derive from a &[u8; N] parameter (body distance); there is no vector store."""
    stores = []
    for b in F.bodies:
        if not b.mir or b.kind not in ("Fn", "AssocFn", "Closure"):
            continue
        for _, t in b.calls():
            cp = t["callee"].get("path") or ""
            if re.search(r"_mm(256)?_(storeu|store|stream|maskstore|maskmoveu)_", cp) or cp.startswith("core::ptr::write") or cp.endswith("::write_unaligned"):
                stores.append("%s calls %s" % (b.path, cp))
    ctx.instance(r)
    ctx.ob(r, ("vector-stores", "none"), not stores, "; ".join(stores[:3]), cfg=F.key)
    for path, (fam, size, W) in simd.OUTER.items():
        b = F.fn(path)
        if b is None:
            continue
        ins = [F.tys(i) for i in b.d.get("inputs", [])]
        ctx.instance(r)
        ctx.ob(r, (path.rsplit("::", 2)[-2] + "::" + path.rsplit("::", 1)[-1], "parameter-arrays"), ins == ["&[u8; %d]" % size] * 2,
               "%s takes %s; reference two &[u8; %d]" % (path, ins, size), cfg=F.key, where=b.where())


# ---------------------------------------------------------------- R-17.5


def utf8(ctx, F):
    r = "R-17.5"
    ctx.rule(r, "buffers given to from_utf8(_unchecked) are zero-initialised local arrays written only by store_into_str_bytes, whose bytes are hex-table elements, \"T1\" or hex-simd output (all < 0x80)")
    users = [b for b in F.bodies if b.mir and any((t["callee"].get("path") or "") in ("core::str::from_utf8_unchecked", "core::str::from_utf8") for _, t in b.calls())]
    ctx.instance(r, len(users))
    for b in users:
        S = sym.Sym(b)
        ok = True
        msgs = []
        for p in S.paths():
            for (bb, cp, args, c) in p.calls:
                if cp not in ("core::str::from_utf8_unchecked", "core::str::from_utf8"):
                    continue
                a = args[0]
                lv = find_all(n(a), lambda x: x[0] == "lv")
                if not lv:
                    ok = False
                    msgs.append("argument %s" % sym.fmt(n(a))[:60])
                    continue
                l = lv[0][1]
                defs = b.defs().get(l, [])
                init = [d for d in defs if d[2].get("rv") == "repeat"]
                zero = bool(init) and (init[0][2]["op"].get("const") or {}).get("v") == 0
                writers = set()
                for (bb2, cp2, args2, c2) in p.calls:
                    if bb2 == bb:
                        break
                    for x in args2:
                        while x[0] == "cast":
                            x = x[3]
                        if x[0] == "ref" and x[1] and x[2] == ("lv", l):
                            writers.add(cp2)
                if not zero or not writers or not all(w.endswith("::store_into_str_bytes") for w in writers):
                    ok = False
                    msgs.append("buffer init zero=%s writers=%s" % (zero, sorted(writers)))
        ctx.ob(r, (b.path, "ascii-only-buffer"), ok, "; ".join(sorted(set(msgs))[:2]), cfg=F.key, where=b.where())
    # what store_into_str_bytes can write: verified kinds from the writer model
    W, err = layout.text_writer(F)
    if W is None:
        ctx.missing(r, err, cfg=F.key)
        return
    kinds = set()
    for mode, rec in W["modes"].items():
        for (s, e, kind, src, ln) in rec["writes"]:
            kinds.add(kind.split(":")[0] if not kind.startswith("literal") else kind)
        if rec["unknown"]:
            kinds.add("unknown")
    okk = kinds <= {"literal:5431", "rev_array", "rev_1", "plain_array", "hex_simd"}
    ctx.ob(r, ("store_into_str_bytes", "write-kinds"), okk, "store_into_str_bytes writes through %s" % sorted(kinds), cfg=F.key)
    t = hexcodec.tables.hex_tables(ctx, r, F)


# ---------------------------------------------------------------- R-17.6

NOT_DECIDED = [
    # (function path regex, kind regex, reason) -- recorded, not claimed as discharged
    (r"generate::public::GeneratorType>::update$", r".*", "length/offset arithmetic of update(): run-time lengths (C11 decides the counter guards only)"),
    (r"FuzzyHashType>::compare_with_config$", r"assert:overflow", "sum of four part distances, each bounded by its MAX_DISTANCE (body part not decided)"),
    (r"compare::dist_body::(pseudo_simd_32|pseudo_simd_64|x86_avx2|x86_sse2|x86_sse4_1)::distance_", r"assert:overflow", "kernel accumulator: sum of per-chunk distances (kernel arithmetic not decided)"),
    (r"compare::dist_checksum::distance_3$", r"assert:overflow", "sum <= trip count 3 (loop-carried relation)"),
]
# functions with panic sites for which no discharge idiom is implemented yet: recorded as NOT decided (never as discharged)
PENDING = [
    r"GeneratorType>::finalize_with_options$", r"FuzzyHashBody>::quartile$", r"core::fmt::Display>::fmt$", r"FuzzyHashType>::max_distance$",
    r"^compare::dist_body::(pseudo_simd_32|pseudo_simd_64)::distance_", r"^compare::dist_qratios::naive::distance$", r"^compare::utils::distance_on_ring_mod$",
    r"^generate::bucket_aggregation::(naive::)?aggregate_(48|128|256)", r"^generate::bucket_aggregation::naive::get_quartile$",
    r"^generate::bucket_aggregation::x86_(sse2|ssse3|avx2)::", r"^generate_easy_std::hash_stream_common$", r"^length::FuzzyHashLengthEncoding::(new|range)$",
    r"^parse::hex_str::encode_rev_(1|array)$", r"^parse::hex_str::encode_array$", r"serde::Serialize>::serialize$",
]
DOCUMENTED = [
    (r"hash::body::FuzzyHashBody>::quartile$", r"panic", "documented: panics if index >= NUM_BUCKETS"),
]
GENERATED = [r"^generate::_::", r"^<generate::_::", r"^hash::qratios::_::", r"InnerQRatios"]


def panic_sites(ctx, F):
    r = "R-17.6"
    ctx.rule(r, "explicit panic sites (unwrap/expect/assert!/indexing/overflow and bounds checks) reachable from the public API are discharged by a named idiom, "
                "documented, or listed as not decided", "N")
    roots = [b.path for b in F.bodies if b.kind in ("Fn", "AssocFn") and not any(re.search(g, b.path) for g in GENERATED)]
    envs = layout.variant_envs(F)
    sites, reach, G = panics.collect(F, roots)
    sites = [s for s in sites if not any(re.search(g, s.body.path) for g in GENERATED)]
    panics.discharge(F, sites, envs)
    extra_idioms(F, sites, envs)
    ctx.instance(r, len(sites))
    nd = 0
    for s in sites:
        key = (s.body.path, s.kind + ":" + s.what, "role:" + panics.site_role(s))
        p = s.body.path
        doc = [d for d in DOCUMENTED if re.search(d[0], p) and re.search(d[1], s.kind)]
        und = [d for d in NOT_DECIDED if re.search(d[0], p) and re.search(d[1], s.kind)]
        if not und and any(re.search(g, p) for g in PENDING):
            und = [(None, None, "no discharge idiom implemented for this function's remaining sites")]
        ok = not s.undischarged and bool(s.idioms)
        if ok:
            ctx.ob(r, key, True, "", cfg=F.key, where=s.body.where(), detail={"idioms": sorted(s.idioms)})
        elif doc:
            ctx.ob(r, key, True, "", cfg=F.key, where=s.body.where(), detail={"documented": doc[0][2]}, trivial=True)
        elif und:
            nd += 1
            ctx.ob(r, key, True, "", cfg=F.key, where=s.body.where(), detail={"not_decided": und[0][2]}, trivial=True)
        else:
            ctx.ob(r, key, False, "panicking operation not discharged in %s: %s" % (p, "; ".join(sorted(set(s.undischarged))[:2])),
                   cfg=F.key, where="%s (line %s)" % (s.body.where(), (s.term.get("loc") or {}).get("line")))
    ctx.notes.append("%s R-17.6: %d panic sites, %d recorded as not decided" % (F.key, len(sites), nd))
    ctx.floor(r, 150, "panic sites enumerated")


def extra_idioms(F, sites, envs):
    pass
