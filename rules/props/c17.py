"""C17 -- the safe API is total and memory-safe in every configuration."""
import re

from .. import sym, callgraph
from ..norm import n, P, C, V, ANY, match, find_all, binop
from . import common, cmpmodel, layout, panics, simd, hexcodec, c11

# per-architecture backend modules: the only places where vector intrinsics / raw pointer arithmetic may appear
BACKEND_MODS = r"::(x86_(sse2|ssse3|sse4_1|avx2)|arm_neon|wasm32_simd128)::"

ID = "C17"
CONFIGS = {"quick": ["K0", "K7", "K8", "K13", "K17"], "thorough": ["K0", "K1", "K2", "K5", "K6", "K7", "K8", "K11", "K13", "K14a", "K14b", "K14c", "K16", "K17", "K19", "K20"]}
FIXTURES = {"panic", "taint"}
META = {
    "explanation": (
        "Static analysis of everything that can cause undefined behaviour or a panic.  Undefined behaviour can only "
        "originate in an unsafe operation, and the crate has few, of five kinds; each kind has a rule and an unsafe "
        "operation of an unlisted kind or place is itself a violation (layering).  Decided: every invariant! (the sites "
        "that become unreachable_unchecked under `unsafe`) is discharged from constants, from the length tables over all "
        "32 leading-zero classes, or from const-generic arithmetic for the five variants, and none depends on the result of "
        "a caller-supplied trait implementation (this rule found the repaired defect F3); unsafe operations occur only in "
        "the x86 backends, the dispatch arms, the invariant sites and the two from_utf8_unchecked sites (none at all in the "
        "no-SIMD safe configuration); every target_feature function is called only under a dominating detection or static "
        "feature set implying the features of its whole callee tree; vector loads cover exactly the borrowed arrays / an "
        "asserted chunk; the buffers handed to from_utf8_unchecked can only contain table bytes < 0x80, \"T1\" or hex-simd "
        "output.  Explicit panic sites (unwrap/expect/assert!/indexing/overflow checks) reachable from the public API are "
        "enumerated (about 250 per configuration) and discharged by named idioms -- interval reasoning over the dominating "
        "comparisons, linear relational reasoning, constant folding for the five variants, iterator chunk lengths, "
        "preconditions checked at every call site, the select_nth post-condition -- including all 26 sites inside "
        "Generator::update; the documented quartile index assertion and the clean slice panic on a misreporting reader are "
        "listed as documented.  Accumulators are discharged too: a counter incremented at most once per cycle of a loop with a "
        "statically bounded trip count (iterator over arrays / `while i < K`), the per-chunk sums of the scalar body-distance "
        "kernels (kernel result <= 24 per byte, from the lane table R-02.5 decides, times the chunk count), small pure crate "
        "functions by exact evaluation over the product of their argument ranges, and the sum in compare_with_config from the "
        "part maxima (decided by R-02.6 / R-08.1-3 / R-08.6).  The final scalar additions of extracted vector lanes in the x86 "
        "backends and one debug-only closure assertion are listed as NOT decided (never as discharged)."
    ),
    "trusted_base": ["rustc nightly front end, constant evaluator, target-feature implication lists", "core/std/hex-simd are free of UB", "core::arch intrinsics are sound when their target features are available",
                     "core::slice::select_nth_unstable post-condition (left <= pivot <= right)"],
    "assumptions": ["analysed targets: x86_64, aarch64 (NEON backend), i686, wasm32 (simd128 backend); code behind `unstable` (core::intrinsics::assume, portable SIMD, 32-bit Arm) does not compile with the installed nightly and is not analysed"],
    "not_decided": ["overflow checks on the final scalar additions of extracted vector lanes in the x86 body-distance backends (the lane values are bounded by R-02.5's lane analysis, which the interval reasoning does not see through the intrinsics)",
                    "the debug-only q1<=q2<=q3 assertion inside naive::get_quartile (closure capture not traced; same condition discharged at the dispatcher)"],
}
TECHNIQUE = "unsafe-operation inventory and layering, invariant discharge by constant folding over finite class domains, taint from foreign trait calls, feature-implication dominance, panic-site idiom discharge"


def run(ctx, FS):
    for key, F in FS.items():
        invariants(ctx, F)
        layering(ctx, F)
        r = "R-17.3"
        ctx.rule(r, "no #[target_feature] function (or intrinsic) is executed unless its features are implied by a dominating detection or the static feature set")
        simd.dispatch(ctx, r, F)
        r = "R-17.4"
        ctx.rule(r, "vector loads stay inside the borrowed array / the asserted chunk; no raw-pointer store exists")
        simd.outer_loads(ctx, r, F)
        simd.agg_kernels(ctx, r, F)
        load_bases(ctx, r, F)
        utf8(ctx, F)
        panic_sites(ctx, F)


# ---------------------------------------------------------------- R-17.1


def teval(e, F, clz):
    """Constant folding of a table fact for one leading-zero class."""
    k = e[0]
    if k == "const":
        return e[1]
    if k == "call" and e[1].endswith("::leading_zeros"):
        return clz
    if k == "bin":
        a, b = teval(e[2], F, clz), teval(e[3], F, clz)
        if a is None or b is None:
            return None
        return {"Add": lambda: a + b, "Sub": lambda: a - b, "Le": lambda: int(a <= b), "Lt": lambda: int(a < b), "Eq": lambda: int(a == b)}.get(e[1], lambda: None)()
    if k == "index" and e[1][0] == "table":
        arr = table_values(F, e[1][1])
        i = teval(e[2], F, clz)
        if arr is None or i is None or not (0 <= i < len(arr)):
            return None
        return arr[i]
    if (k == "call" and e[1].endswith("::len")) or k == "len":
        x = e[2][0] if k == "call" else e[1]
        if x[0] == "ref":
            x = x[1]
        if x[0] == "table":
            arr = table_values(F, x[1])
            return len(arr) if arr is not None else None
    return None


def table_values(F, path):
    c = F.consts.get(path)
    if not c:
        return None
    t = F.ty(c["ty"])
    es = {"u8": 1, "u16": 2, "u32": 4, "usize": F.usize_bytes}.get(F.tys(t["elem"])) if t["k"] == "array" else None
    return F.const_array(path, es) if es else None


def foreign_trait_calls(b, e):
    """Raw call nodes inside e whose callee is a foreign trait method on a type parameter."""
    out = []

    def rec(x):
        if isinstance(x, tuple):
            if x and x[0] == "call" and isinstance(x[1], int):
                c = b.blocks[x[1]]["term"]["callee"]
                st = b.f.ty(c.get("self_ty")) if c.get("self_ty") is not None else None
                if c.get("trait") and c.get("trait_krate") != "tlsh" and st is not None and st["k"] in ("param", "alias") and not c.get("resolved"):
                    out.append(c["path"])
            for y in x[1:] if (x and isinstance(x[0], str)) else x:
                rec(y)
        elif isinstance(x, list):
            for y in x:
                rec(y)

    rec(e)
    return out


def classify_invariant(F, b, S, p, d, fails_when, envs):
    """(discharged?, how) for one invariant condition d (raw) on path p."""
    e = n(d)
    tainted = foreign_trait_calls(b, d)
    if tainted:
        return False, "fed by caller-supplied %s" % tainted[0]
    env_list = [env for _, env in (envs or [])]
    raws = [d]
    tyof = panics.tyof_factory(S, b, panics.build_tymap(S, raws))
    B = panics.Bounds(S, p, p.conds[-1][0])
    panics.LENOF[0] = lambda x, env: panics._slen(F, b, x, B, env, tyof)
    vs = [panics.cond_truth(e, panics.B0(), tyof, env) for env in env_list]
    if env_list and all(v is not None and v != fails_when for v in vs):
        return True, "constant for all five variants"
    nonzero = any(n(c[1]) == binop("Eq", C(0), P(1)) and ((c[2] == 0) if c[3] == [0] else False) for c in p.conds[:-1])
    if nonzero and find_all(e, lambda x: x[0] == "call" and x[1].endswith("::leading_zeros") and x[2] == (P(1),)):
        vals_ = [teval(e, F, c) for c in range(32)]
        if all(v is not None and bool(v) != fails_when for v in vals_):
            return True, "table fact for all 32 leading-zero classes"
    return False, None


def invariants(ctx, F):
    r = "R-17.1"
    ctx.rule(r, "every invariant! is discharged from constants / tables / const-generic arithmetic and none is fed by a caller-supplied trait implementation")
    unsafe_cfg = "unsafe" in F.features
    envs = layout.variant_envs(F)
    gen = F.impl_consts("generate::inner::Generator<")
    sites = []
    folded = []
    for b in F.bodies:
        if b.kind not in ("Fn", "AssocFn", "Closure") or not b.mir:
            continue
        # candidate: function with a terminator expanded from the invariant macro
        has = False
        for blk in b.blocks:
            macs = (blk["term"].get("loc") or {}).get("macros") or []
            if any(m.rsplit("::", 1)[-1] in ("invariant_impl", "invariant") for m in macs):
                has = True
        if unsafe_cfg:
            has = has or any((t["callee"].get("path") or "") == "core::hint::unreachable_unchecked" for _, t in b.calls())
        if not has:
            continue
        S = sym.Sym(b)
        # failure blocks of invariant! expansions (diverging calls carrying the macro in their backtrace)
        inv_blocks = set()
        for i, blk in enumerate(b.blocks):
            t = blk["term"]
            macs = (t.get("loc") or {}).get("macros") or []
            if t["t"] == "call" and t.get("target") is None and (
                    any(m.rsplit("::", 1)[-1] in ("invariant_impl", "invariant") for m in macs)
                    or (unsafe_cfg and (t["callee"].get("path") or "") == "core::hint::unreachable_unchecked")):
                inv_blocks.add(i)
        reached = set()
        all_paths = S.paths()
        for p in all_paths:
            reached |= set(p.blocks) & inv_blocks
        for i in sorted(inv_blocks - reached):
            # the walk folded the invariant's condition: crate constants make it true for every variant (constfold.py)
            folded.append((b, i))
        for p in all_paths:
            if p.end != "diverge" and p.end != "unreachable":
                continue
            last = p.calls[-1] if p.calls else None
            if last is None:
                continue
            term = b.blocks[last[0]]["term"]
            macs = (term.get("loc") or {}).get("macros") or []
            is_inv = any(m.rsplit("::", 1)[-1] in ("invariant_impl", "invariant") for m in macs)
            if unsafe_cfg and last[1] == "core::hint::unreachable_unchecked":
                is_inv = True
            if not is_inv or not p.conds:
                continue
            (bb, d, taken, vals) = p.conds[-1]
            sites.append((b, S, p, d, taken, vals, last[1]))
    seen_keys = set()
    for (b, S, p, d, taken, vals, how) in sites:
        e = n(d)
        fails_when = (taken == "otherwise") if vals == [0] else bool(taken)  # the value of the condition on the failing path
        key = (b.path, sym.fmt(e)[:120])
        if key in seen_keys:
            continue
        seen_keys.add(key)
        ctx.instance(r)
        ok, how_d = classify_invariant(F, b, S, p, d, fails_when, envs)
        if not ok and b.path.endswith("core::convert::TryFrom<&[u8; SIZE_IN_BYTES]>>::try_from") and "hash::inner::FuzzyHash<" in b.path:
            # the array parser was replayed by the evaluation-based reader model (rmodel) for every variant and every validity outcome:
            # a failing invariant would have been a feasible diverging path, and the model is only available without one
            RB = layout.binary_reader_evaluated(F)
            if RB is not None and RB["body"].path == b.path and not any("panic" in x for x in RB["bad"]):
                ok, how_d = True, "holds-on-every-evaluated-path-of-the-array-parser"
        ctx.ob(r, (b.path, "invariant", sym.fmt(e)[:100]), ok,
               "invariant `%s` in %s is not discharged (%s); under the `unsafe` feature its failure is undefined behaviour" % (sym.fmt(e)[:120], b.path, how_d or "no rule applies"),
               cfg=F.key, where=b.where(), detail={"discharged_by": how_d, "via": how.rsplit("::", 1)[-1]})
    per_fn = {}
    for (b, i) in folded:
        k_ = per_fn.get(b.path, 0)
        per_fn[b.path] = k_ + 1
        ctx.instance(r)
        ctx.ob(r, (b.path, "invariant", "decided-by-constants#%d" % k_), True, "", cfg=F.key, where=b.where(),
               detail={"discharged_by": "the condition is built from crate constants only and is true for every variant; the failing arm is unreachable"})
    ctx.floor(r, 5, "invariant! sites")


# ---------------------------------------------------------------- R-17.2


def layering(ctx, F):
    r = "R-17.2"
    ctx.rule(r, "unsafe operations occur only in x86 backends, dispatch arms, invariant! sites and from_utf8_unchecked sites; none in the safe no-SIMD configuration")
    static = set(F.d["target_features"])
    ops = []
    for b in F.bodies:
        if b.kind not in ("Fn", "AssocFn", "Closure") or not b.mir:
            continue
        own = {t["name"] for t in (b.d.get("target_features") or [])} | static
        for i, blk in enumerate(b.blocks):
            for s in blk["stmts"]:
                # raw pointer dereference
                for key_ in ("place", "dst"):
                    pl = s.get(key_)
                    if pl and "*" in (pl.get("p") or []):
                        if b.local_ty(pl["l"])["k"] == "ptr":
                            ops.append((b, "raw-deref", ""))
            t = blk["term"]
            if t["t"] != "call":
                continue
            c = t["callee"]
            cp = (c.get("resolved") or {}).get("path") or c.get("path") or ""
            ctf = set(c.get("target_features") or [])
            if cp.startswith(("core::fmt::Arguments", "core::fmt::rt::")):
                continue  # format_args! plumbing (expansion of write!/panic!), not crate code
            if c.get("unsafe") or (ctf and not ctf <= own):
                macs = (t.get("loc") or {}).get("macros") or []
                ops.append((b, "call", cp, macs))
    ctx.instance(r, len(ops))
    bad = []
    raw_ok = {}
    envs_ = layout.variant_envs(F)
    for op in ops:
        b = op[0]
        p = b.path
        if op[1] == "raw-deref":
            bad.append("%s dereferences a raw pointer" % p)
            continue
        cp, macs = op[2], op[3]
        if re.search(BACKEND_MODS, p):
            if cp.startswith("core::arch::") or re.search(BACKEND_MODS, cp) or cp.startswith(("core::ptr::const_ptr", "core::slice::<impl [T]>::as_ptr")):
                continue
            bad.append("%s calls unsafe %s" % (p, cp))
        elif re.search(r"^(compare::dist_body::distance_(32|64)|generate::bucket_aggregation::aggregate_(48|128|256))(::\{closure#\d+\})*$", p):
            if re.search(BACKEND_MODS, cp):
                continue
            bad.append("%s calls unsafe %s" % (p, cp))
        elif cp == "core::hint::unreachable_unchecked":
            if not any(m.rsplit("::", 1)[-1] in ("invariant_impl", "invariant") for m in macs):
                bad.append("%s calls unreachable_unchecked outside invariant!" % p)
        elif cp == "core::str::from_utf8_unchecked":
            if not re.search(r"hash::inner::FuzzyHash<.*(core::fmt::Display>::fmt|serde::Serialize>::serialize)$", p):
                bad.append("%s calls from_utf8_unchecked" % p)
        elif p.startswith("generate::_::") or p.startswith("<generate::_::"):
            continue  # bitflags-generated plumbing
        elif cp.startswith(("core::ptr::const_ptr::<impl *const T>::add", "core::ptr::mut_ptr::<impl *mut T>::add", "core::ptr::copy_nonoverlapping", "core::intrinsics::copy_nonoverlapping")):
            # raw element copies outside the backends are accepted only when both windows are proven inside their slices
            if b.path not in raw_ok:
                raw_ok[b.path] = raw_copies_in_bounds(F, b, envs_)
            if raw_ok[b.path] is not None:
                bad.append("%s: %s" % (p, raw_ok[b.path]))
        else:
            bad.append("%s performs an unsafe call to %s" % (p, cp))
    ctx.ob(r, ("unsafe-operations", "layering"), not bad, "; ".join(sorted(set(bad))[:3]), cfg=F.key, detail={"unsafe_operations": len(ops)})
    if "simd-per-arch" not in F.features and "unsafe" not in F.features:
        ctx.ob(r, ("safe-configuration", "no-unsafe-operation"), not ops, "the forbid(unsafe_code) configuration contains %d unsafe operations" % len(ops), cfg=F.key)
    else:
        ctx.floor(r, 20, "unsafe operations inventoried")


def raw_copies_in_bounds(F, b, envs):
    """None if every ptr::copy_nonoverlapping(src, dst, n) in b reads n elements inside the slice src points into and writes n
    elements inside the slice dst points into (u8 elements), and every pointer add feeds only such a copy; else a description."""
    S = sym.Sym(b)
    try:
        paths = S.paths()
    except sym.PathLimit:
        return "too many paths"
    SLEN = "core::slice::<impl [T]>::len"

    def ptr(e):
        off = C(0)
        while True:
            if e[0] == "cast":
                e = e[3]
            elif e[0] == "call" and len(e[2]) == 2 and e[1].endswith(("::add",)):
                off = layout.add(off, e[2][1])
                e = e[2][0]
            elif e[0] == "call" and len(e[2]) == 1 and e[1].endswith(("::as_ptr", "::as_mut_ptr")):
                return e[2][0], off
            else:
                return None, None

    n_copies = 0
    for p in paths:
        for (bb, cp, args, c) in p.calls:
            if not cp.endswith("copy_nonoverlapping"):
                continue
            n_copies += 1
            a = [panics.pn(S, x) for x in args]
            (sb, so), (db, do) = ptr(a[0]), ptr(a[1])
            if sb is None or db is None:
                return "raw copy with an unrecognised pointer: %s" % sym.fmt(n(args[0]))[:80]
            for base, off, what in ((sb, so, "source"), (db, do, "destination")):
                ln = panics.symlen(F, b, base, (envs or [(None, None)])[0][1])
                if ln is None:
                    ln = ("call", SLEN, (base,))
                if not panics.prove_le(F, S, b, p, bb, ("bin", "Add", off, a[2]), ln, envs):
                    return "raw copy of %s elements at %s offset %s is not proven inside its slice" % (sym.fmt(a[2]), what, sym.fmt(off))
    if n_copies == 0:
        return "pointer arithmetic without a recognised copy"
    return None


def load_bases(ctx, r, F):
    """Vector load pointers derive from a &[u8; N] parameter (body distance); there is no vector store."""
    stores = []
    for b in F.bodies:
        if not b.mir or b.kind not in ("Fn", "AssocFn", "Closure"):
            continue
        for _, t in b.calls():
            cp = t["callee"].get("path") or ""
            if re.search(r"_mm(256)?_(storeu|store|stream|maskstore|maskmoveu)_|::vst\d|::v128_store", cp) or cp.startswith("core::ptr::write") or cp.endswith("::write_unaligned"):
                stores.append("%s calls %s" % (b.path, cp))
    ctx.instance(r)
    ctx.ob(r, ("vector-stores", "none"), not stores, "; ".join(stores[:3]), cfg=F.key)
    for path, (fam, size, W) in simd.OUTER.items():
        b = F.fn(path)
        if b is None:
            continue
        ins = [F.tys(i) for i in b.d.get("inputs", [])]
        ctx.instance(r)
        ctx.ob(r, (path.rsplit("::", 2)[-2] + "::" + path.rsplit("::", 1)[-1], "parameter-arrays"), ins == ["&[u8; %d]" % size] * 2,
               "%s takes %s; reference two &[u8; %d]" % (path, ins, size), cfg=F.key, where=b.where())


# ---------------------------------------------------------------- R-17.5


def utf8(ctx, F):
    r = "R-17.5"
    ctx.rule(r, "buffers given to from_utf8(_unchecked) are zero-initialised local arrays written only by store_into_str_bytes, whose bytes are hex-table elements, \"T1\" or hex-simd output (all < 0x80)")
    users = [b for b in F.bodies if b.mir and any((t["callee"].get("path") or "") in ("core::str::from_utf8_unchecked", "core::str::from_utf8") for _, t in b.calls())]
    ctx.instance(r, len(users))
    for b in users:
        S = sym.Sym(b)
        ok = True
        msgs = []
        for p in S.paths():
            for (bb, cp, args, c) in p.calls:
                if cp not in ("core::str::from_utf8_unchecked", "core::str::from_utf8"):
                    continue
                a = args[0]
                lv = find_all(n(a), lambda x: x[0] == "lv")
                if not lv:
                    ok = False
                    msgs.append("argument %s" % sym.fmt(n(a))[:60])
                    continue
                l = lv[0][1]
                defs = b.defs().get(l, [])
                init = [d for d in defs if d[2].get("rv") == "repeat"]
                zero = bool(init) and (init[0][2]["op"].get("const") or {}).get("v") == 0
                writers = set()
                for (bb2, cp2, args2, c2) in p.calls:
                    if bb2 == bb:
                        break
                    for x in args2:
                        while x[0] == "cast":
                            x = x[3]
                        if x[0] == "ref" and x[1] and x[2] == ("lv", l):
                            writers.add(cp2)
                if not zero or not writers or not all(w.endswith("::store_into_str_bytes") for w in writers):
                    ok = False
                    msgs.append("buffer init zero=%s writers=%s" % (zero, sorted(writers)))
        ctx.ob(r, (b.path, "ascii-only-buffer"), ok, "; ".join(sorted(set(msgs))[:2]), cfg=F.key, where=b.where())
    # what store_into_str_bytes can write: verified kinds from the writer model
    W, err = layout.text_writer(F)
    if W is None:
        ctx.missing(r, err, cfg=F.key)
        return
    kinds = set()
    for mode, rec in [(m_, r_) for m_, r0_ in W["modes"].items() for r_ in [r0_] + r0_.get("alts", [])]:
        for (s, e, kind, src, ln) in rec["writes"]:
            if kind.startswith("literal"):
                # constant bytes: must be ASCII
                hx = kind.split(":", 1)[1]
                kinds.add("literal" if all(int(hx[j:j + 2], 16) < 0x80 for j in range(0, len(hx), 2)) else "literal-non-ascii")
            else:
                kinds.add(kind.split(":")[0])
        if rec["unknown"]:
            kinds.add("unknown")
    okk = kinds <= {"literal", "rev_array", "rev_1", "plain_array", "hex_simd"}
    ctx.ob(r, ("store_into_str_bytes", "write-kinds"), okk, "store_into_str_bytes writes through %s" % sorted(kinds), cfg=F.key)
    t = hexcodec.tables.hex_tables(ctx, r, F)


# ---------------------------------------------------------------- R-17.6

NOT_DECIDED = [
    # (function path regex, kind regex, reason) -- recorded, never claimed as discharged
    (r"^compare::dist_body::(x86_avx2|x86_sse2|x86_sse4_1)::distance_", r"assert:overflow", "final scalar additions of extracted vector lanes (the lane values are bounded by R-02.5's lane analysis, not re-derived here)"),
    (r"^generate::bucket_aggregation::naive::get_quartile$", r"panic", "debug-only assertion q1<=q2<=q3 behind a closure capture; the same condition is discharged at the dispatcher (select_nth post-condition)"),
]
DOCUMENTED = [
    (r"hash::body::FuzzyHashBody>::quartile$", r"panic", "documented: panics if index >= NUM_BUCKETS"),
    (r"^generate_easy_std::hash_stream_common$", r"index", "a reader that misreports its length causes a clean slice-index panic (explicitly allowed by the property)"),
]
GENERATED = [r"^generate::_::", r"^<generate::_::", r"^hash::qratios::_::", r"InnerQRatios"]


def _part_maxima(F):
    body = F.impl_consts("hash::body::FuzzyHashBodyData<", "hash::body::FuzzyHashBody")
    ck = F.impl_consts("hash::checksum::FuzzyHashChecksumData<", "hash::checksum::FuzzyHashChecksum")
    q = F.impl_consts("hash::qratios::FuzzyHashQRatios").get("hash::qratios::FuzzyHashQRatios", {}).get("MAX_DISTANCE")
    l = F.impl_consts("length::FuzzyHashLengthEncoding").get("length::FuzzyHashLengthEncoding", {}).get("MAX_DISTANCE")
    bm = [v.get("MAX_DISTANCE") for v in body.values()]
    cm = [v.get("MAX_DISTANCE") for v in ck.values()]
    vals = bm + cm + [q, l]
    if not bm or not cm or any(not isinstance(v, int) or v < 0 or v >= (1 << 28) for v in vals):
        return None
    return {"hash::body::FuzzyHashBody::compare": (0, max(bm)), "hash::checksum::FuzzyHashChecksum::compare": (0, max(cm)),
            "hash::qratios::FuzzyHashQRatios::compare": (0, q), "length::FuzzyHashLengthEncoding::compare": (0, l)}


def panic_sites(ctx, F):
    r = "R-17.6"
    ctx.rule(r, "explicit panic sites (unwrap/expect/assert!/indexing/overflow and bounds checks) reachable from the public API are discharged by a named idiom, "
                "documented, or listed as not decided", "N")
    # roots: every function a user of the crate can name or reach through a public type/trait (the compiler's effective
    # visibility); everything they call at run time is followed (constant initialisers are not: they run in the compiler)
    roots = [b.path for b in F.bodies if b.kind in ("Fn", "AssocFn") and b.d.get("reachable") and not any(re.search(g, b.path) for g in GENERATED)]
    envs = layout.variant_envs(F)
    # value ranges of the scalar body-distance kernels, from the facts R-02.5 decides (tail shape + per-byte lane table)
    from . import simd
    panics.RET_SUMMARY[0] = {k_: (0, v_) for k_, v_ in simd.scalar_kernel_return_max(F).items()}
    # value ranges of the four part distances: the published MAX_DISTANCE constants, which R-02.6 / R-08.1 / R-08.2 / R-08.6 decide
    # to be the true maxima of the parts (table maxima on the full domain, count of unequal checksum bytes, 24 per body byte)
    pm = _part_maxima(F)
    if pm:
        panics.RET_SUMMARY[0].update(pm)
        ctx.notes.append("%s R-17.6: the sum in compare_with_config is discharged from the part maxima %s (decided by C02 R-02.6 / C08 R-08.1-3, R-08.6)" % (F.key, {k_.rsplit("::", 2)[-2]: v_[1] for k_, v_ in pm.items()}))
    sites, reach, G = panics.collect(F, roots)
    panics.RUNTIME_REACH[0] = set(reach)
    sites = [s for s in sites if not any(re.search(g, s.body.path) for g in GENERATED)]
    panics.discharge(F, sites, envs)
    extra_idioms(F, sites, envs)
    ctx.instance(r, len(sites))
    nd = 0
    for s in sites:
        key = (s.body.path, s.kind + ":" + s.what, "role:" + panics.site_role(s))
        p = s.body.path
        doc = [d for d in DOCUMENTED if re.search(d[0], p) and re.search(d[1], s.kind)]
        und = [d for d in NOT_DECIDED if re.search(d[0], p) and re.search(d[1], s.kind)]
        ok = not s.undischarged and bool(s.idioms)
        if ok:
            ctx.ob(r, key, True, "", cfg=F.key, where=s.body.where(), detail={"idioms": sorted(s.idioms)})
        elif doc:
            ctx.ob(r, key, True, "", cfg=F.key, where=s.body.where(), detail={"documented": doc[0][2]}, trivial=True)
        elif und:
            nd += 1
            ctx.ob(r, key, True, "", cfg=F.key, where=s.body.where(), detail={"not_decided": und[0][2]}, trivial=True)
        else:
            ctx.ob(r, key, False, "panicking operation not discharged in %s: %s" % (p, "; ".join(sorted(set(s.undischarged))[:2])),
                   cfg=F.key, where="%s (line %s)" % (s.body.where(), (s.term.get("loc") or {}).get("line")))
    ctx.notes.append("%s R-17.6: %d panic sites, %d recorded as not decided" % (F.key, len(sites), nd))
    ctx.floor(r, 150, "panic sites enumerated")


def extra_idioms(F, sites, envs):
    """Property-specific discharges that rest on other rules of this framework (each named)."""
    G = callgraph.CallGraph(F)
    panics.preconditions(F, G, sites, envs)
    env_list = [e for _, e in (envs or [])]
    unwrap_ok = None
    for s in sites:
        if not s.undischarged:
            continue
        b = s.body
        p_ = b.path
        t = s.term
        macs = (t.get("loc") or {}).get("macros") or []
        S = sym.Sym(b)
        # (1) debug_assert expansions of invariant!: discharged by the R-17.1 classification
        if s.kind == "panic" and any(m.rsplit("::", 1)[-1] in ("invariant_impl", "invariant") for m in macs):
            ok_all = True
            seen = False
            for p in S.paths():
                if s.bb not in p.blocks or not p.conds:
                    continue
                seen = True
                (bb, d, taken, vals) = p.conds[-1]
                fails_when = (taken == "otherwise") if vals == [0] else bool(taken)
                ok, how = classify_invariant(F, b, S, p, d, fails_when, envs)
                ok_all = ok_all and ok
            if seen and ok_all:
                s.undischarged = []
                s.idioms.add("invariant-discharged (R-17.1)")
            continue
        if re.search(r"^length::FuzzyHashLengthEncoding::new$", p_) and s.kind == "index":
            # (2) T[bottom..top]: bottom <= top <= len(T) for all 32 leading-zero classes
            ok_all = True
            seen = False
            for p in S.paths():
                for c in p.calls:
                    if c[0] != s.bb:
                        continue
                    seen = True
                    a = [n(x) for x in c[2]]
                    rng = a[1]
                    base_len = teval(("len", a[0]), F, 0)
                    if rng[0] != "agg" or not rng[1].endswith("Range::Range") or base_len is None:
                        ok_all = False
                        continue
                    for clz in range(32):
                        lo, hi = teval(rng[2][0], F, clz), teval(rng[2][1], F, clz)
                        if lo is None or hi is None or not (0 <= lo <= hi <= base_len):
                            ok_all = False
            if seen and ok_all:
                s.undischarged = []
                s.idioms.add("table-window for all 32 leading-zero classes")
            continue
        if re.search(r"GeneratorType>::finalize_with_options$", p_):
            if s.kind == "unwrap":
                for p in S.paths():
                    for c in p.calls:
                        if c[0] == s.bb:
                            a0 = n(c[2][0])
                            if a0[0] == "call" and a0[1] == "length::FuzzyHashLengthEncoding::new":
                                if unwrap_ok is None:
                                    unwrap_ok = c11.encoder_unwrap_ok(F)
                                if unwrap_ok:
                                    s.undischarged = []
                                    s.idioms.add("dominated-option (R-11.2)")
            if s.kind == "call" and s.what == "select_nth_unstable":
                ok_all = bool(env_list)
                seen = False
                for p in S.paths():
                    for c in p.calls:
                        if c[0] != s.bb:
                            continue
                        seen = True
                        a = [n(x) for x in c[2]]
                        for env in env_list:
                            L = select_len(F, b, a[0], env)
                            r_ = layout.ceval(a[1], env)
                            if L is None or r_ is None or not (0 <= r_ < L):
                                ok_all = False
                if seen and ok_all:
                    s.undischarged = []
                    s.idioms.add("select-rank-in-range")
            continue
        if re.search(r"hash::inner::FuzzyHash<.*(core::fmt::Display>::fmt|serde::Serialize>::serialize)$", p_) and s.kind == "unwrap":
            for p in S.paths():
                for c in p.calls:
                    if c[0] != s.bb:
                        continue
                    a0 = n(c[2][0])
                    if a0[0] == "call" and a0[1].endswith(("::store_into_str_bytes", "::store_into_bytes")):
                        if gated_buffer_ok(F, b, a0, envs):
                            s.undischarged = []
                            s.idioms.add("gated-buffer (R-14.1): local buffer at least the gated size for every variant")
                    elif a0[0] == "call" and a0[1] == "core::str::from_utf8":
                        if utf8_buffer_ok(F, b):
                            s.undischarged = []
                            s.idioms.add("ascii-only-buffer (R-17.5)")


def select_len(F, b, e, env):
    """Length of the slice a select_nth_unstable is applied to, following its post-condition (left, pivot, right)."""
    SEL = "core::slice::<impl [T]>::select_nth_unstable"
    if e[0] == "ref" and e[1][0] in ("lv", "mutated"):
        l = e[1][1] if e[1][0] == "lv" else (e[1][1][1] if isinstance(e[1][1], tuple) else e[1][1])
        return panics.local_array_len(F, b, l, env)
    if e[0] == "field" and e[1][0] == "call" and e[1][1] == SEL:
        inner = e[1]
        L = select_len(F, b, inner[2][0], env)
        r_ = layout.ceval(inner[2][1], env)
        if L is None or r_ is None:
            return None
        return r_ if e[2] == 0 else (L - r_ - 1 if e[2] == 2 else None)
    return None


def gated_buffer_ok(F, b, call, envs):
    """store_into_*(self, &mut buf, [WithVersion]) with buf a local array at least as long as the callee's gate constant."""
    lv = find_all(call, lambda x: x[0] == "lv" or (x[0] == "mutated"))
    loc = None
    for x in lv:
        if x[0] == "lv":
            loc = x[1]
        elif x[0] == "mutated":
            loc = x[1][1] if isinstance(x[1], tuple) else x[1]
    if loc is None:
        return False
    text = call[1].endswith("::store_into_str_bytes")
    if text:
        if len(call[2]) != 3 or call[2][2] != ("agg", "adt:hash::HexStringPrefix::WithVersion", ()):
            return False
    W, err = (layout.text_writer(F) if text else layout.binary_writer(F))
    if W is None:
        return False
    if text:
        rec = W["errs"].get("WithVersion")
        gate = rec["gate"][0] if rec and rec["gate"] else None
        only_gate = rec is not None and rec["writes"] == 0 and set(W["errs"]) == {"Empty", "WithVersion"}
    else:
        gate = W["err"]["gate"][0] if W["err"] and W["err"]["gate"] else None
        only_gate = W["err"] is not None and not W["err"]["writes"]
    if gate is None or not only_gate:
        return False
    for _, env in (envs or []):
        L = panics.local_array_len(F, b, loc, env)
        K = layout.ceval(gate, env)
        if L is None or K is None or L < K:
            return False
    return bool(envs)


def utf8_buffer_ok(F, b):
    S = sym.Sym(b)
    for p in S.paths():
        for (bb, cp, args, c) in p.calls:
            if cp != "core::str::from_utf8":
                continue
            lv = find_all(n(args[0]), lambda x: x[0] == "lv")
            if not lv:
                return False
            l = lv[0][1]
            init = [d for d in b.defs().get(l, []) if d[2].get("rv") == "repeat"]
            zero = bool(init) and (init[0][2]["op"].get("const") or {}).get("v") == 0
            writers = set()
            for (bb2, cp2, args2, c2) in p.calls:
                if bb2 == bb:
                    break
                for x in args2:
                    while x[0] == "cast":
                        x = x[3]
                    if x[0] == "ref" and x[1] and x[2] == ("lv", l):
                        writers.add(cp2)
            if not zero or not writers or not all(w.endswith("::store_into_str_bytes") for w in writers):
                return False
    W, err = layout.text_writer(F)
    if W is None:
        return False
    for mode, rec in [(m_, r_) for m_, r0_ in W["modes"].items() for r_ in [r0_] + r0_.get("alts", [])]:
        if rec["unknown"]:
            return False
        for (s_, e_, kind, src, ln) in rec["writes"]:
            if kind.startswith("literal"):
                hx = kind.split(":", 1)[1]
                if not all(int(hx[j:j + 2], 16) < 0x80 for j in range(0, len(hx), 2)):
                    return False
                continue
            if not (kind in ("rev_array", "rev_1", "plain_array") or kind.startswith("hex_simd")):
                return False
    enc = F.const_bytes("parse::hex_str::HEX_UPPER_NIBBLE_TABLE")
    return enc is not None and all(x < 0x80 for x in enc)
