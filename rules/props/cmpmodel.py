"""Rules about comparison code shared by C02 / C08 / C13."""
from .. import sym, tables
from ..norm import n, P, C, V, ANY, match, call, binop, idx, table, find_all
from . import common

RING = "compare::utils::distance_on_ring_mod"


def ret_paths(b):
    return [p for p in sym.Sym(b).paths() if p.end == "return"]


def single_ret(F, path):
    b = F.fn(path)
    if b is None:
        return None, None
    ps = ret_paths(b)
    return b, (n(ps[0].ret) if len(ps) == 1 else None)


def terms(e):
    """Flatten nested Add into a list of terms."""
    if e[0] == "bin" and e[1] == "Add":
        return terms(e[2]) + terms(e[3])
    return [e]


def decision(b, ignore_diverging=True):
    """[(frozenset of (cond, truth)), ret] for returning paths; conditions normalised;
    truth is True/False for boolean switches, the raw value otherwise."""
    out = []
    for p in sym.Sym(b).paths():
        if p.end != "return":
            continue
        cs = []
        for (_, d, taken, vals) in p.conds:
            if vals == [0]:
                cs.append((n(d), taken == "otherwise"))
            else:
                cs.append((n(d), taken))
        out.append((cs, n(p.ret)))
    return out


# ---------------------------------------------------------------- Q ratios


def qratio_distance(ctx, r, F):
    qt = tables.qdist_tables(ctx, r, F)
    b, got = single_ret(F, "compare::dist_qratios::distance")
    ctx.instance(r)
    if b is None:
        ctx.missing(r, "compare::dist_qratios::distance", cfg=F.key)
        return qt
    if "opt-dist-qratios-table-double" in F.features:
        T = table("compare::dist_qratios::QDIST_VALUE_2")
        want = [idx(idx(T, P(1)), P(2)), idx(idx(T, P(2)), P(1))]
        what = "QDIST_VALUE_2[q1][q2]"
    elif "opt-dist-qratios-table" in F.features:
        T = table("compare::dist_qratios::QDIST_VALUE")
        lo = lambda p: binop("BitAnd", C(15), P(p))
        hi = lambda p: ("bin", "Shr", P(p), C(4))
        a = idx(idx(T, lo(1)), lo(2))
        bb = idx(idx(T, hi(1)), hi(2))
        a2 = idx(idx(T, lo(2)), lo(1))
        b2 = idx(idx(T, hi(2)), hi(1))
        want = [binop("Add", x, y) for x in (a, a2) for y in (bb, b2)]
        what = "QDIST_VALUE[lo1][lo2] + QDIST_VALUE[hi1][hi2]"
    else:
        want = [call("compare::dist_qratios::naive::distance", P(1), P(2)), call("compare::dist_qratios::naive::distance", P(2), P(1))]
        what = "naive::distance(q1,q2)"
    ctx.ob(r, ("dist_qratios::distance", "index-shape"), got in want,
           "dist_qratios::distance computes %s; reference %s" % (sym.fmt(got) if got else got, what), cfg=F.key, where=b.where())
    naive_qratio(ctx, r, F)
    return qt


def naive_qratio(ctx, r, F):
    """naive::distance / naive::sub_distance shapes (these are what the table initialisers call and
    what table-less configurations run)."""
    b, got = single_ret(F, "compare::dist_qratios::naive::distance")
    if b is not None:
        SD = "compare::dist_qratios::naive::sub_distance"
        lo = lambda p: binop("BitAnd", C(15), P(p))
        hi = lambda p: ("bin", "Shr", P(p), C(4))
        ts = sorted(map(repr, terms(got))) if got else None
        wants = [sorted(map(repr, [call(SD, lo(a), lo(b2)), call(SD, hi(a), hi(b2))])) for a, b2 in ((1, 2), (2, 1))]
        ctx.instance(r)
        ctx.ob(r, ("dist_qratios::naive::distance", "shape"), ts in wants,
               "naive::distance computes %s; reference sub(lo1,lo2)+sub(hi1,hi2)" % (sym.fmt(got) if got else got), cfg=F.key, where=b.where())
    b = F.fn("compare::dist_qratios::naive::sub_distance")
    ctx.instance(r)
    if b is None:
        ctx.missing(r, "compare::dist_qratios::naive::sub_distance", cfg=F.key)
        return
    ring_rule(ctx, r, F, b, "dist_qratios::naive::sub_distance", 16, minus_one=True)


def ring_rule(ctx, r, F, b, name, modulus, minus_one):
    """d = ring(p1,p2,modulus); d <= 1 -> d ; else (d-1)*12 or d*12."""
    dec = decision(b)
    d1 = call(RING, P(1), P(2), C(modulus))
    d2 = call(RING, P(2), P(1), C(modulus))
    ok = False
    for d in (d1, d2):
        small = binop("Le", d, C(1))
        body = binop("Mul", ("bin", "Sub", d, C(1)) if minus_one else d, C(12))
        want = sorted([repr(([(small, True)], d)), repr(([(small, False)], body))])
        got = sorted(repr((cs, ret)) for cs, ret in dec)
        if got == want:
            ok = True
    ctx.ob(r, (name, "rule"), ok,
           "%s is %s; reference d=ring_mod_%d(a,b); d<=1 ? d : %s*12" % (
               name, [([(sym.fmt(c), t) for c, t in cs], sym.fmt(ret)) for cs, ret in dec], modulus, "(d-1)" if minus_one else "d"),
           cfg=F.key, where=b.where())


def ring_shape(ctx, r, F):
    """distance_on_ring_mod: min(dl, dr) with the reference wrapping expressions."""
    b = F.fn(RING)
    ctx.instance(r)
    if b is None:
        ctx.missing(r, RING, cfg=F.key)
        return
    ws = lambda a, c: call("core::num::<impl u8>::wrapping_sub", a, c)
    wa = lambda a, c: call("core::num::<impl u8>::wrapping_add", a, c)
    x, y, m = P(1), P(2), P(3)
    ge = binop("Le", y, x)  # x >= y
    A_dl, A_dr = ws(x, y), ws(wa(y, m), x)
    B_dl, B_dr = ws(wa(x, m), y), ws(y, x)
    want = set()
    for cond_truth, dl, dr in ((True, A_dl, A_dr), (False, B_dl, B_dr)):
        le = binop("Le", dl, dr)
        want.add(repr((((ge, cond_truth), (le, True)), dl)))
        want.add(repr((((ge, cond_truth), (le, False)), dr)))
    got = set()
    for cs, ret in decision(b):
        # drop the debug_assert conditions (n == 0 || x < n)
        core = tuple((c, t) for c, t in cs if not (c[0] == "bin" and (c[1] == "Eq" and C(0) in (c[2], c[3]) or (c[1] == "Lt" and c[3] == m))))
        got.add(repr((core, ret)))
    ctx.ob(r, ("distance_on_ring_mod", "shape"), got == want,
           "distance_on_ring_mod does not have the reference shape min(x-y, y+n-x) / min(x+n-y, y-x) (wrapping)", cfg=F.key, where=b.where())


# ---------------------------------------------------------------- length


def length_distance(ctx, r, F):
    lt = tables.ldist_table(ctx, r, F)
    b, got = single_ret(F, "compare::dist_length::distance")
    ctx.instance(r)
    if b is None:
        ctx.missing(r, "compare::dist_length::distance", cfg=F.key)
        return lt
    if "opt-dist-length-table" in F.features:
        T = table("compare::dist_length::LDIST_VALUE")
        ws = lambda a, c: call("core::num::<impl u8>::wrapping_sub", P(a), P(c))
        want = [idx(T, ws(1, 2)), idx(T, ws(2, 1))]
        what = "LDIST_VALUE[l1 wrapping_sub l2]"
    else:
        want = [call("compare::dist_length::naive::distance", P(1), P(2)), call("compare::dist_length::naive::distance", P(2), P(1))]
        what = "naive::distance(l1,l2)"
    ctx.ob(r, ("dist_length::distance", "index-shape"), got in want,
           "dist_length::distance computes %s; reference %s" % (sym.fmt(got) if got else got, what), cfg=F.key, where=b.where())
    nb = F.fn("compare::dist_length::naive::distance")
    if nb is not None:
        ctx.instance(r)
        ring_rule(ctx, r, F, nb, "dist_length::naive::distance", 0, minus_one=False)
    return lt


# ---------------------------------------------------------------- checksum


def checksum_distance(ctx, r, F):
    b = F.fn("compare::dist_checksum::distance_1")
    ctx.instance(r)
    if b is None:
        ctx.missing(r, "distance_1", cfg=F.key)
    else:
        ne = [binop("Ne", idx(P(1), C(0)), idx(P(2), C(0)))]
        got = sorted(repr(x) for x in decision(b))
        want = sorted(repr(x) for x in [([(ne[0], True)], C(1)), ([(ne[0], False)], C(0))])
        ctx.ob(r, ("distance_1", "shape"), got == want, "distance_1 is not `c1[0] != c2[0] ? 1 : 0`", cfg=F.key, where=b.where())
    b = F.fn("compare::dist_checksum::distance_3")
    ctx.instance(r)
    if b is None:
        ctx.missing(r, "distance_3", cfg=F.key)
        return
    S = sym.Sym(b)
    first = S.paths()
    loops = [p for p in first if p.end == "loop"]
    ok = False
    msg = "loop not recognised"
    if loops:
        hdr = loops[0].blocks[-1]
        # initial values at the header
        pre = [p for p in S.paths(stop_at={hdr}) if p.end == "stop"]
        step = S.paths(entry=hdr)
        back = [p for p in step if p.end == "loop"]
        outp = [p for p in step if p.end == "return"]
        if len(pre) == 1 and len(back) == 2 and len(outp) == 1:
            env0 = pre[0].env["locals"]
            # loop-carried locals: those whose value changes on a back path
            carried = set()
            for p in back:
                for l, v in p.env["locals"].items():
                    if v != ("local", l) and _mentions_local(v, l):
                        carried.add(l)
            inits = {l: n(env0.get(l, ("local", l))) for l in carried}
            ivar = [l for l in carried if all(n(p.env["locals"][l]) == binop("Add", ("local", l), C(1)) for p in back)]
            svar = [l for l in carried if l not in ivar]
            if len(ivar) == 1 and len(svar) == 1:
                i, s = ivar[0], svar[0]
                bound_ok = all(n(p.conds[0][1]) == binop("Lt", ("local", i), C(3)) for p in step)
                ne = binop("Ne", idx(P(1), ("local", i)), idx(P(2), ("local", i)))
                incs = {}
                for p in back:
                    c = [(n(d), taken == "otherwise") for (_, d, taken, vals) in p.conds][1:]
                    incs[repr(c)] = n(p.env["locals"][s])
                want = {repr([(ne, True)]): binop("Add", ("local", s), C(1)), repr([(ne, False)]): binop("Add", ("local", s), C(0))}
                ret_ok = n(outp[0].ret) == ("local", s)
                init_ok = inits[i] == C(0) and inits[s] == C(0)
                ok = bound_ok and incs == want and ret_ok and init_ok
                msg = "bound_ok=%s incs=%s ret_ok=%s init_ok=%s" % (bound_ok, {k: sym.fmt(v) for k, v in incs.items()}, ret_ok, init_ok)
    ctx.ob(r, ("distance_3", "shape"), ok,
           "distance_3 is not `sum over i in 0..3 of (c1[i] != c2[i])` (%s)" % msg, cfg=F.key, where=b.where())


def _mentions_local(e, l):
    return bool(find_all(e, lambda x: x == ("local", l)))


# ---------------------------------------------------------------- composition


def part_compares(ctx, r, F):
    """Each part's `compare` forwards (self, other) unswapped to its distance function."""
    # Q ratios
    b, got = single_ret(F, "hash::qratios::FuzzyHashQRatios::compare")
    ctx.instance(r)
    bits = lambda p: call("hash::qratios::InnerQRatios::into_bits", ("load", ("field", ("deref", P(p)), 0)))
    want = [call("compare::dist_qratios::distance", bits(1), bits(2)), call("compare::dist_qratios::distance", bits(2), bits(1))]
    ctx.ob(r, ("FuzzyHashQRatios::compare", "forwards"), got in want,
           "FuzzyHashQRatios::compare is %s" % (sym.fmt(got) if got else got), cfg=F.key, where=b.where() if b else None)
    b, got = single_ret(F, "length::FuzzyHashLengthEncoding::compare")
    ctx.instance(r)
    lv = lambda p: ("load", ("field", ("deref", P(p)), 0))
    want = [call("compare::dist_length::distance", lv(1), lv(2)), call("compare::dist_length::distance", lv(2), lv(1))]
    ctx.ob(r, ("FuzzyHashLengthEncoding::compare", "forwards"), got in want,
           "FuzzyHashLengthEncoding::compare is %s" % (sym.fmt(got) if got else got), cfg=F.key, where=b.where() if b else None)
    # body: size -> distance_N
    seen = 0
    for b in F.method("compare", "hash::body::FuzzyHashBodyData<", trait="hash::body::FuzzyHashBody"):
        size = F.tys(b.impl_info()["self_ty"]).split("<")[1].rstrip(">")
        ps = ret_paths(b)
        got = n(ps[0].ret) if len(ps) == 1 else None
        d = lambda p: ("ref", ("field", ("deref", P(p)), 0))
        fn = "compare::dist_body::distance_%s" % size
        want = [call(fn, d(1), d(2)), call(fn, d(2), d(1))]
        seen += 1
        ctx.instance(r)
        ctx.ob(r, ("FuzzyHashBodyData<%s>::compare" % size, "forwards"), got in want,
               "body compare for %s bytes is %s; reference %s(&self.data,&other.data)" % (size, sym.fmt(got) if got else got, fn), cfg=F.key, where=b.where())
    if seen < 3:
        ctx.missing(r, "three FuzzyHashBody::compare impls (found %d)" % seen, cfg=F.key)
    seen = 0
    for b in F.method("compare", "hash::checksum::FuzzyHashChecksumData<", trait="hash::checksum::FuzzyHashChecksum"):
        size = F.tys(b.impl_info()["self_ty"]).split("<")[1].split(",")[0]
        ps = ret_paths(b)
        got = n(ps[0].ret) if len(ps) == 1 else None
        d = lambda p: ("load", ("field", ("deref", P(p)), 0))
        fn = "compare::dist_checksum::distance_%s" % size
        want = [call(fn, d(1), d(2)), call(fn, d(2), d(1))]
        seen += 1
        ctx.instance(r)
        ctx.ob(r, ("FuzzyHashChecksumData<%s,_>::compare" % size, "forwards"), got in want,
               "checksum compare (%s bytes) is %s; reference %s(self.data, other.data)" % (size, sym.fmt(got) if got else got, fn), cfg=F.key, where=b.where())
    if seen < 2:
        ctx.missing(r, "two FuzzyHashChecksum::compare impls (found %d)" % seen, cfg=F.key)


PART_COMPARE = {
    "body": "hash::body::FuzzyHashBody::compare",
    "checksum": "hash::checksum::FuzzyHashChecksum::compare",
    "qratios": "hash::qratios::FuzzyHashQRatios::compare",
    "lvalue": "length::FuzzyHashLengthEncoding::compare",
}
PART_MAX = {
    "body": "hash::body::FuzzyHashBody::MAX_DISTANCE",
    "checksum": "hash::checksum::FuzzyHashChecksum::MAX_DISTANCE",
}


def composition(ctx, r, F):
    """compare_with_config = body + checksum + qratios + (Default ? length : 0), same-typed fields."""
    hf = common.hash_fields(F)
    modes = common.enum_variants(F, "compare::ComparisonConfiguration")
    bs = F.method("compare_with_config", "hash::inner::FuzzyHash<")
    ctx.instance(r)
    if len(bs) != 1 or not hf or not modes:
        ctx.missing(r, "inner FuzzyHash::compare_with_config / field layout / ComparisonConfiguration", cfg=F.key)
        return None
    b = bs[0]
    res = {}
    for cs, ret in decision(b):
        if len(cs) != 1 or cs[0][0] != ("discr", P(3)):
            ctx.missing(r, "compare_with_config branches on something other than the mode: %s" % [(sym.fmt(c), t) for c, t in cs], cfg=F.key)
            return None
        res[cs[0][1]] = ret
    names = {v: k for k, v in modes.items()}
    ok = True
    msgs = []
    for val, ret in res.items():
        mode = names.get(val, str(val))
        ts = terms(ret)
        want_parts = ["body", "checksum", "qratios"] + (["lvalue"] if mode == "Default" else [])
        got_parts = []
        zero = 0
        for t in ts:
            if t == C(0):
                zero += 1
                continue
            m = match(("call", V("fn"), (("ref", ("field", ("deref", P(1)), V("f"))), ("ref", ("field", ("deref", P(2)), V("f"))))), t) or \
                match(("call", V("fn"), (("ref", ("field", ("deref", P(2)), V("f"))), ("ref", ("field", ("deref", P(1)), V("f"))))), t)
            if not m:
                got_parts.append(("?", sym.fmt(t)))
                continue
            part = [k for k, v in hf.items() if v == m["f"]]
            part = part[0] if part else "?"
            if PART_COMPARE.get(part) != m["fn"]:
                got_parts.append((part, "wrong callee " + m["fn"]))
            else:
                got_parts.append(part)
        if sorted(map(str, got_parts)) != sorted(want_parts) or (mode == "NoLength" and zero != 1) or (mode == "Default" and zero != 0):
            ok = False
            msgs.append("mode %s: terms %s (+%d literal zero); reference %s" % (mode, got_parts, zero, want_parts))
    if sorted(names.get(v, v) for v in res) != ["Default", "NoLength"]:
        ok = False
        msgs.append("modes handled: %s" % sorted(res))
    ctx.ob(r, ("compare_with_config", "sum-of-parts"), ok, "; ".join(msgs), cfg=F.key, where=b.where())
    return res


def wrappers(ctx, r, F):
    """outer FuzzyHash::compare_with_config forwards; trait default compare uses Default."""
    modes = common.enum_variants(F, "compare::ComparisonConfiguration") or {}
    for b in F.method("compare_with_config", "hash::FuzzyHash<"):
        ps = ret_paths(b)
        got = n(ps[0].ret) if len(ps) == 1 else None
        want = ("call", "hash::public::FuzzyHashType::compare_with_config",
                (("ref", ("field", ("deref", P(1)), 0)), ("ref", ("field", ("deref", P(2)), 0)), P(3)))
        ctx.instance(r)
        ctx.ob(r, ("hash::FuzzyHash::compare_with_config", "forwards"), got == want,
               "outer compare_with_config is %s" % (sym.fmt(got) if got else got), cfg=F.key, where=b.where())
    b = F.fn("hash::public::FuzzyHashType::compare")
    ctx.instance(r)
    if b is None:
        ctx.missing(r, "FuzzyHashType::compare default method", cfg=F.key)
        return
    ps = ret_paths(b)
    got = n(ps[0].ret) if len(ps) == 1 else None
    m = match(("call", "hash::public::FuzzyHashType::compare_with_config", (V("a"), V("b"), ("agg", V("k"), ()))), got) if got else None
    ok = bool(m) and m["k"].endswith("ComparisonConfiguration::Default") and \
        {repr(m["a"]), repr(m["b"])} == {repr(P(1)), repr(P(2))}
    if m and not ok:
        # `&*self` may appear as the plain parameter
        ok = m["k"].endswith("ComparisonConfiguration::Default") and {repr(m["a"]), repr(m["b"])} <= {repr(P(1)), repr(P(2)), repr(P(1)), repr(P(2))}
    ctx.ob(r, ("FuzzyHashType::compare", "default-mode"), ok,
           "FuzzyHashType::compare is %s; reference compare_with_config(self, other, Default)" % (sym.fmt(got) if got else got), cfg=F.key, where=b.where())


def max_distance_mirror(ctx, r, F):
    """max_distance has the shape of compare_with_config with X::MAX_DISTANCE for x.compare(..)."""
    modes = common.enum_variants(F, "compare::ComparisonConfiguration") or {}
    names = {v: k for k, v in modes.items()}
    bs = F.method("max_distance", "hash::inner::FuzzyHash<")
    ctx.instance(r)
    if len(bs) != 1:
        ctx.missing(r, "inner FuzzyHash::max_distance", cfg=F.key)
        return
    b = bs[0]
    ok = True
    msgs = []
    seen = []
    for cs, ret in decision(b):
        if len(cs) != 1 or cs[0][0] != ("discr", P(1)):
            ok = False
            msgs.append("branches on %s" % [(sym.fmt(c), t) for c, t in cs])
            continue
        mode = names.get(cs[0][1], str(cs[0][1]))
        seen.append(mode)
        ts = sorted(map(repr, terms(ret)))
        want = [("cpath", PART_MAX["body"]), ("cpath", PART_MAX["checksum"]), C(168)] + ([C(1536)] if mode == "Default" else [C(0)])
        if ts != sorted(map(repr, want)):
            ok = False
            msgs.append("mode %s: %s; reference body MAX + checksum MAX + 168 + %s" % (mode, [sym.fmt(t) for t in terms(ret)], "1536" if mode == "Default" else "0"))
    if sorted(seen) != ["Default", "NoLength"]:
        ok = False
        msgs.append("modes %s" % seen)
    ctx.ob(r, ("max_distance", "mirrors-compare"), ok, "; ".join(msgs), cfg=F.key, where=b.where())
    # the callee of the two trait constants: self types
    # values per variant
    body = F.impl_consts("hash::body::FuzzyHashBodyData<", "hash::body::FuzzyHashBody")
    got = {k: v.get("MAX_DISTANCE") for k, v in body.items()}
    want = {"hash::body::FuzzyHashBodyData<12>": 288, "hash::body::FuzzyHashBodyData<32>": 768, "hash::body::FuzzyHashBodyData<64>": 1536}
    ctx.ob(r, ("FuzzyHashBody", "MAX_DISTANCE"), got == want, "body MAX_DISTANCE per size %s; reference 4*SIZE*6 = %s" % (got, want), cfg=F.key)
    ck = F.impl_consts("hash::checksum::FuzzyHashChecksumData<", "hash::checksum::FuzzyHashChecksum")
    bad = {k: v for k, v in ck.items() if v.get("MAX_DISTANCE") != v.get("SIZE") or str(v.get("SIZE")) != k.split("<")[1].split(",")[0]}
    ctx.ob(r, ("FuzzyHashChecksum", "MAX_DISTANCE"), not bad and len(ck) == 5, "checksum MAX_DISTANCE/SIZE per variant: %s" % ck, cfg=F.key)
    q = F.impl_consts("hash::qratios::FuzzyHashQRatios").get("hash::qratios::FuzzyHashQRatios", {}).get("MAX_DISTANCE")
    l = F.impl_consts("length::FuzzyHashLengthEncoding").get("length::FuzzyHashLengthEncoding", {}).get("MAX_DISTANCE")
    ctx.ob(r, ("parts", "MAX_DISTANCE"), q == 168 and l == 1536, "FuzzyHashQRatios::MAX_DISTANCE=%r FuzzyHashLengthEncoding::MAX_DISTANCE=%r; reference 168 / 1536" % (q, l), cfg=F.key)
    # outer wrapper
    for ob in F.method("max_distance", "hash::FuzzyHash<"):
        ps = ret_paths(ob)
        got = n(ps[0].ret) if len(ps) == 1 else None
        ctx.instance(r)
        ctx.ob(r, ("hash::FuzzyHash::max_distance", "forwards"),
               got == ("call", "hash::public::FuzzyHashType::max_distance", (P(1),)),
               "outer max_distance is %s" % (sym.fmt(got) if got else got), cfg=F.key, where=ob.where())
