"""Rules about comparison code shared by C02 / C08 / C13."""
from .. import sym, tables, evalx
from ..norm import n, P, C, V, ANY, match, call, binop, idx, table, find_all
from . import common, cfgdiff

RING = "compare::utils::distance_on_ring_mod"


# ---------------------------------------------------------------- full-domain evaluation of the small distance functions
#
# Each of these functions has a domain of at most 2^16 argument pairs.  Their MIR decision trees are evaluated (evalx) on the
# whole domain and compared with the reference definitions, so any equivalent way of writing them is accepted and any
# different function is reported with a witness.  Callees are replaced by their reference functions once the callee itself
# has been decided the same way (bottom-up: ring distance, then the sub-distances, then the sums).

def ring_ref(x, y, m):
    mod = 256 if m == 0 else m
    d = (x - y) % mod
    return min(d, mod - d)


def qsub_ref(a, b2):
    d = ring_ref(a, b2, 16)
    return d if d <= 1 else (d - 1) * 12


def qdist_ref(q1, q2):
    return qsub_ref(q1 & 15, q2 & 15) + qsub_ref(q1 >> 4, q2 >> 4)


def ldist_ref(l1, l2):
    d = ring_ref(l1, l2, 0)
    return d if d <= 1 else d * 12


_SEM = {}
_REF_CALLS = {
    RING: ring_ref,
    "compare::dist_qratios::naive::sub_distance": qsub_ref,
    "compare::dist_qratios::naive::distance": qdist_ref,
    "compare::dist_length::naive::distance": ldist_ref,
}


def _tabs_for(F):
    cache = {}

    def tabs(path):
        if path not in cache:
            c = F.consts.get(path)
            v = None
            if c:
                t = F.ty(c["ty"])
                if t["k"] == "array":
                    et = F.ty(t["elem"])
                    if et["k"] == "array":
                        es = {"u8": 1, "u16": 2, "u32": 4}.get(F.tys(et["elem"]))
                        v = F.const_array(path, es) if es else None
                    else:
                        es = {"u8": 1, "u16": 2, "u32": 4, "usize": F.usize_bytes}.get(F.tys(t["elem"]))
                        v = F.const_array(path, es) if es else None
            cache[path] = v
        return cache[path]

    return tabs


def _dims(F):
    out = {}
    for path, c in F.consts.items():
        t = F.ty(c["ty"])
        if t["k"] == "array":
            et = F.ty(t["elem"])
            if et["k"] == "array" and t["len"].get("k") == "val" and et["len"].get("k") == "val":
                out[path] = (t["len"]["v"], et["len"]["v"])
    return out


def full_domain(ctx, r, F, path, key, domain, ref, what, args3=None):
    """decide function `path` on `domain` (iterable of argument tuples) against ref(*args)"""
    b = F.fn(path)
    ctx.instance(r)
    if b is None:
        ctx.missing(r, path, cfg=F.key)
        return
    evalx.set_target(F)
    tabs = _tabs_for(F)
    used = sorted({x[1] for p in sym.Sym(b).paths() for e in [p.ret] + [d for (_, d, _, _) in p.conds] if e for x in find_all(e, lambda y: y[0] == "table")})
    sig = (path, cfgdiff.body_sig(F, b), tuple((t, hash(tuple(tabs(t) or ()))) for t in used), F.usize_bytes)
    if sig not in _SEM:
        S = sym.Sym(b)
        paths = S.paths()
        calls = {k: v for k, v in _REF_CALLS.items() if k != path}
        dims = _dims(F)
        why = None
        nbad = 0
        n_eval = 0
        try:
            for args in domain:
                n_eval += 1
                try:
                    got = evalx.run(S, F, paths, {"params": {i + 1: a for i, a in enumerate(args)}, "calls": calls, "dims": dims}, tabs)
                except evalx.Panics as ex:
                    got = "panic (%s)" % ex
                want = ref(*args)
                if got != want:
                    nbad += 1
                    if why is None:
                        why = "%s%s gives %s; reference %s" % (path.rsplit("::", 1)[-1], tuple(args), got, want)
        except evalx.Unknown as ex:
            why = "cannot evaluate: %s" % ex
        if why and nbad > 1:
            why += " (%d of %d arguments differ)" % (nbad, n_eval)
        _SEM[sig] = (why, n_eval)
    why, n_eval = _SEM[sig]
    ctx.ob(r, key, why is None, "%s: %s; reference %s on its whole domain" % (path, why, what), cfg=F.key, where=b.where(), detail={"arguments_evaluated": n_eval})


BYTES2 = [(a, b2) for a in range(256) for b2 in range(256)]
NIBBLES2 = [(a, b2) for a in range(16) for b2 in range(16)]
RING_DOMAIN = [(a, b2, 16) for a in range(16) for b2 in range(16)] + [(a, b2, 0) for a in range(256) for b2 in range(256)]


def ret_paths(b):
    return [p for p in sym.Sym(b).paths() if p.end == "return"]


def single_ret(F, path):
    b = F.fn(path)
    if b is None:
        return None, None
    ps = ret_paths(b)
    return b, (n(ps[0].ret) if len(ps) == 1 else None)


def terms(e):
    """Flatten nested Add into a list of terms."""
    if e[0] == "bin" and e[1] == "Add":
        return terms(e[2]) + terms(e[3])
    return [e]


def decision(b, ignore_diverging=True):
    """[(frozenset of (cond, truth)), ret] for returning paths; conditions normalised;
    truth is True/False for boolean switches, the raw value otherwise."""
    out = []
    for p in sym.Sym(b).paths():
        if p.end != "return":
            continue
        cs = []
        for (_, d, taken, vals) in p.conds:
            if vals == [0]:
                cs.append((n(d), taken == "otherwise"))
            else:
                cs.append((n(d), taken))
        out.append((cs, n(p.ret)))
    return out


# ---------------------------------------------------------------- Q ratios


def qratio_distance(ctx, r, F):
    qt = tables.qdist_tables(ctx, r, F)
    # the run-time entry point, whatever table configuration it uses
    full_domain(ctx, r, F, "compare::dist_qratios::distance", ("dist_qratios::distance", "index-shape"), BYTES2, qdist_ref,
                "sub(lo1,lo2) + sub(hi1,hi2), sub = ring distance mod 16 with d<=1 ? d : (d-1)*12")
    naive_qratio(ctx, r, F)
    return qt


def naive_qratio(ctx, r, F):
    """naive::distance / naive::sub_distance (what the table initialisers call and what table-less configurations run)."""
    if F.fn("compare::dist_qratios::naive::distance") is not None:
        full_domain(ctx, r, F, "compare::dist_qratios::naive::distance", ("dist_qratios::naive::distance", "shape"), BYTES2, qdist_ref,
                    "sub(lo1,lo2) + sub(hi1,hi2)")
    full_domain(ctx, r, F, "compare::dist_qratios::naive::sub_distance", ("dist_qratios::naive::sub_distance", "rule"), NIBBLES2, qsub_ref,
                "d = ring distance mod 16; d <= 1 ? d : (d-1)*12")


def ring_shape(ctx, r, F):
    """distance_on_ring_mod(x, y, n) = min((x-y) mod m, (y-x) mod m), m = n or 256 for n = 0 (on the two moduli the crate uses)."""
    full_domain(ctx, r, F, RING, ("distance_on_ring_mod", "shape"), RING_DOMAIN, ring_ref, "the ring distance for n = 16 (arguments < 16) and n = 0 (mod 256)")


# ---------------------------------------------------------------- length


def length_distance(ctx, r, F):
    lt = tables.ldist_table(ctx, r, F)
    full_domain(ctx, r, F, "compare::dist_length::distance", ("dist_length::distance", "index-shape"), BYTES2, ldist_ref,
                "d = ring distance mod 256; d <= 1 ? d : d*12")
    if F.fn("compare::dist_length::naive::distance") is not None:
        full_domain(ctx, r, F, "compare::dist_length::naive::distance", ("dist_length::naive::distance", "rule"), BYTES2, ldist_ref,
                    "d = ring distance mod 256; d <= 1 ? d : d*12")
    return lt


# ---------------------------------------------------------------- checksum


def _bool_function_count(F, b, nbytes):
    """For a loop-free function over (c1: &[u8; N], c2: &[u8; N]) whose only use of the bytes is in `c1[i] != c2[i]` / `==` comparisons
    of equal positions: evaluate it on the 2^N assignments of those comparisons (an exact abstract domain for such a function) and
    compare with the number of unequal positions.  Returns None if it is that count, else a description."""
    S = sym.Sym(b)
    paths = S.paths()
    if any(p.end == "loop" for p in paths):
        return "contains a loop"
    forms = lambda p_, i: (("load", ("index", ("deref", P(p_)), C(i))), ("index", P(p_), C(i)), ("load", ("index", P(p_), C(i))))
    cmp_nodes = {}
    exprs = []
    for p in paths:
        exprs += [d for (_, d, _, _) in p.conds]
        if p.ret is not None:
            exprs.append(p.ret)
    for e in exprs:
        ne = n(e)
        for x in find_all(ne, lambda y: y[0] == "bin" and y[1] in ("Eq", "Ne")):
            for i in range(nbytes):
                if (x[2] in forms(1, i) and x[3] in forms(2, i)) or (x[2] in forms(2, i) and x[3] in forms(1, i)):
                    cmp_nodes[x] = (i, x[1])
    if not cmp_nodes:
        return "no comparison of equal positions found"

    def strip(x):
        if x in cmp_nodes:
            return ("const", 0)
        if isinstance(x, tuple):
            return tuple(strip(y) if isinstance(y, tuple) else y for y in x)
        return x

    for e in exprs:
        rest = strip(n(e))
        if find_all(rest, lambda y: y in (P(1), P(2))):
            return "a checksum byte is used outside a same-position comparison: %s" % sym.fmt(rest)[:80]
    positions = sorted({i for i, _ in cmp_nodes.values()})
    if positions != list(range(nbytes)):
        return "positions compared: %s; reference all of 0..%d" % (positions, nbytes)
    evalx.set_target(F)
    for mask in range(1 << nbytes):
        sub = {}
        for node, (i, op) in cmp_nodes.items():
            differs = (mask >> i) & 1
            sub[node] = differs if op == "Ne" else 1 - differs
        try:
            got = evalx.run(S, F, paths, {"subst": sub})
        except (evalx.Unknown, evalx.Panics) as ex:
            return "cannot evaluate: %s" % ex
        want = bin(mask).count("1")
        if got != want:
            return "with positions %s unequal the result is %s; reference %d" % ([i for i in range(nbytes) if (mask >> i) & 1], got, want)
    return None


def checksum_distance(ctx, r, F):
    b = F.fn("compare::dist_checksum::distance_1")
    ctx.instance(r)
    if b is None:
        ctx.missing(r, "distance_1", cfg=F.key)
    else:
        ne = [binop("Ne", idx(P(1), C(0)), idx(P(2), C(0)))]
        got = sorted(repr(x) for x in decision(b))
        want = sorted(repr(x) for x in [([(ne[0], True)], C(1)), ([(ne[0], False)], C(0))])
        why1 = None if got == want else _bool_function_count(F, b, 1)
        ctx.ob(r, ("distance_1", "shape"), why1 is None, "distance_1 is not `c1[0] != c2[0] ? 1 : 0`: %s" % why1, cfg=F.key, where=b.where())
    b = F.fn("compare::dist_checksum::distance_3")
    ctx.instance(r)
    if b is None:
        ctx.missing(r, "distance_3", cfg=F.key)
        return
    S = sym.Sym(b)
    first = S.paths()
    loops = [p for p in first if p.end == "loop"]
    ok = False
    msg = "loop not recognised"
    if loops:
        hdr = loops[0].blocks[-1]
        # initial values at the header
        pre = [p for p in S.paths(stop_at={hdr}) if p.end == "stop"]
        step = S.paths(entry=hdr)
        back = [p for p in step if p.end == "loop"]
        outp = [p for p in step if p.end == "return"]
        if len(pre) == 1 and len(back) == 2 and len(outp) == 1:
            env0 = pre[0].env["locals"]
            # loop-carried locals: those whose value changes on a back path
            carried = set()
            for p in back:
                for l, v in p.env["locals"].items():
                    if v != ("local", l) and _mentions_local(v, l):
                        carried.add(l)
            inits = {l: n(env0.get(l, ("local", l))) for l in carried}
            ivar = [l for l in carried if all(n(p.env["locals"][l]) == binop("Add", ("local", l), C(1)) for p in back)]
            svar = [l for l in carried if l not in ivar]
            if len(ivar) == 1 and len(svar) == 1:
                i, s = ivar[0], svar[0]
                bound_ok = all(n(p.conds[0][1]) == binop("Lt", ("local", i), C(3)) for p in step)
                ne = binop("Ne", idx(P(1), ("local", i)), idx(P(2), ("local", i)))
                incs = {}
                for p in back:
                    c = [(n(d), taken == "otherwise") for (_, d, taken, vals) in p.conds][1:]
                    incs[repr(c)] = n(p.env["locals"][s])
                want = {repr([(ne, True)]): binop("Add", ("local", s), C(1)), repr([(ne, False)]): binop("Add", ("local", s), C(0))}
                ret_ok = n(outp[0].ret) == ("local", s)
                init_ok = inits[i] == C(0) and inits[s] == C(0)
                ok = bound_ok and incs == want and ret_ok and init_ok
                msg = "bound_ok=%s incs=%s ret_ok=%s init_ok=%s" % (bound_ok, {k: sym.fmt(v) for k, v in incs.items()}, ret_ok, init_ok)
    if not ok and not loops:
        # loop-free spelling (unrolled, `(a != b) as u32` terms, nested ifs ...): decide it as a function of the three comparisons
        why3 = _bool_function_count(F, b, 3)
        ok = why3 is None
        msg = why3
    ctx.ob(r, ("distance_3", "shape"), ok,
           "distance_3 is not `sum over i in 0..3 of (c1[i] != c2[i])` (%s)" % msg, cfg=F.key, where=b.where())


def _mentions_local(e, l):
    return bool(find_all(e, lambda x: x == ("local", l)))


# ---------------------------------------------------------------- composition


def part_compares(ctx, r, F):
    """Each part's `compare` forwards (self, other) unswapped to its distance function."""
    # Q ratios
    b, got = single_ret(F, "hash::qratios::FuzzyHashQRatios::compare")
    ctx.instance(r)
    bits = lambda p: call("hash::qratios::InnerQRatios::into_bits", ("load", ("field", ("deref", P(p)), 0)))
    want = [call("compare::dist_qratios::distance", bits(1), bits(2)), call("compare::dist_qratios::distance", bits(2), bits(1))]
    # the raw byte through the accessor value() (R-06.2 decides that value() is the raw byte) / the length accessor likewise below
    val = lambda p: call("hash::qratios::FuzzyHashQRatios::value", P(p))
    want += [call("compare::dist_qratios::distance", val(1), val(2)), call("compare::dist_qratios::distance", val(2), val(1))]
    ctx.ob(r, ("FuzzyHashQRatios::compare", "forwards"), got in want,
           "FuzzyHashQRatios::compare is %s" % (sym.fmt(got) if got else got), cfg=F.key, where=b.where() if b else None)
    b, got = single_ret(F, "length::FuzzyHashLengthEncoding::compare")
    ctx.instance(r)
    lv = lambda p: ("load", ("field", ("deref", P(p)), 0))
    want = [call("compare::dist_length::distance", lv(1), lv(2)), call("compare::dist_length::distance", lv(2), lv(1))]
    lval = lambda p: call("length::FuzzyHashLengthEncoding::value", P(p))
    want += [call("compare::dist_length::distance", lval(1), lval(2)), call("compare::dist_length::distance", lval(2), lval(1))]
    ctx.ob(r, ("FuzzyHashLengthEncoding::compare", "forwards"), got in want,
           "FuzzyHashLengthEncoding::compare is %s" % (sym.fmt(got) if got else got), cfg=F.key, where=b.where() if b else None)
    # body: size -> distance_N
    seen = 0
    for b in F.method("compare", "hash::body::FuzzyHashBodyData<", trait="hash::body::FuzzyHashBody"):
        size = F.tys(b.impl_info()["self_ty"]).split("<")[1].rstrip(">")
        ps = ret_paths(b)
        got = n(ps[0].ret) if len(ps) == 1 else None
        d = lambda p: ("ref", ("field", ("deref", P(p)), 0))
        fn = "compare::dist_body::distance_%s" % size
        want = [call(fn, d(1), d(2)), call(fn, d(2), d(1))]
        seen += 1
        ctx.instance(r)
        ctx.ob(r, ("FuzzyHashBodyData<%s>::compare" % size, "forwards"), got in want,
               "body compare for %s bytes is %s; reference %s(&self.data,&other.data)" % (size, sym.fmt(got) if got else got, fn), cfg=F.key, where=b.where())
    if seen < 3:
        ctx.missing(r, "three FuzzyHashBody::compare impls (found %d)" % seen, cfg=F.key)
    seen = 0
    for b in F.method("compare", "hash::checksum::FuzzyHashChecksumData<", trait="hash::checksum::FuzzyHashChecksum"):
        size = F.tys(b.impl_info()["self_ty"]).split("<")[1].split(",")[0]
        ps = ret_paths(b)
        got = n(ps[0].ret) if len(ps) == 1 else None
        d = lambda p: ("load", ("field", ("deref", P(p)), 0))
        fn = "compare::dist_checksum::distance_%s" % size
        want = [call(fn, d(1), d(2)), call(fn, d(2), d(1))]
        seen += 1
        ctx.instance(r)
        ctx.ob(r, ("FuzzyHashChecksumData<%s,_>::compare" % size, "forwards"), got in want,
               "checksum compare (%s bytes) is %s; reference %s(self.data, other.data)" % (size, sym.fmt(got) if got else got, fn), cfg=F.key, where=b.where())
    if seen < 2:
        ctx.missing(r, "two FuzzyHashChecksum::compare impls (found %d)" % seen, cfg=F.key)


PART_COMPARE = {
    "body": "hash::body::FuzzyHashBody::compare",
    "checksum": "hash::checksum::FuzzyHashChecksum::compare",
    "qratios": "hash::qratios::FuzzyHashQRatios::compare",
    "lvalue": "length::FuzzyHashLengthEncoding::compare",
}
PART_MAX = {
    "body": "hash::body::FuzzyHashBody::MAX_DISTANCE",
    "checksum": "hash::checksum::FuzzyHashChecksum::MAX_DISTANCE",
}


def composition(ctx, r, F):
    """compare_with_config = body + checksum + qratios + (Default ? length : 0), same-typed fields."""
    hf = common.hash_fields(F)
    modes = common.enum_variants(F, "compare::ComparisonConfiguration")
    bs = F.method("compare_with_config", "hash::inner::FuzzyHash<")
    ctx.instance(r)
    if len(bs) != 1 or not hf or not modes:
        ctx.missing(r, "inner FuzzyHash::compare_with_config / field layout / ComparisonConfiguration", cfg=F.key)
        return None
    b = bs[0]
    res = {}
    for cs, ret in decision(b):
        if len(cs) != 1 or cs[0][0] != ("discr", P(3)):
            ctx.missing(r, "compare_with_config branches on something other than the mode: %s" % [(sym.fmt(c), t) for c, t in cs], cfg=F.key)
            return None
        res[cs[0][1]] = ret
    names = {v: k for k, v in modes.items()}
    ok = True
    msgs = []
    for val, ret in res.items():
        mode = names.get(val, str(val))
        ts = terms(ret)
        want_parts = ["body", "checksum", "qratios"] + (["lvalue"] if mode == "Default" else [])
        got_parts = []
        zero = 0
        for t in ts:
            if t == C(0):
                zero += 1
                continue
            m = match(("call", V("fn"), (("ref", ("field", ("deref", P(1)), V("f"))), ("ref", ("field", ("deref", P(2)), V("f"))))), t) or \
                match(("call", V("fn"), (("ref", ("field", ("deref", P(2)), V("f"))), ("ref", ("field", ("deref", P(1)), V("f"))))), t)
            if not m:
                got_parts.append(("?", sym.fmt(t)))
                continue
            part = [k for k, v in hf.items() if v == m["f"]]
            part = part[0] if part else "?"
            if PART_COMPARE.get(part) != m["fn"]:
                got_parts.append((part, "wrong callee " + m["fn"]))
            else:
                got_parts.append(part)
        # (the NoLength sum is the three parts, with or without an explicit `+ 0` for the absent length term)
        if sorted(map(str, got_parts)) != sorted(want_parts) or (mode == "NoLength" and zero > 1) or (mode == "Default" and zero != 0):
            ok = False
            msgs.append("mode %s: terms %s (+%d literal zero); reference %s" % (mode, got_parts, zero, want_parts))
    if sorted(names.get(v, v) for v in res) != ["Default", "NoLength"]:
        ok = False
        msgs.append("modes handled: %s" % sorted(res))
    ctx.ob(r, ("compare_with_config", "sum-of-parts"), ok, "; ".join(msgs), cfg=F.key, where=b.where())
    return res


def wrappers(ctx, r, F):
    """outer FuzzyHash::compare_with_config forwards; trait default compare uses Default."""
    modes = common.enum_variants(F, "compare::ComparisonConfiguration") or {}
    for b in F.method("compare_with_config", "hash::FuzzyHash<"):
        ps = ret_paths(b)
        got = n(ps[0].ret) if len(ps) == 1 else None
        want = ("call", "hash::public::FuzzyHashType::compare_with_config",
                (("ref", ("field", ("deref", P(1)), 0)), ("ref", ("field", ("deref", P(2)), 0)), P(3)))
        ctx.instance(r)
        ctx.ob(r, ("hash::FuzzyHash::compare_with_config", "forwards"), got == want,
               "outer compare_with_config is %s" % (sym.fmt(got) if got else got), cfg=F.key, where=b.where())
    b = F.fn("hash::public::FuzzyHashType::compare")
    ctx.instance(r)
    if b is None:
        ctx.missing(r, "FuzzyHashType::compare default method", cfg=F.key)
        return
    ps = ret_paths(b)
    got = n(ps[0].ret) if len(ps) == 1 else None
    m = match(("call", "hash::public::FuzzyHashType::compare_with_config", (V("a"), V("b"), ("agg", V("k"), ()))), got) if got else None
    ok = bool(m) and m["k"].endswith("ComparisonConfiguration::Default") and \
        {repr(m["a"]), repr(m["b"])} == {repr(P(1)), repr(P(2))}
    if m and not ok:
        # `&*self` may appear as the plain parameter
        ok = m["k"].endswith("ComparisonConfiguration::Default") and {repr(m["a"]), repr(m["b"])} <= {repr(P(1)), repr(P(2)), repr(P(1)), repr(P(2))}
    ctx.ob(r, ("FuzzyHashType::compare", "default-mode"), ok,
           "FuzzyHashType::compare is %s; reference compare_with_config(self, other, Default)" % (sym.fmt(got) if got else got), cfg=F.key, where=b.where())


def max_distance_mirror(ctx, r, F):
    """max_distance has the shape of compare_with_config with X::MAX_DISTANCE for x.compare(..)."""
    modes = common.enum_variants(F, "compare::ComparisonConfiguration") or {}
    names = {v: k for k, v in modes.items()}
    bs = F.method("max_distance", "hash::inner::FuzzyHash<")
    ctx.instance(r)
    if len(bs) != 1:
        ctx.missing(r, "inner FuzzyHash::max_distance", cfg=F.key)
        return
    b = bs[0]
    ok = True
    msgs = []
    seen = []
    for cs, ret in decision(b):
        if len(cs) != 1 or cs[0][0] != ("discr", P(1)):
            ok = False
            msgs.append("branches on %s" % [(sym.fmt(c), t) for c, t in cs])
            continue
        mode = names.get(cs[0][1], str(cs[0][1]))
        seen.append(mode)
        ts = sorted(map(repr, terms(ret)))
        want = [("cpath", PART_MAX["body"]), ("cpath", PART_MAX["checksum"]), C(168)] + ([C(1536)] if mode == "Default" else [C(0)])
        if ts != sorted(map(repr, want)):
            ok = False
            msgs.append("mode %s: %s; reference body MAX + checksum MAX + 168 + %s" % (mode, [sym.fmt(t) for t in terms(ret)], "1536" if mode == "Default" else "0"))
    if sorted(seen) != ["Default", "NoLength"]:
        ok = False
        msgs.append("modes %s" % seen)
    ctx.ob(r, ("max_distance", "mirrors-compare"), ok, "; ".join(msgs), cfg=F.key, where=b.where())
    # the callee of the two trait constants: self types
    # values per variant
    body = F.impl_consts("hash::body::FuzzyHashBodyData<", "hash::body::FuzzyHashBody")
    got = {k: v.get("MAX_DISTANCE") for k, v in body.items()}
    want = {"hash::body::FuzzyHashBodyData<12>": 288, "hash::body::FuzzyHashBodyData<32>": 768, "hash::body::FuzzyHashBodyData<64>": 1536}
    ctx.ob(r, ("FuzzyHashBody", "MAX_DISTANCE"), got == want, "body MAX_DISTANCE per size %s; reference 4*SIZE*6 = %s" % (got, want), cfg=F.key)
    ck = F.impl_consts("hash::checksum::FuzzyHashChecksumData<", "hash::checksum::FuzzyHashChecksum")
    bad = {k: v for k, v in ck.items() if v.get("MAX_DISTANCE") != v.get("SIZE") or str(v.get("SIZE")) != k.split("<")[1].split(",")[0]}
    ctx.ob(r, ("FuzzyHashChecksum", "MAX_DISTANCE"), not bad and len(ck) == 5, "checksum MAX_DISTANCE/SIZE per variant: %s" % ck, cfg=F.key)
    q = F.impl_consts("hash::qratios::FuzzyHashQRatios").get("hash::qratios::FuzzyHashQRatios", {}).get("MAX_DISTANCE")
    l = F.impl_consts("length::FuzzyHashLengthEncoding").get("length::FuzzyHashLengthEncoding", {}).get("MAX_DISTANCE")
    ctx.ob(r, ("parts", "MAX_DISTANCE"), q == 168 and l == 1536, "FuzzyHashQRatios::MAX_DISTANCE=%r FuzzyHashLengthEncoding::MAX_DISTANCE=%r; reference 168 / 1536" % (q, l), cfg=F.key)
    # outer wrapper
    for ob in F.method("max_distance", "hash::FuzzyHash<"):
        ps = ret_paths(ob)
        got = n(ps[0].ret) if len(ps) == 1 else None
        ctx.instance(r)
        ctx.ob(r, ("hash::FuzzyHash::max_distance", "forwards"),
               got == ("call", "hash::public::FuzzyHashType::max_distance", (P(1),)),
               "outer max_distance is %s" % (sym.fmt(got) if got else got), cfg=F.key, where=ob.where())
