"""C16 -- serde: canonical encodings, lossless round trip, malformed input is an error."""
from .. import sym
from ..norm import n, P, C, V, ANY, match, find_all, binop
from . import layout, common, cmpmodel, panics

ID = "C16"
CONFIGS = {"quick": ["K10", "K11"], "thorough": ["K10", "K11", "K12", "K16"]}
FIXTURES = {"panic"}
META = {
    "explanation": (
        "Static analysis (MIR paths, call graph) of the Serialize/Deserialize impls and the two visitors in the serde "
        "configurations (with and without strict-parser, buffered, and with `unsafe`).  Decided: Serialize is the decision "
        "table is_human_readable() ? serialize_str(text produced by store_into_str_bytes(.., WithVersion) into a "
        "[u8; LEN_IN_STR] buffer) : serialize_bytes(bytes produced by store_into_bytes into a [u8; SIZE_IN_BYTES] buffer); "
        "Deserialize dispatches to deserialize_str/string with the string visitor or deserialize_bytes/byte_buf with the "
        "bytes visitor; the string visitor is from_str_bytes(v, None) with the parser error mapped to a serde error; the "
        "bytes visitor rejects any length other than SIZE_IN_BYTES with invalid_length and otherwise passes the result of "
        "TryFrom<&[u8]> through with its error mapped; neither visitor overrides any other visit_* method; and every "
        "unwrap/expect/panic/index reachable from Deserialize::deserialize or a visitor is discharged (an unwrap of a "
        "parse result that can fail in this configuration is a violation -- this rule found the repaired defect F1)."
    ),
    "trusted_base": ["rustc nightly front end", "serde's default Visitor methods return invalid_type errors", "serde format crates (JSON/CBOR/postcard) call the visitor methods as documented"],
    "assumptions": [],
    "not_decided": ["behaviour of third-party format crates"],
}
TECHNIQUE = "decision tables over MIR paths, unwrap-on-fallible rule over the call graph"


def run(ctx, FS):
    for key, F in FS.items():
        if "serde" not in F.features:
            continue
        switch(ctx, F)
        visitors(ctx, F)
        no_panic(ctx, F)


def impl_methods(F, self_prefix, trait):
    return [b for b in F.bodies if b.kind == "AssocFn" and (b.d.get("impl") or "").startswith("<" + self_prefix) and (" as " + trait) in (b.d.get("impl") or "")]


def switch(ctx, F):
    r = "R-16.1"
    ctx.rule(r, "representation switch: human-readable -> exact T1 text via store_into_str_bytes; otherwise exact binary via store_into_bytes; deserialize mirrors it")
    ser = [b for b in impl_methods(F, "hash::inner::FuzzyHash<", "serde::Serialize") if b.name == "serialize"]
    ctx.instance(r)
    if len(ser) != 1:
        ctx.missing(r, "Serialize for inner FuzzyHash", cfg=F.key)
    else:
        b = ser[0]
        S = sym.Sym(b)
        rets = [p for p in S.paths() if p.end == "return"]
        arms = {}
        for p in rets:
            hr = None
            for (bb, d, taken, vals) in p.conds:
                e = n(d)
                if e[0] == "call" and e[1].endswith("Serializer::is_human_readable"):
                    hr = (taken == "otherwise") if vals == [0] else bool(taken)
            arms[hr] = p
        ok = set(arms) == {True, False}
        msgs = []
        if ok:
            for hr, p in arms.items():
                ret = n(p.ret)
                names = [c[1].rsplit("::", 1)[-1] for c in p.calls]
                if hr:
                    st = [c for c in p.calls if c[1].endswith("::store_into_str_bytes")]
                    good = ret[0] == "call" and ret[1].endswith("Serializer::serialize_str") and len(st) == 1
                    if good:
                        a = [n(x) for x in st[0][2]]
                        lv = find_all(a[1], lambda x: x[0] == "lv")
                        good = a[0] in (P(1), ("deref", P(1))) and a[2] == ("agg", "adt:hash::HexStringPrefix::WithVersion", ()) and bool(lv) and b.local_ty(lv[0][1])["s"] == "[u8; SIZE_IN_STR_BYTES]"
                        # the string handed to serialize_str is that buffer
                        good = good and bool(find_all(ret[2][1], lambda x: x == lv[0] or (x[0] == "mutated" and x[1] == lv[0])))
                    if not good:
                        msgs.append("human-readable arm: %s" % sym.fmt(ret)[:100])
                else:
                    st = [c for c in p.calls if c[1].endswith("::store_into_bytes")]
                    good = ret[0] == "call" and ret[1].endswith("Serializer::serialize_bytes") and len(st) == 1
                    if good:
                        a = [n(x) for x in st[0][2]]
                        lv = find_all(a[1], lambda x: x[0] == "lv")
                        good = a[0] in (P(1), ("deref", P(1))) and bool(lv) and b.local_ty(lv[0][1])["s"] == "[u8; SIZE_IN_BYTES]"
                        good = good and bool(find_all(ret[2][1], lambda x: x == lv[0] or (x[0] == "mutated" and x[1] == lv[0])))
                    if not good:
                        msgs.append("compact arm: %s" % sym.fmt(ret)[:100])
        else:
            msgs.append("arms %s" % sorted(map(str, arms)))
        ctx.ob(r, ("Serialize::serialize", "representation-switch"), ok and not msgs, "; ".join(msgs), cfg=F.key, where=b.where())
    de = [b for b in impl_methods(F, "hash::inner::FuzzyHash<", "serde::Deserialize") if b.name == "deserialize"]
    ctx.instance(r)
    if len(de) != 1:
        ctx.missing(r, "Deserialize for inner FuzzyHash", cfg=F.key)
    else:
        b = de[0]
        S = sym.Sym(b)
        buffered = "serde-buffered" in F.features
        arms = {}
        for p in S.paths():
            if p.end != "return":
                continue
            hr = None
            for (bb, d, taken, vals) in p.conds:
                e = n(d)
                if e[0] == "call" and e[1].endswith("Deserializer::is_human_readable"):
                    hr = (taken == "otherwise") if vals == [0] else bool(taken)
            arms[hr] = n(p.ret)
        want = {True: ("deserialize_string" if buffered else "deserialize_str", "FuzzyHashStringVisitor"),
                False: ("deserialize_byte_buf" if buffered else "deserialize_bytes", "FuzzyHashBytesVisitor")}
        ok = set(arms) == {True, False}
        msgs = []
        if ok:
            for hr, ret in arms.items():
                good = ret[0] == "call" and ret[1].endswith("Deserializer::" + want[hr][0]) and ret[2][0] == P(1) and ret[2][1][0] == "agg" and want[hr][1] in ret[2][1][1]
                if not good:
                    msgs.append("%s arm: %s" % ("human-readable" if hr else "compact", sym.fmt(ret)[:100]))
        ctx.ob(r, ("Deserialize::deserialize", "representation-switch"), ok and not msgs, "; ".join(msgs) or str(sorted(map(str, arms))), cfg=F.key, where=b.where())
    # outer wrappers
    for tr, nm in (("serde::Serialize", "serialize"), ("serde::Deserialize", "deserialize")):
        obs = [b for b in impl_methods(F, "hash::FuzzyHash<", tr) if b.name == nm]
        ctx.instance(r)
        if len(obs) != 1:
            ctx.missing(r, "%s for outer FuzzyHash" % tr, cfg=F.key)
            continue
        ps = cmpmodel.ret_paths(obs[0])
        e = n(ps[0].ret) if len(ps) == 1 else None
        if nm == "serialize":
            ok = e == ("call", "serde::Serialize::serialize", (("ref", ("field", ("deref", P(1)), 0)), P(2)))
        else:
            m = match(("call", "core::result::Result::<T, E>::map", (("call", "serde::Deserialize::deserialize", (P(1),)), ("fn", V("f")))), e) if e else None
            ok = bool(m) and m["f"].endswith("::new")
        ctx.ob(r, ("hash::FuzzyHash::" + nm, "forwards"), ok, "outer %s is %s" % (nm, sym.fmt(e) if e else e), cfg=F.key, where=obs[0].where())


def visitors(ctx, F):
    r = "R-16.2"
    ctx.rule(r, "visitors accept exactly what the parsers accept: string visitor = from_str_bytes(v, None); bytes visitor = length check + TryFrom<&[u8]>; no other visit_* overridden")
    sv = impl_methods(F, "hash::inner::FuzzyHashStringVisitor<", "serde::de::Visitor")
    bv = impl_methods(F, "hash::inner::FuzzyHashBytesVisitor<", "serde::de::Visitor")
    ctx.instance(r, len(sv) + len(bv))
    ctx.ob(r, ("FuzzyHashStringVisitor", "methods"), sorted(b.name for b in sv) == ["expecting", "visit_bytes", "visit_str"],
           "string visitor overrides %s; reference expecting, visit_str, visit_bytes" % sorted(b.name for b in sv), cfg=F.key)
    ctx.ob(r, ("FuzzyHashBytesVisitor", "methods"), sorted(b.name for b in bv) == ["expecting", "visit_bytes"],
           "bytes visitor overrides %s; reference expecting, visit_bytes" % sorted(b.name for b in bv), cfg=F.key)
    CUSTOM = ("fn", "serde::de::Error::custom")
    for b in sv:
        ps = cmpmodel.ret_paths(b)
        e = n(ps[0].ret) if len(ps) == 1 else None
        if b.name == "visit_str":
            m = match(("call", V("vb"), (P(1), ("call", "core::str::<impl str>::as_bytes", (P(2),)))), e) if e else None
            ctx.ob(r, ("FuzzyHashStringVisitor::visit_str", "delegates"), bool(m) and m["vb"].endswith("visit_bytes"), "visit_str is %s" % (sym.fmt(e) if e else e), cfg=F.key, where=b.where())
        elif b.name == "visit_bytes":
            want = ("call", "core::result::Result::<T, E>::map_err", (("call", "hash::public::FuzzyHashType::from_str_bytes", (P(2), ("agg", "adt:core::option::Option::None", ()))), CUSTOM))
            m = match(("call", "core::result::Result::<T, E>::map_err", (("call", V("f"), (P(2), ("agg", "adt:core::option::Option::None", ()))), CUSTOM)), e) if e else None
            ctx.ob(r, ("FuzzyHashStringVisitor::visit_bytes", "parser-with-autodetect"), bool(m) and m["f"].endswith("::from_str_bytes"),
                   "string visitor is %s; reference from_str_bytes(v, None).map_err(de::Error::custom)" % (sym.fmt(e) if e else e), cfg=F.key, where=b.where())
    for b in bv:
        if b.name != "visit_bytes":
            continue
        dec = cmpmodel.decision(b)
        gate = binop("Ne", ("call", "core::slice::<impl [T]>::len", (P(2),)), ("cparam", "SIZE_IN_BYTES"))
        ok = len(dec) == 2
        msgs = []
        for cs, ret in dec:
            if cs == [(gate, True)]:
                good = ret[0] == "agg" and ret[1].endswith("Result::Err") and ret[2][0][0] == "call" and ret[2][0][1] == "serde::de::Error::invalid_length" \
                    and ret[2][0][2][0] == ("call", "core::slice::<impl [T]>::len", (P(2),))
                if not good:
                    msgs.append("wrong-length arm returns %s" % sym.fmt(ret)[:100])
            elif cs == [(gate, False)]:
                m = match(("call", "core::result::Result::<T, E>::map_err", (("call", V("tf"), (P(2),)), CUSTOM)), ret)
                if not (m and m["tf"].endswith("::try_from")):
                    msgs.append("right-length arm returns %s; reference try_from(v).map_err(de::Error::custom)" % sym.fmt(ret)[:120])
            else:
                msgs.append("conditions %s" % [(sym.fmt(c), t) for c, t in cs])
        ctx.ob(r, ("FuzzyHashBytesVisitor::visit_bytes", "length-check+try_from"), ok and not msgs, "; ".join(msgs) or "paths %d" % len(dec), cfg=F.key, where=b.where())


def no_panic(ctx, F):
    r = "R-16.3"
    ctx.rule(r, "no input-dependent panic on a deserialize path: every unwrap/expect/panic/index reachable from Deserialize::deserialize or a Visitor method is discharged")
    roots = [b.path for b in F.bodies if b.kind == "AssocFn" and ((" as serde::Deserialize" in (b.d.get("impl") or "")) or (" as serde::de::Visitor" in (b.d.get("impl") or "")))]
    panics.check(ctx, r, F, roots, floor=10)
