"""C16 -- serde: canonical encodings, lossless round trip, malformed input is an error."""
from .. import sym
from ..norm import n, P, C, V, ANY, match, find_all, binop
from . import layout, common, cmpmodel, panics

ID = "C16"
CONFIGS = {"quick": ["K10", "K11"], "thorough": ["K10", "K11", "K12", "K16"]}
FIXTURES = {"panic"}
META = {
    "explanation": (
        "Static analysis (MIR paths, call graph) of the Serialize/Deserialize impls and the two visitors in the serde "
        "configurations (with and without strict-parser, buffered, and with `unsafe`).  Decided: Serialize is the decision "
        "table is_human_readable() ? serialize_str(text produced by store_into_str_bytes(.., WithVersion) into a "
        "[u8; LEN_IN_STR] buffer) : serialize_bytes(bytes produced by store_into_bytes into a [u8; SIZE_IN_BYTES] buffer); "
        "Deserialize dispatches to deserialize_str/string with the string visitor or deserialize_bytes/byte_buf with the "
        "bytes visitor; the two visitors are decided by abstract evaluation of their MIR (whatever the spelling: combinators, "
        "match, `?`): with the crate parser's outcome an opaque Ok(h) / Err(e), the string visitor returns Ok(h) / "
        "Err(custom(e)) of from_str_bytes(v, None); the bytes visitor, for input length SIZE_IN_BYTES, SIZE_IN_BYTES-1, "
        "SIZE_IN_BYTES+1 and 0, returns Err(invalid_length(len, ..)) unless the length is exactly SIZE_IN_BYTES and "
        "otherwise the array parser's Ok(h) / Err(custom(e)) (the slice parser TryFrom<&[u8]> is evaluated through); "
        "neither visitor overrides any other visit_* method; and every "
        "unwrap/expect/panic/index reachable from Deserialize::deserialize or a visitor is discharged (an unwrap of a "
        "parse result that can fail in this configuration is a violation -- this rule found the repaired defect F1); and the two "
        "parsers the visitors forward to are evaluated in each serde configuration: both validity gates present exactly when "
        "strict-parser is enabled (R-16.4, the evaluation of C15's R-15.1 as a C16 obligation)."
    ),
    "trusted_base": ["rustc nightly front end", "serde's default Visitor methods return invalid_type errors", "serde format crates (JSON/CBOR/postcard) call the visitor methods as documented"],
    "assumptions": [],
    "not_decided": ["behaviour of third-party format crates"],
}
TECHNIQUE = "decision tables over MIR paths, abstract evaluation of the visitor bodies on opaque parser outcomes and of the two parsers behind them in every serde configuration, unwrap-on-fallible rule over the call graph"


def run(ctx, FS):
    for key, F in FS.items():
        if "serde" not in F.features:
            continue
        switch(ctx, F)
        visitors(ctx, F)
        no_panic(ctx, F)
        parsers_behind_visitors(ctx, F)
    nserde = sum(1 for F in FS.values() if "serde" in F.features)
    if nserde:
        ctx.floor("R-16.4", 5000 * nserde, "parser evaluations (12580 per serde configuration counted on the pinned tree)")


def parsers_behind_visitors(ctx, F):
    """R-16.4: the visitors forward to the text parser and the array parser (R-16.2); C16's clause "with the strict parser, an
    invalid checksum or length code is a deserialization error" then holds only if those two parsers, *in this serde
    configuration*, carry both validity gates (and, without strict-parser, neither).  Decided by the same abstract evaluation
    of the parsers that C15's R-15.1 uses, here as a C16 obligation."""
    from . import c15
    r = "R-16.4"
    strict = "strict-parser" in F.features
    ctx.rule(r, "the parsers the two visitors forward to reject an invalid checksum / length code exactly when strict-parser is enabled "
                "(abstract evaluation of from_str_bytes and TryFrom<&[u8; N]> in every serde configuration)")
    c15.text_gates(ctx, r, F, strict)
    c15.binary_gates(ctx, r, F, strict)


def impl_methods(F, self_prefix, trait):
    return [b for b in F.bodies if b.kind == "AssocFn" and (b.d.get("impl") or "").startswith("<" + self_prefix) and (" as " + trait) in (b.d.get("impl") or "")]


def switch(ctx, F):
    r = "R-16.1"
    ctx.rule(r, "representation switch: human-readable -> exact T1 text via store_into_str_bytes; otherwise exact binary via store_into_bytes; deserialize mirrors it")
    ser = [b for b in impl_methods(F, "hash::inner::FuzzyHash<", "serde::Serialize") if b.name == "serialize"]
    ctx.instance(r)
    if len(ser) != 1:
        ctx.missing(r, "Serialize for inner FuzzyHash", cfg=F.key)
    else:
        b = ser[0]
        S = sym.Sym(b)
        rets = [p for p in S.paths() if p.end == "return"]
        arms = {}
        for p in rets:
            hr = None
            for (bb, d, taken, vals) in p.conds:
                e = n(d)
                if e[0] == "call" and e[1].endswith("Serializer::is_human_readable"):
                    hr = (taken == "otherwise") if vals == [0] else bool(taken)
            arms[hr] = p
        ok = set(arms) == {True, False}
        msgs = []
        if ok:
            for hr, p in arms.items():
                ret = n(p.ret)
                names = [c[1].rsplit("::", 1)[-1] for c in p.calls]
                if hr:
                    st = [c for c in p.calls if c[1].endswith("::store_into_str_bytes")]
                    good = ret[0] == "call" and ret[1].endswith("Serializer::serialize_str") and len(st) == 1
                    if good:
                        a = [n(x) for x in st[0][2]]
                        lv = find_all(a[1], lambda x: x[0] == "lv")
                        good = a[0] in (P(1), ("deref", P(1))) and a[2] == ("agg", "adt:hash::HexStringPrefix::WithVersion", ()) and bool(lv) and b.local_ty(lv[0][1])["s"] == "[u8; SIZE_IN_STR_BYTES]"
                        # the string handed to serialize_str is that buffer
                        good = good and bool(find_all(ret[2][1], lambda x: x == lv[0] or (x[0] == "mutated" and x[1] == lv[0])))
                    if not good:
                        msgs.append("human-readable arm: %s" % sym.fmt(ret)[:100])
                else:
                    st = [c for c in p.calls if c[1].endswith("::store_into_bytes")]
                    good = ret[0] == "call" and ret[1].endswith("Serializer::serialize_bytes") and len(st) == 1
                    if good:
                        a = [n(x) for x in st[0][2]]
                        lv = find_all(a[1], lambda x: x[0] == "lv")
                        good = a[0] in (P(1), ("deref", P(1))) and bool(lv) and b.local_ty(lv[0][1])["s"] == "[u8; SIZE_IN_BYTES]"
                        good = good and bool(find_all(ret[2][1], lambda x: x == lv[0] or (x[0] == "mutated" and x[1] == lv[0])))
                    if not good:
                        msgs.append("compact arm: %s" % sym.fmt(ret)[:100])
        else:
            msgs.append("arms %s" % sorted(map(str, arms)))
        ctx.ob(r, ("Serialize::serialize", "representation-switch"), ok and not msgs, "; ".join(msgs), cfg=F.key, where=b.where())
    de = [b for b in impl_methods(F, "hash::inner::FuzzyHash<", "serde::Deserialize") if b.name == "deserialize"]
    ctx.instance(r)
    if len(de) != 1:
        ctx.missing(r, "Deserialize for inner FuzzyHash", cfg=F.key)
    else:
        b = de[0]
        S = sym.Sym(b)
        buffered = "serde-buffered" in F.features
        arms = {}
        for p in S.paths():
            if p.end != "return":
                continue
            hr = None
            for (bb, d, taken, vals) in p.conds:
                e = n(d)
                if e[0] == "call" and e[1].endswith("Deserializer::is_human_readable"):
                    hr = (taken == "otherwise") if vals == [0] else bool(taken)
            arms[hr] = n(p.ret)
        want = {True: ("deserialize_string" if buffered else "deserialize_str", "FuzzyHashStringVisitor"),
                False: ("deserialize_byte_buf" if buffered else "deserialize_bytes", "FuzzyHashBytesVisitor")}
        ok = set(arms) == {True, False}
        msgs = []
        if ok:
            for hr, ret in arms.items():
                good = ret[0] == "call" and ret[1].endswith("Deserializer::" + want[hr][0]) and ret[2][0] == P(1) and ret[2][1][0] == "agg" and want[hr][1] in ret[2][1][1]
                if not good:
                    msgs.append("%s arm: %s" % ("human-readable" if hr else "compact", sym.fmt(ret)[:100]))
        ctx.ob(r, ("Deserialize::deserialize", "representation-switch"), ok and not msgs, "; ".join(msgs) or str(sorted(map(str, arms))), cfg=F.key, where=b.where())
    # outer wrappers
    for tr, nm in (("serde::Serialize", "serialize"), ("serde::Deserialize", "deserialize")):
        obs = [b for b in impl_methods(F, "hash::FuzzyHash<", tr) if b.name == nm]
        ctx.instance(r)
        if len(obs) != 1:
            ctx.missing(r, "%s for outer FuzzyHash" % tr, cfg=F.key)
            continue
        ps = cmpmodel.ret_paths(obs[0])
        e = n(ps[0].ret) if len(ps) == 1 else None
        if nm == "serialize":
            ok = e == ("call", "serde::Serialize::serialize", (("ref", ("field", ("deref", P(1)), 0)), P(2)))
        else:
            why = common.wrapper_forwards(F, obs[0], "serde::Deserialize::deserialize", 1)
            ok = why is None
            e = None if ok else ("const", why)
        ctx.ob(r, ("hash::FuzzyHash::" + nm, "forwards"), ok, "outer %s is %s" % (nm, (e[1] if e and e[0] == "const" else sym.fmt(e)) if e else e), cfg=F.key, where=obs[0].where())


def visitors(ctx, F):
    r = "R-16.2"
    ctx.rule(r, "visitors accept exactly what the parsers accept: string visitor = from_str_bytes(v, None); bytes visitor = length check + TryFrom<&[u8]>; no other visit_* overridden")
    sv = impl_methods(F, "hash::inner::FuzzyHashStringVisitor<", "serde::de::Visitor")
    bv = impl_methods(F, "hash::inner::FuzzyHashBytesVisitor<", "serde::de::Visitor")
    ctx.instance(r, len(sv) + len(bv))
    ctx.ob(r, ("FuzzyHashStringVisitor", "methods"), sorted(b.name for b in sv) == ["expecting", "visit_bytes", "visit_str"],
           "string visitor overrides %s; reference expecting, visit_str, visit_bytes" % sorted(b.name for b in sv), cfg=F.key)
    ctx.ob(r, ("FuzzyHashBytesVisitor", "methods"), sorted(b.name for b in bv) == ["expecting", "visit_bytes"],
           "bytes visitor overrides %s; reference expecting, visit_bytes" % sorted(b.name for b in bv), cfg=F.key)
    for b in sv:
        ps = cmpmodel.ret_paths(b)
        e = n(ps[0].ret) if len(ps) == 1 else None
        if b.name == "visit_str":
            m = match(("call", V("vb"), (P(1), ("call", "core::str::<impl str>::as_bytes", (P(2),)))), e) if e else None
            okd = bool(m) and m["vb"].endswith("visit_bytes")
            whyd = "visit_str is %s" % (sym.fmt(e) if e else e)
            if not okd:
                # any other spelling, by abstract evaluation: the whole string, unchanged, goes either to visit_bytes(as_bytes) (result returned
                # as is) or to the text parser FromStr (= from_str_bytes(.., None), R-04.4) with its error through de::Error::custom
                from .. import evalx
                evalx.set_target(F)
                S_ = sym.Sym(b)
                okd = True
                try:
                    for outcome in (("Ok", ("obj", "h")), ("Err", ("obj", "e"))):
                        used = []

                        def vb(self_, bytes_, outcome=outcome, used=used):
                            if bytes_ != ("app", "core::str::<impl str>::as_bytes", ("obj", "v")):
                                raise evalx.Unknown("visit_bytes(%r)" % (bytes_,))
                            used.append("bytes")
                            return ("Ok", outcome[1]) if outcome[0] == "Ok" else ("Err", ("app", "serde::de::Error::custom", outcome[1]))

                        def fs(v_, outcome=outcome, used=used):
                            if v_ != ("obj", "v"):
                                raise evalx.Unknown("from_str(%r)" % (v_,))
                            used.append("str")
                            return outcome
                        got = evalx.run(S_, F, S_.paths(), {"symbolic": True, "params": {1: ("obj", "self"), 2: ("obj", "v")},
                                                          "calls": {"::visit_bytes": vb, "core::str::FromStr::from_str": fs, "core::str::<impl str>::parse": fs}})
                        want = ("Ok", outcome[1]) if outcome[0] == "Ok" else ("Err", ("app", "serde::de::Error::custom", outcome[1]))
                        if got != want or len(set(used)) != 1:
                            okd = False
                            whyd = "visit_str returns %r when the parser gives %s" % (got, outcome[0])
                except (evalx.Unknown, evalx.Panics) as ex:
                    okd = False
                    whyd += " (cannot evaluate: %s)" % ex
            ctx.ob(r, ("FuzzyHashStringVisitor::visit_str", "delegates"), okd, whyd, cfg=F.key, where=b.where())
        elif b.name == "visit_bytes":
            why = _visitor_semantics(F, b, "string")
            ctx.ob(r, ("FuzzyHashStringVisitor::visit_bytes", "parser-with-autodetect"), why is None,
                   "string visitor: %s; reference from_str_bytes(v, None).map_err(de::Error::custom)" % why, cfg=F.key, where=b.where())
    for b in bv:
        if b.name != "visit_bytes":
            continue
        why = _visitor_semantics(F, b, "bytes")
        ctx.ob(r, ("FuzzyHashBytesVisitor::visit_bytes", "length-check+try_from"), why is None,
               "bytes visitor: %s; reference: wrong length -> Err(invalid_length(len, &self)); else the array parser's result with its error through de::Error::custom" % why, cfg=F.key, where=b.where())


def _visitor_semantics(F, b, kind):
    """The visitor body evaluated on abstract inputs (evalx, symbolic values): for each length class of the input and each outcome
    (Ok(h) / Err(e)) of the crate's parser, the returned value must be Ok(h), Err(custom(e)) or Err(invalid_length(len, ..)).
    The slice parser TryFrom<&[u8]> is evaluated through (its own length check and array conversion are part of what is
    decided); the array parser TryFrom<&[u8; N]> and from_str_bytes are the abstract outcomes."""
    from .. import evalx
    evalx.set_target(F)
    S = sym.Sym(b)
    try:
        paths = S.paths()
    except sym.PathLimit:
        return "too many paths"
    V_, SELF, H_, E_ = ("obj", "v"), ("obj", "self"), ("obj", "h"), ("obj", "e")
    N = 35
    CUSTOM, INVALID = "serde::de::Error::custom", "serde::de::Error::invalid_length"
    # the string visitor must hand every input to the text parser, whatever its length (SIZE_IN_BYTES included: raw bytes are not text)
    lens = (N, 2 * N, 2 * N + 2, 0) if kind == "string" else (N, N - 1, N + 1, 0)
    params = {1: V_} if kind == "slice" else {1: SELF, 2: V_}
    for L in lens:
        for outcome in (("Ok", H_), ("Err", E_)):
            seen = {"parser": 0}

            def slice_len(x):
                if isinstance(x, tuple) and x and x[0] == "view":
                    return x[3] - x[2]
                if x != V_ and x != ("arr", V_):
                    raise evalx.Unknown("len of %s" % (x,))
                return L

            def get_view(o, rng):
                # v.get(..k) / v.get(a..b): Some(view) exactly when the range lies inside the input; the full range is the input itself
                if o == V_ and isinstance(rng, tuple) and rng[0] == "adt" and rng[1].startswith("core::ops::Range") and all(isinstance(t_, int) for t_ in rng[2:]):
                    kind_ = rng[1].rsplit("::", 1)[-1]
                    lo, hi = {"RangeTo": (0, rng[2]), "RangeFrom": (rng[2], L), "Range": (rng[2], rng[3] if len(rng) > 3 else L)}.get(kind_, (None, None))
                    if lo is None:
                        raise evalx.Unknown("range %s" % kind_)
                    if not (lo <= hi <= L):
                        return ("None",)
                    return ("Some", V_ if (lo, hi) == (0, L) else ("view", V_, lo, hi))
                raise evalx.Unknown("get(%s, %s)" % (o, rng))

            def try_into(S_, bb, vals):
                tgt = panics.try_into_target_len(F, S_.b, bb) if bb is not None else None
                src_ = vals[0] if len(vals) == 1 else None
                if tgt is None or not (src_ == V_ or (isinstance(src_, tuple) and src_ and src_[0] == "view")):
                    raise evalx.Unknown("try_into of %s" % (vals,))
                tl = tgt[1] if tgt[0] == "val" else {"SIZE_IN_BYTES": N}.get(tgt[1])
                if tl is None:
                    raise evalx.Unknown("try_into target length %s" % (tgt,))
                return ("Ok", ("arr", src_)) if slice_len(src_) == tl else ("Err", ("obj", "TryFromSliceError"))

            def array_parser(x):
                if isinstance(x, tuple) and x[:1] == ("arr",) and isinstance(x[1], tuple) and x[1][:1] == ("view",):
                    return ("Ok", ("obj", "hash parsed from bytes %d..%d of the input only" % (x[1][2], x[1][3])))
                if x != ("arr", V_):
                    raise evalx.Unknown("array parser applied to %s" % (x,))
                seen["parser"] += 1
                if kind == "string":
                    return ("Ok", ("obj", "hash parsed from the raw binary form"))
                return outcome

            def by_argument(x):
                # `Self::try_from` passed as a function value (and_then(Self::try_from)): the impl is chosen by the argument type
                if isinstance(x, tuple) and x[:1] == ("arr",):
                    return array_parser(x)
                raise evalx.Unknown("TryFrom::try_from applied to %s" % (x,))

            def str_parser(x, opt):
                if x != V_ or opt != ("None",):
                    raise evalx.Unknown("from_str_bytes(%s, %s)" % (x, opt))
                seen["parser"] += 1
                return outcome

            asg = {"symbolic": True, "params": params, "cparams": {"SIZE_IN_BYTES": N},
                   "calls": {"core::slice::<impl [T]>::len": slice_len, "core::slice::<impl [T]>::get": get_view, "TryFrom<&[u8; SIZE_IN_BYTES]>>::try_from": array_parser,
                             "core::convert::TryFrom::try_from": by_argument,
                             "::from_str_bytes": str_parser},
                   "xcalls": {"TryInto<U>>::try_into": try_into, "for &'a [T; N]>::try_from": try_into}}
            try:
                got = evalx.run(S, F, paths, asg)
            except evalx.Panics as ex:
                return "input of length %s panics (%s)" % ("SIZE_IN_BYTES%+d" % (L - N) if L else 0, ex)
            except evalx.Unknown as ex:
                return "cannot evaluate: %s" % ex
            if kind == "slice":
                if L != N:
                    ok, want = got == ("Err", ("adt", "errors::ParseError::InvalidStringLength")), "Err(InvalidStringLength)"
                else:
                    ok, want = got == outcome, "the array parser's result unchanged"
            elif kind == "bytes" and L != N:
                ok = isinstance(got, tuple) and got[0] == "Err" and isinstance(got[1], tuple) and got[1][:2] == ("app", INVALID) and got[1][2][0] == L
                want = "Err(invalid_length(len, ..))"
            elif outcome[0] == "Ok":
                ok, want = got == ("Ok", H_), "Ok(parsed hash)"
            else:
                ok, want = got == ("Err", ("app", CUSTOM, E_)), "Err(custom(parser error))"
            if not ok:
                return "input of length %s, parser outcome %s: returns %s; reference %s" % (
                    "n/a" if kind == "string" else ("SIZE_IN_BYTES%+d" % (L - N) if L else 0), outcome[0], _show(got), want)
    return None


def _show(v):
    if isinstance(v, tuple):
        if v and v[0] == "obj":
            return v[1]
        if v and v[0] == "app":
            return "%s(%s)" % (str(v[1]).rsplit("::", 1)[-1], _show(v[2]))
        if v and v[0] in ("Ok", "Err", "Some"):
            return "%s(%s)" % (v[0], _show(v[1]))
        return "(" + ", ".join(_show(x) for x in v) + ")"
    return str(v)


def no_panic(ctx, F):
    r = "R-16.3"
    ctx.rule(r, "no input-dependent panic on a deserialize path: every unwrap/expect/panic/index reachable from Deserialize::deserialize or a Visitor method is discharged")
    roots = [b.path for b in F.bodies if b.kind == "AssocFn" and ((" as serde::Deserialize" in (b.d.get("impl") or "")) or (" as serde::de::Visitor" in (b.d.get("impl") or "")))]
    panics.check(ctx, r, F, roots, floor=10)
