"""Branch conditions decided by crate constants alone.

A `switchInt` whose discriminant is built only from literals, const generic parameters and associated constants, and
that has the same value for every hash variant the function can be instantiated with, is not a decision of the function:
the walk in sym.py follows the only feasible edge and does not record a condition (exactly what it already does for a
literal discriminant).  This keeps always-true `debug_assert!`s / `const`-guarded branches out of every rule's decision
tables and prunes their dead arms."""
from .. import sym
from . import layout

_MASK = {"u8": 8, "u16": 16, "u32": 32, "u64": 64, "usize": None, "bool": 1}


def _val(e, env, usize_bits):
    k = e[0]
    if k == "const":
        return e[1]
    if k in ("cparam", "cpath"):
        return layout.ceval(e, env)
    if k == "cast":
        v = _val(e[3], env, usize_bits)
        if v is None or e[1] != "IntToInt":
            return None
        w = _MASK.get(e[2], 0)
        if w == 0:
            return None
        w = usize_bits if w is None else w
        return v & ((1 << w) - 1) if v >= 0 else None
    if k == "un" and e[1] == "Not":
        v = _val(e[2], env, usize_bits)
        return None if v not in (0, 1) else 1 - v
    if k == "bin":
        a, b = _val(e[2], env, usize_bits), _val(e[3], env, usize_bits)
        if a is None or b is None:
            return None
        op = e[1]
        if op in ("Eq", "Ne", "Lt", "Le", "Gt", "Ge"):
            return int({"Eq": a == b, "Ne": a != b, "Lt": a < b, "Le": a <= b, "Gt": a > b, "Ge": a >= b}[op])
        if op in ("Add", "Sub", "Mul"):
            v = {"Add": a + b, "Sub": a - b, "Mul": a * b}[op]
            return v if 0 <= v < (1 << 64) else None
        if op in ("BitAnd", "BitOr", "BitXor"):
            return {"BitAnd": a & b, "BitOr": a | b, "BitXor": a ^ b}[op]
        if op == "Div":
            return a // b if b else None
        if op == "Rem":
            return a % b if b else None
        if op == "Shl":
            return a << b if b < 64 else None
        if op == "Shr":
            return a >> b if b < 64 else None
    return None


def _only_constants(e, depth=0):
    if depth > 30 or not isinstance(e, tuple) or not e:
        return False
    k = e[0]
    if k in ("const", "cparam"):
        return True
    if k == "cpath":
        return True
    if k == "cast":
        return _only_constants(e[3], depth + 1)
    if k == "un":
        return _only_constants(e[2], depth + 1)
    if k == "bin":
        return _only_constants(e[2], depth + 1) and _only_constants(e[3], depth + 1)
    return False


def _envs(F):
    if not hasattr(F, "_constfold_envs"):
        F._constfold_envs = layout.variant_envs(F) or []
    return F._constfold_envs


def oracle(S, d):
    """value of the raw discriminant expression d if crate constants fix it identically for every variant, else None"""
    if not _only_constants(d):
        return None
    if not any(x[0] in ("cparam", "cpath") for x in sym.leaves(d)):
        return None  # literal-only expressions are folded by the compiler already
    F = S.F
    envs = _envs(F)
    if not envs:
        return None
    from . import panics
    fixed = panics.concrete_self_env(F, S.b) or {}
    vals = set()
    for _, env in envs:
        if any(env.get(k, v) != v for k, v in fixed.items()):
            continue  # this variant cannot instantiate the impl the function belongs to
        v = _val(d, dict(env, **fixed), F.usize_bytes * 8)
        if v is None:
            return None
        vals.add(v)
    return vals.pop() if len(vals) == 1 else None


sym.CONST_ORACLE[0] = oracle
