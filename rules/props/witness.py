"""E3: compile-pass / compile-fail witness crates (filled in later)."""


def nostd(ctx, rule):
    pass


def finalize_shared(ctx, rule):
    pass
