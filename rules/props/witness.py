"""E3: compile-pass / compile-fail witness crates, type-checked against the current /repo tree.

Each witness is a tiny crate generated under .work/witness/<tag>/ that path-depends on
<repo>/fast-tlsh (lock file copied from the repository).  A compile-fail witness has a compiling
twin that differs only by the offending line, and must fail with the expected error code."""
import hashlib
import json
import os
import shutil
import subprocess

from .. import engine

NOSTD_LIB = r'''#![no_std]
//! Uses the whole core API from a no_std, no_alloc crate.
use core::str::FromStr;
use tlsh::prelude::*;
use tlsh::hashes::{Long, LongWithLongChecksum, Normal, NormalWithLongChecksum, Short};
use tlsh::{ComparisonConfiguration, GeneratorOptions, HexStringPrefix};
use tlsh::length::{DataLengthProcessingMode, DataLengthValidity, FuzzyHashLengthEncoding};
use tlsh::hash::body::FuzzyHashBody;
use tlsh::hash::checksum::FuzzyHashChecksum;

fn one<T>(data: &[u8], text: &str, bin: &[u8], out: &mut [u8]) -> Option<u32>
where
    T: FuzzyHashType + FromStr<Err = tlsh::ParseError> + Clone + PartialEq + for<'a> TryFrom<&'a [u8], Error = tlsh::ParseError>,
    T: tlsh::_docs::Dummy,
{
    None
}

pub fn exercise(data: &[u8], text: &str, bin: &[u8], out: &mut [u8]) -> u32 {
    let mut acc = 0u32;
    macro_rules! go {
        ($t:ty) => {{
            let mut g = TlshGeneratorFor::<$t>::new();
            g.update(data);
            g.update(&data[..data.len() / 2]);
            let _ = g.processed_len();
            let mut o = GeneratorOptions::new();
            o.length_processing_mode(DataLengthProcessingMode::Conservative)
                .allow_small_size_files(true)
                .allow_statistically_weak_buckets_half(true)
                .allow_statistically_weak_buckets_quarter(true)
                .pure_integer_qratio_computation(true);
            let h1 = g.finalize();
            let h2 = g.clone().finalize_with_options(&o);
            let p1 = <$t>::from_str(text);
            let p2 = <$t>::from_str_with(text, Some(HexStringPrefix::WithVersion));
            let p3 = <$t>::from_str_bytes(text.as_bytes(), None);
            let p4 = <$t>::try_from(bin);
            if let (Ok(a), Ok(b)) = (&h1, &p1) {
                acc += a.compare(b);
                acc += a.compare_with_config(b, ComparisonConfiguration::NoLength);
                acc += <$t>::max_distance(ComparisonConfiguration::Default);
                acc += a.store_into_bytes(out).unwrap_or(0) as u32;
                acc += a.store_into_str_bytes(out, HexStringPrefix::Empty).unwrap_or(0) as u32;
                acc += a.checksum().is_valid() as u32 + a.length().value() as u32 + a.qratios().q1ratio() as u32 + a.qratios().q2ratio() as u32;
                acc += a.body().quartile(0) as u32 + a.body().data().len() as u32 + a.checksum().data().len() as u32;
                let mut c = a.clone();
                c.clear_checksum();
                acc += (c == *a) as u32;
            }
            let _ = (h2, p2, p3, p4);
        }};
    }
    go!(Short);
    go!(Normal);
    go!(NormalWithLongChecksum);
    go!(Long);
    go!(LongWithLongChecksum);
    let v = DataLengthValidity::new::<128>(data.len() as u32);
    acc += v.is_err() as u32 + v.is_err_on(DataLengthProcessingMode::Optimistic) as u32;
    if let Some(l) = FuzzyHashLengthEncoding::new(data.len() as u32) {
        acc += l.value() as u32 + l.is_valid() as u32 + l.range().map(|r| *r.end()).unwrap_or(0);
    }
    acc
}
'''.replace('''fn one<T>(data: &[u8], text: &str, bin: &[u8], out: &mut [u8]) -> Option<u32>
where
    T: FuzzyHashType + FromStr<Err = tlsh::ParseError> + Clone + PartialEq + for<'a> TryFrom<&'a [u8], Error = tlsh::ParseError>,
    T: tlsh::_docs::Dummy,
{
    None
}

''', '')

SHARED_PASS = r'''//! finalize through a shared reference while another shared borrow is alive.
use tlsh::prelude::*;
use tlsh::GeneratorOptions;

pub fn witness(g: &TlshGenerator) -> (Option<u32>, bool, bool) {
    let other: &TlshGenerator = g; // second shared borrow, alive across the calls
    let a = g.finalize_with_options(&GeneratorOptions::new()).is_ok();
    let b = g.finalize().is_ok();
    (other.processed_len(), a, b)
}
'''
SHARED_FAIL = SHARED_PASS.replace("    (other.processed_len(), a, b)", "    g.update(b\"late write\"); // E0596: `update` needs &mut self\n    (other.processed_len(), a, b)")


def _tag():
    return hashlib.sha256(engine.REPO.encode()).hexdigest()[:8] if engine.REPO != "/repo" else "repo"


def _crate(name, lib_rs, features):
    d = os.path.join(engine.WORK, "witness", _tag(), name)
    os.makedirs(os.path.join(d, "src"), exist_ok=True)
    feat = ", ".join('"%s"' % f for f in features)
    with open(os.path.join(d, "Cargo.toml"), "w") as f:
        f.write('[package]\nname = "%s"\nversion = "0.0.0"\nedition = "2021"\n\n[lib]\npath = "src/lib.rs"\n\n[dependencies]\n'
                'fast-tlsh = { path = "%s/fast-tlsh", default-features = false, features = [%s] }\n\n[workspace]\n' % (name, engine.REPO, feat))
    with open(os.path.join(d, "src", "lib.rs"), "w") as f:
        f.write(lib_rs)
    shutil.copyfile(os.path.join(engine.REPO, "Cargo.lock"), os.path.join(d, "Cargo.lock"))
    return d


def _check(d, name):
    env = dict(os.environ)
    env.update({"CARGO_TARGET_DIR": os.path.join(engine.WORK, "target", _tag(), "witness-" + name), "CARGO_NET_OFFLINE": "true", "RUSTFLAGS": "-Awarnings"})
    r = subprocess.run(["cargo", "+nightly", "check", "--offline", "--message-format=json"], cwd=d, env=env, capture_output=True, text=True)
    codes = []
    msgs = []
    for line in r.stdout.splitlines():
        try:
            m = json.loads(line)
        except ValueError:
            continue
        if m.get("reason") == "compiler-message" and m["message"].get("level") == "error":
            c = (m["message"].get("code") or {}).get("code")
            codes.append(c)
            msgs.append(m["message"].get("message", "")[:200])
    return r.returncode, codes, msgs, r.stderr[-800:]


_cache = {}


def _run(name, lib_rs, features):
    key = (name, engine.tree_digest(), tuple(features))
    if key not in _cache:
        d = _crate(name, lib_rs, features)
        _cache[key] = _check(d, name)
    return _cache[key]


def nostd(ctx, rule):
    ctx.instance(rule)
    rc, codes, msgs, err = _run("nostd_user", NOSTD_LIB, [])
    ctx.ob(rule, ("witness:nostd_user", "type-checks"), rc == 0,
           "the #![no_std] witness crate using the core API with default-features = false no longer type-checks: %s %s" % (codes[:3], msgs[:2] or err[-300:]))


def finalize_shared(ctx, rule):
    ctx.instance(rule, 2)
    rc, codes, msgs, err = _run("finalize_shared_pass", SHARED_PASS, ["std"])
    ctx.ob(rule, ("witness:finalize_shared", "compiles"), rc == 0,
           "finalize/finalize_with_options/processed_len can no longer be called through a shared reference: %s %s" % (codes[:3], msgs[:2] or err[-300:]))
    rc2, codes2, msgs2, err2 = _run("finalize_shared_fail", SHARED_FAIL, ["std"])
    ctx.ob(rule, ("witness:finalize_shared", "update-through-&-is-E0596"), rc2 != 0 and codes2 == ["E0596"],
           "the compile-fail twin (update through &G) did not fail with exactly E0596: rc=%s codes=%s" % (rc2, codes2), trivial=True)
