"""C08 -- distance is reflexive, symmetric and bounded by max_distance."""
from .. import sym, tables
from ..norm import n, P, C, V, match, find_all
from . import cmpmodel, common, simd

ID = "C08"
CONFIGS = {"quick": ["K0", "K1", "K2", "K13", "K14b"], "thorough": ["K0", "K1", "K2", "K13", "K14a", "K14b", "K14c", "K17"]}
META = {
    "explanation": (
        "Static analysis (MIR + constant evaluator).  For the Q-ratio and length parts the laws are decided on the "
        "full table domain: symmetric, zero exactly on the diagonal, maximum equal to the published MAX_DISTANCE and "
        "attained.  The checksum part is a count of unequal positions (symmetric, zero iff equal, maximum = size).  "
        "max_distance is shown to mirror compare_with_config term by term (so Default = NoLength + length term and "
        "the bound is the sum of part maxima), and clear_checksum is shown to zero the whole checksum array and "
        "nothing else.  For the BODY part (R-08.6) the bit-sliced kernel core is interpreted abstractly over byte lanes "
        "(per lane a 65,536-entry table of the lane's value plus a mask of bits a neighbouring lane could influence; "
        "shifts, masks, carry-free adds and borrow-free subtractions have exact transfer functions): the resulting "
        "table is symmetric, zero exactly on equal bytes, and has maximum 24 = 4 dibits x 6, attained at 00/ff; every "
        "compiled backend -- scalar 32/64-bit, SSE2, SSE4.1, AVX2, NEON -- has the same operation DAG for the core with "
        "the two bodies in the same operand roles, the horizontal sums cannot overflow their lanes, and the loads cover "
        "each body exactly once; so the laws hold for every backend."
    ),
    "trusted_base": ["rustc nightly front end and constant evaluator"],
    "assumptions": ["analysed targets: x86_64; aarch64 (NEON kernel) in the thorough tier"],
    "not_decided": ["the portable-SIMD body kernel (does not compile with the installed nightly)"],
}
TECHNIQUE = 'table laws on the full domain (symmetry, zero iff diagonal, maximum), byte-lane table laws of the body kernel, operation-DAG sibling agreement, decision table of compare_with_config'


def run(ctx, FS):
    for key, F in FS.items():
        r = "R-08.1"
        ctx.rule(r, "Q-ratio/length table laws on the full domain: symmetric, zero iff diagonal, max == MAX_DISTANCE attained")
        qt = tables.qdist_tables(ctx, r, F)
        lt = tables.ldist_table(ctx, r, F)
        tables.maxima(ctx, r, F, qt, lt)
        # the run-time entry points themselves (table-driven or not, whatever this configuration compiles), on their whole domains:
        # equal to the reference distance, which is symmetric, zero exactly on the diagonal and bounded by MAX_DISTANCE
        cmpmodel.full_domain(ctx, r, F, "compare::dist_qratios::distance", ("dist_qratios::distance", "laws"), cmpmodel.BYTES2, cmpmodel.qdist_ref,
                             "the symmetric reference distance sub(lo1,lo2) + sub(hi1,hi2) (max 168)")
        cmpmodel.full_domain(ctx, r, F, "compare::dist_length::distance", ("dist_length::distance", "laws"), cmpmodel.BYTES2, cmpmodel.ldist_ref,
                             "the symmetric reference distance on the ring mod 256 (max 1536)")
        ctx.instance(r)
        ctx.rules[r]["exhaustive"] = True
        r = "R-08.2"
        ctx.rule(r, "checksum distance is a count of unequal positions (symmetric, zero iff equal, max == size)")
        cmpmodel.checksum_distance(ctx, r, F)
        r = "R-08.3"
        ctx.rule(r, "max_distance mirrors compare_with_config term by term; part maxima by value")
        cmpmodel.composition(ctx, r, F)
        cmpmodel.max_distance_mirror(ctx, r, F)
        r = "R-08.4"
        ctx.rule(r, "clear_checksum zeroes the entire checksum array and touches nothing else")
        clear_checksum(ctx, r, F)
        r = "R-08.5"
        ctx.rule(r, "part compares forward (self, other) to their distance functions", "N")
        cmpmodel.part_compares(ctx, r, F)
        r = "R-08.6"
        ctx.rule(r, "every body-distance backend computes the same symmetric per-dibit kernel: sibling agreement of the SIMD operation DAGs with the "
                    "scalar reference (operands of the two bodies are interchangeable in the DAG), loads cover each body exactly once", "N")
        simd.body_kernels(ctx, r, F)
        simd.lane_laws(ctx, r, F)


def clear_checksum(ctx, r, F):
    hf = common.hash_fields(F)
    bs = F.method("clear_checksum", "hash::inner::FuzzyHash<")
    ctx.instance(r)
    if len(bs) != 1 or not hf:
        ctx.missing(r, "inner FuzzyHash::clear_checksum", cfg=F.key)
        return
    b = bs[0]
    ps = [p for p in sym.Sym(b).paths() if p.end == "return"]
    ok = len(ps) == 1 and not ps[0].stores and len(ps[0].calls) == 1
    if ok:
        (_, path, args, c) = ps[0].calls[0]
        ok = path.endswith("FuzzyHashChecksumData::<SIZE_CKSUM, SIZE_BUCKETS>::clear") and n(args[0]) == ("ref", ("field", ("deref", P(1)), hf["checksum"]))
    ctx.ob(r, ("FuzzyHash::clear_checksum", "only-clears-checksum"), ok,
           "clear_checksum does more than self.checksum.clear(): calls %s stores %s" % (
               [(c[1], [sym.fmt(a) for a in c[2]]) for c in ps[0].calls] if ps else None, len(ps[0].stores) if ps else None),
           cfg=F.key, where=b.where())
    cb = [x for x in F.bodies if x.name == "clear" and x.d.get("impl", "").startswith("hash::checksum::FuzzyHashChecksumData<")]
    ctx.instance(r)
    if len(cb) != 1:
        ctx.missing(r, "FuzzyHashChecksumData::clear", cfg=F.key)
        return
    c = cb[0]
    ps = [p for p in sym.Sym(c).paths() if p.end == "return"]
    ok = False
    desc = None
    if len(ps) == 1 and not ps[0].stores and len(ps[0].calls) == 1:
        (_, path, args, cj) = ps[0].calls[0]
        a0 = n(args[0])
        desc = "%s(%s)" % (path, ", ".join(sym.fmt(x) for x in args))
        # fill(&mut self.data[..] as whole array unsized, 0)
        ok = path == "core::slice::<impl [T]>::fill" and a0 == ("ref", ("field", ("deref", P(1)), 0)) and n(args[1]) == C(0)
    elif len(ps) == 1 and len(ps[0].stores) == 1 and not any(find_all(n(a_), lambda y: y == P(1)) for x_ in ps[0].calls for a_ in x_[2]):
        (_, pl, v) = ps[0].stores[0]
        desc = "%s <- %s" % (sym.fmt(pl), sym.fmt(v))
        ok = n(pl) == ("field", ("deref", P(1)), 0) and n(v)[0] == "repeat" and n(v)[1] == C(0)
        if not ok and n(pl) == ("deref", P(1)):
            # `*self = Self::new()` (or a struct literal): the stored value evaluated: its data must be an all-zero array
            from .. import evalx
            evalx.set_target(F)
            try:
                val = evalx.ev(sym.Sym(c), F, v, {"symbolic": True, "params": {1: ("obj", "self")}, "cparams": {"SIZE_CKSUM": 3, "SIZE_BUCKETS": 128}})
            except (evalx.Unknown, evalx.Panics):
                val = None
            ok = isinstance(val, tuple) and val[:1] == ("adt",) and len(val) == 3 and isinstance(val[2], tuple) and \
                ((val[2][:1] == ("repeat",) and val[2][1] == 0) or (val[2][:1] == ("array",) and all(x == 0 for x in val[2][1:])))
    elif len(ps) == 1 and any(p_.end == "loop" for p_ in sym.Sym(c).paths()):
        # `for b in self.data.iter_mut() { *b = 0 }`: the loop visits the whole array and every cycle stores 0 through the item
        S_ = sym.Sym(c)
        allp = S_.paths()
        loops = [p_ for p_ in allp if p_.end == "loop"]
        hdr = loops[0].blocks[-1]
        pre = [p_ for p_ in S_.paths(stop_at={hdr}) if p_.end == "stop"]
        step = S_.paths(entry=hdr)
        cyc = [p_ for p_ in step if p_.end == "loop"]
        desc = "loop"
        if len(pre) == 1 and len(cyc) == 1 and all(p_.end in ("loop", "return", "unreachable") for p_ in step):
            names = [x[1].rsplit("::", 1)[-1] for x in pre[0].calls]
            src_ok = names in (["iter_mut", "into_iter"], ["iter_mut"]) and n(pre[0].calls[0][2][0]) in (("ref", ("field", ("deref", P(1)), 0)), ("field", ("deref", P(1)), 0))
            nxt = [x for x in cyc[0].calls if x[1].endswith("::next")]
            st = [(n(pl_), n(v_)) for _, pl_, v_ in cyc[0].stores]
            item = ("field", ("variant", n(("call", nxt[0][0], nxt[0][1], nxt[0][2])), "Some"), 0) if len(nxt) == 1 else None
            ok = src_ok and item is not None and st == [(("deref", item), C(0))] and len(cyc[0].calls) == 1
            desc = "loop over %s storing %s" % (names, [(sym.fmt(a_), sym.fmt(b_)) for a_, b_ in st])
    ctx.ob(r, ("FuzzyHashChecksumData::clear", "whole-array-zero"), ok,
           "clear() is %s; reference: zero-fill of the whole data array" % desc, cfg=F.key, where=c.where())
    for ob in F.method("clear_checksum", "hash::FuzzyHash<"):
        ps = [p for p in sym.Sym(ob).paths() if p.end == "return"]
        ok = len(ps) == 1 and len(ps[0].calls) == 1 and ps[0].calls[0][1].endswith("FuzzyHashType::clear_checksum") and \
            n(ps[0].calls[0][2][0]) == ("ref", ("field", ("deref", P(1)), 0)) and not ps[0].stores
        ctx.instance(r)
        ctx.ob(r, ("hash::FuzzyHash::clear_checksum", "forwards"), ok, "outer clear_checksum does not simply forward to inner", cfg=F.key, where=ob.where())
