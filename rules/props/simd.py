"""SIMD kernel rules (sibling agreement, loads, dispatch).  Filled in incrementally."""


def body_kernels(ctx, r, F):
    pass
