"""SIMD kernel rules: sibling agreement of operation DAGs, vector-load coverage and bounds,
dispatch soundness, first-call race."""
import re

from .. import sym
from ..norm import n, P, C, V, ANY, match, find_all
from . import common

BODY_KERNELS = {
    "pseudo32": "compare::dist_body::pseudo_simd_32::sub_distance",
    "pseudo64": "compare::dist_body::pseudo_simd_64::sub_distance",
    "sse2": "compare::dist_body::x86_sse2::packed_distance_as_u16x8",
    "sse4.1": "compare::dist_body::x86_sse4_1::packed_distance_as_u32x4",
    "avx2": "compare::dist_body::x86_avx2::packed_distance_as_u32x8",
    "neon": "compare::dist_body::arm_neon::packed_distance_as_u16x8",
}
INTR = re.compile(r"core::arch::x86(?:_64)?::_mm(?:256)?_(\w+)$")
NEON = re.compile(r"core::arch::(?:aarch64|arm)::v(\w+)$")
WASM = re.compile(r"core::arch::wasm32::(\w+)$")
WRAP = re.compile(r"<core::num::Wrapping<u(32|64)> as core::ops::(\w+)(?:<usize>)?>::(\w+)$")


def imm_of(b, bb):
    """const generic immediate of the intrinsic called in block bb (e.g. _mm_slli_epi32::<1>)."""
    c = b.blocks[bb]["term"]["callee"]
    for a in c.get("args", []):
        if a.get("k") == "val":
            return a["v"]
    return None


def dag(b, e, depth=0):
    """Normalised operation tree of a kernel expression (raw sym expr)."""
    if depth > 200:
        return ("deep",)
    k = e[0]
    if k == "param":
        return ("in", e[1])
    if k == "const":
        return ("k", e[1])
    if k == "cast":
        return dag(b, e[3], depth + 1)
    if k == "field":
        # Wrapping(x).0
        return dag(b, e[1], depth + 1)
    if k == "agg":
        if e[1].endswith("Wrapping::Wrapping") and len(e[2]) == 1:
            inner = e[2][0]
            if inner[0] == "const":
                return splat_const(inner[1])
            return dag(b, inner, depth + 1)
        if e[1] == "tuple":
            return ("tuple",) + tuple(dag(b, x, depth + 1) for x in e[2])
        return ("agg", e[1])
    if k == "call":
        bb, path, args = e[1], e[2], e[3]
        m = WRAP.match(path)
        if m:
            op = {"bitand": "and", "bitor": "or", "bitxor": "xor", "add": "add", "sub": "sub", "mul": "mul", "shl": "shl", "shr": "shr"}.get(m.group(3), m.group(3))
            a = [dag(b, x, depth + 1) for x in args]
            return mk(op, a, lane=int(m.group(1)))
        m = INTR.match(path)
        if m:
            name = m.group(1)
            a = [dag(b, x, depth + 1) for x in args]
            if name in ("and_si128", "and_si256"):
                return mk("and", a)
            if name in ("or_si128", "or_si256"):
                return mk("or", a)
            if name in ("xor_si128", "xor_si256"):
                return mk("xor", a)
            mm = re.match(r"(add|sub|mullo|slli|srli|cmpgt)_epi(\d+)$", name)
            if mm:
                op = {"mullo": "mul", "slli": "shl", "srli": "shr"}.get(mm.group(1), mm.group(1))
                lane = int(mm.group(2))
                if op in ("shl", "shr"):
                    a = a + [("k", imm_of(b, bb))]
                return mk(op, a, lane=lane)
            mm = re.match(r"set1_epi(\d+)$", name)
            if mm:
                lane = int(mm.group(1))
                v = a[0]
                if v[0] == "k":
                    val = v[1] & ((1 << lane) - 1)
                    full = 0
                    for i in range(64 // lane):
                        full |= val << (i * lane)
                    return splat_const(full, 64)
                return ("splat", lane, v)
            mm = re.match(r"(shuffle_epi32|shuffle_epi8|packs_epi16|movemask_epi8|extract_epi32|cvtsi128_si32|undefined_si128|loadu_si128|loadu_si256|set_epi8)$", name)
            if mm:
                extra = [("k", imm_of(b, bb))] if imm_of(b, bb) is not None else []
                return (mm.group(1),) + tuple(a) + tuple(extra)
            return ("intr:" + name,) + tuple(a)
        m = NEON.match(path)
        if m:
            name = m.group(1)
            a = [dag(b, x, depth + 1) for x in args]
            if name.startswith("reinterpret"):
                return a[0]
            mm = re.match(r"(and|orr|eor|add|sub)q?_u(\d+)$", name)
            if mm:
                op = {"orr": "or", "eor": "xor"}.get(mm.group(1), mm.group(1))
                return mk(op, a, lane=int(mm.group(2)))
            mm = re.match(r"(shl|shr)q_n_u(\d+)$", name)
            if mm:
                return mk(mm.group(1), a + [("k", imm_of(b, bb))], lane=int(mm.group(2)))
            mm = re.match(r"dupq_n_u(\d+)$", name)
            if mm:
                lane = int(mm.group(1))
                v = a[0]
                if v[0] == "k":
                    val = v[1] & ((1 << lane) - 1)
                    full = 0
                    for i in range(64 // lane):
                        full |= val << (i * lane)
                    return splat_const(full, 64)
                return ("splat", lane, v)
            mm = re.match(r"paddlq_u(\d+)$", name)
            if mm:
                return ("paddl" + mm.group(1), a[0])
            mm = re.match(r"(get_high|get_low)_u(\d+)$", name)
            if mm:
                return (mm.group(1) + mm.group(2), a[0])
            mm = re.match(r"get_lane_u(\d+)$", name)
            if mm:
                return ("lane" + mm.group(1), a[0], ("k", imm_of(b, bb)))
            if name == "ld1q_u8":
                return ("ld1q_u8",) + tuple(a)
            return ("intr:" + name,) + tuple(a)
        m = WASM.match(path)
        if m:
            name = m.group(1)
            a = [dag(b, x, depth + 1) for x in args]
            if name == "v128_xor":
                return mk("xor", a)
            if name == "v128_and":
                return mk("and", a)
            if name == "v128_or":
                return mk("or", a)
            mm = re.match(r"u(\d+)x\d+_splat$", name)
            if mm:
                return ("splat", int(mm.group(1)), a[0])
            mm = re.match(r"u(\d+)x\d+_gt$", name)
            if mm:
                return ("ugt" + mm.group(1), a[0], a[1])
            mm = re.match(r"[ui](\d+)x\d+_bitmask$", name)
            if mm:
                return ("bitmask" + mm.group(1), a[0])
            if name == "v128_load":
                return ("v128_load",) + tuple(a)
            return ("intr:" + name,) + tuple(a)
        if path.endswith(("::wrapping_add", "::wrapping_shr", "::wrapping_mul")):
            a = [dag(b, x, depth + 1) for x in args]
            return mk(path.rsplit("wrapping_", 1)[-1], a)
        return ("call:" + path,) + tuple(dag(b, x, depth + 1) for x in args)
    if k == "bin":
        op = {"BitAnd": "and", "BitOr": "or", "BitXor": "xor", "Add": "add", "Sub": "sub", "Mul": "mul", "Shl": "shl", "Shr": "shr"}.get(e[1].replace("WithOverflow", ""), e[1])
        return mk(op, [dag(b, e[2], depth + 1), dag(b, e[3], depth + 1)])
    if k == "load":
        return ("load", str(e[1])[:60])
    return ("?", k)


def splat_const(v, bits=None):
    """Constants are compared as byte patterns: a value whose bytes are all equal is ('splat8', byte)."""
    bs = []
    x = v
    nb = (bits // 8) if bits else max(1, (v.bit_length() + 7) // 8)
    for i in range(nb):
        bs.append(x & 0xFF)
        x >>= 8
    if len(set(bs)) == 1:
        return ("splat8", bs[0])
    if nb >= 4 and len(set(tuple(bs[i:i + 4]) for i in range(0, nb, 4))) == 1:
        return ("splat32", bs[0] | bs[1] << 8 | bs[2] << 16 | bs[3] << 24)
    return ("k", v)


COMM = {"and", "or", "xor", "add", "mul"}


def mk(op, a, lane=None):
    """lane widths are erased for and/or/xor/add/sub/shift (bit-sliced code is lane agnostic where no
    carry crosses a lane); they are kept for mul and for the 16-bit tail ops."""
    a = list(a)
    # x*3 idioms
    if op in ("add", "or") and len(a) == 2:
        for x, y in ((a[0], a[1]), (a[1], a[0])):
            if x[0] == "shl" and x[1] == y and x[2] == ("k", 1):
                return ("mul3", y)
    if op in COMM:
        a = sorted(a, key=repr)
    if op == "mul" or (lane == 16):
        return (op + str(lane or ""),) + tuple(a)
    return (op,) + tuple(a)


TAILS = {
    # family: (pattern builder over S8) -- one line of reason each
    "pseudo32": lambda s: ("shr", ("mul32", ("splat8", 1), s), ("k", 24)),  # horizontal byte sum by multiply, 32-bit lanes
    "sse4.1": lambda s: ("shr", ("mul32", ("splat8", 1), s), ("k", 24)),   # same, _mm_mullo_epi32 / _mm_srli_epi32::<24>
    "avx2": lambda s: ("shr", ("mul32", ("splat8", 1), s), ("k", 24)),     # same on 256-bit vectors
    "pseudo64": lambda s: ("shr", ("mul64", ("splat8", 1), s), ("k", 56)),  # 64-bit lanes: multiply by 0x0101..01, shift 56
    "sse2": lambda s: ("add16", ("shr16", s, ("k", 8)), ("shr16", ("shl16", s, ("k", 8)), ("k", 8))),  # no 32-bit mullo in SSE2: add high and low bytes of each 16-bit lane
    "neon": lambda s: ("paddl8", s),  # pairwise add-long of the 16 byte sums into 8 u16 lanes (vpaddlq_u8)
}


def split_tail(fam, d):
    """Return S8 such that d == TAILS[fam](S8), else None."""
    pat = TAILS[fam](V("s8"))
    m = match(_sortcomm(pat), d)
    return m["s8"] if m else None


def _sortcomm(p):
    return p  # patterns above are written in the canonical operand order produced by mk()


# ---------------------------------------------------------------- lane semantics of the kernel core
#
# Abstract interpretation of the bit-sliced kernel core over BYTE LANES.  Every intermediate value is described, for one
# byte lane, by (T, U): T[xb*256+yb] = the lane's byte when the lane's input bytes are (xb, yb) and nothing crosses a lane
# boundary, U = mask of lane bits that a neighbouring lane might influence (shifted-in bits, carries, borrows).  All lanes
# are described by the same (T, U) because the DAG applies the same word-wide operation to every lane.  Transfer functions:
#   and/or/xor   bitwise on T; an unknown bit survives an `and` only where the other operand can be 1
#   shl/shr k    shift T inside the byte; the k bits shifted in come from the neighbour: unknown iff the neighbour
#                (same function) can have a 1 there
#   add, c - v   exact when both operands are fully known and no entry overflows/borrows out of the byte (then no
#                lane ever sends a carry/borrow to its neighbour); otherwise every bit becomes unknown
#   mul3         v + (v << 1) with the same carry condition
# The core is accepted when the result has U = 0 and T equals, for all 65 536 (xb, yb), the sum over the byte's four
# dibits of the TLSH dibit distance (|a-b|, 3 -> 6).  Nothing here depends on the lane width of the backend.

def _dibit_ref():
    t = [0] * 65536
    for xb in range(256):
        for yb in range(256):
            s_ = 0
            for k in range(4):
                a, b2 = (xb >> (2 * k)) & 3, (yb >> (2 * k)) & 3
                d = abs(a - b2)
                s_ += 6 if d == 3 else d
            t[xb * 256 + yb] = s_
    return t


_REF = []


def lane_eval(d, memo=None):
    """(T, U, maybe) for DAG node d; `maybe` = OR of all table entries (bits that can be 1)."""
    memo = memo if memo is not None else {}
    key = id(d) if False else d
    if key in memo:
        return memo[key]
    k = d[0]
    FULL = range(65536)
    if k == "in":
        T = [(i >> 8) if d[1] == 1 else (i & 255) for i in FULL]
        r = (T, 0)
    elif k == "splat8":
        r = ([d[1]] * 65536, 0)
    elif k in ("k", "splat32"):
        r = None  # a constant that is not the same in every byte lane: not lane-uniform
    elif k in ("and", "or", "xor") and len(d) == 3:
        a, b = lane_eval(d[1], memo), lane_eval(d[2], memo)
        if a is None or b is None:
            r = None
        else:
            (Ta, Ua), (Tb, Ub) = a, b
            if k == "and":
                T = [x & y for x, y in zip(Ta, Tb)]
                ma, mb = _maybe(Ta) | Ua, _maybe(Tb) | Ub
                U = (Ua & mb) | (Ub & ma)
            elif k == "or":
                T = [x | y for x, y in zip(Ta, Tb)]
                U = Ua | Ub
            else:
                T = [x ^ y for x, y in zip(Ta, Tb)]
                U = Ua | Ub
            r = (T, U)
    elif k in ("shl", "shr") and len(d) == 3 and d[2][0] == "k" and isinstance(d[2][1], int) and 0 < d[2][1] < 8:
        a = lane_eval(d[1], memo)
        if a is None:
            r = None
        else:
            Ta, Ua = a
            n_ = d[2][1]
            m = _maybe(Ta) | Ua
            if k == "shr":
                T = [x >> n_ for x in Ta]
                U = (Ua >> n_) | ((m & ((1 << n_) - 1)) << (8 - n_))
            else:
                T = [(x << n_) & 255 for x in Ta]
                U = ((Ua << n_) & 255) | (m >> (8 - n_))
            r = (T, U)
    elif k in ("add", "sub") and len(d) == 3:
        a, b = lane_eval(d[1], memo), lane_eval(d[2], memo)
        if a is None or b is None:
            r = None
        else:
            (Ta, Ua), (Tb, Ub) = a, b
            if k == "add":
                T = [x + y for x, y in zip(Ta, Tb)]
                ok = Ua == 0 and Ub == 0 and max(T) <= 255
            else:
                T = [x - y for x, y in zip(Ta, Tb)]
                ok = Ua == 0 and Ub == 0 and min(T) >= 0
            r = (T, 0) if ok else ([x & 255 for x in T], 255)
    elif k == "mul3" and len(d) == 2:
        a = lane_eval(d[1], memo)
        if a is None:
            r = None
        else:
            Ta, Ua = a
            T = [3 * x for x in Ta]
            ok = Ua == 0 and max(T) <= 255
            r = (T, 0) if ok else ([x & 255 for x in T], 255)
    else:
        r = None
    memo[key] = r
    return r


def _maybe(T):
    m = 0
    for x in set(T):
        m |= x
    return m


def lane_laws(ctx, r, F):
    """C08: metric laws of the body kernel read off its lane table (the table computed from the kernel itself, not the reference)."""
    for fam in ("pseudo32", "pseudo64"):
        b, d = kernel_dag(F, BODY_KERNELS[fam])
        if b is None or d is None:
            continue
        s8 = split_tail(fam, d) or split_tail(fam, _swap_mul(d))
        res = lane_eval(s8) if s8 is not None else None
        ctx.instance(r)
        if res is None or res[1]:
            ctx.ob(r, (fam, "lane-table"), False, "no exact lane table for the %s kernel core" % fam, cfg=F.key, where=b.where())
            continue
        T = res[0]
        sym_bad = [(i >> 8, i & 255) for i in range(65536) if T[i] != T[(i & 255) * 256 + (i >> 8)]][:2]
        zero_bad = [(i >> 8, i & 255) for i in range(65536) if (T[i] == 0) != ((i >> 8) == (i & 255))][:2]
        ctx.ob(r, (fam, "lane-symmetric"), not sym_bad, "lane distance differs when the operands are swapped, e.g. bytes %s" % sym_bad, cfg=F.key, where=b.where())
        ctx.ob(r, (fam, "lane-zero-iff-equal"), not zero_bad, "lane distance is zero for different bytes / non-zero for equal bytes, e.g. %s" % zero_bad, cfg=F.key, where=b.where())
        ctx.ob(r, (fam, "lane-max-24"), max(T) == 24 and T[0x00 * 256 + 0xFF] == 24, "maximum lane distance is %d (bytes 00/ff give %d); reference 4 dibits x 6" % (max(T), T[0xFF]), cfg=F.key, where=b.where())
        break


def lane_semantics(ctx, r, F, fam, b, s8):
    """R-02.5 (core semantics): the kernel core returns, in every byte lane, the sum of the four dibit distances of that lane."""
    if not _REF:
        _REF.append(_dibit_ref())
    res = lane_eval(s8)
    why = None
    if res is None:
        why = "the core contains an operation or constant that is not uniform over byte lanes"
    else:
        T, U = res
        if U:
            why = "bits %s of a lane may depend on a neighbouring lane (carry, borrow or shifted-in bits not masked off)" % format(U, "08b")
        else:
            bad = [i for i in range(65536) if T[i] != _REF[0][i]]
            if bad:
                i = bad[0]
                why = "lane bytes x=0x%02x y=0x%02x give %d; reference %d (sum of the four dibit distances); %d of 65536 lane inputs differ" % (i >> 8, i & 255, T[i], _REF[0][i], len(bad))
    ctx.instance(r)
    ctx.ob(r, (fam, "core-semantics"), why is None,
           "the bit-sliced core of the %s kernel does not compute the per-byte sum of dibit distances: %s" % (fam, why), cfg=F.key, where=b.where(),
           detail={"lane_inputs": 65536, "max_lane_sum": 24})


def scalar_kernel_return_max(F):
    """{kernel path: largest value it can return} for the scalar (pseudo-SIMD) body-distance kernels of this configuration, derived
    from the same facts R-02.5 decides: the horizontal-sum tail has its family's recorded shape and the bit-sliced core is, per
    byte lane, the sum of four dibit distances (lane table equal to the reference, no cross-lane bits) -- hence at most 24 per
    byte.  Kernels for which either fact does not hold get no summary."""
    if not _REF:
        _REF.append(_dibit_ref())
    out = {}
    for fam, nb in (("pseudo32", 4), ("pseudo64", 8)):
        path = BODY_KERNELS[fam]
        b, d = kernel_dag(F, path)
        if b is None or d is None:
            continue
        s8 = split_tail(fam, d) or split_tail(fam, _swap_mul(d))
        if s8 is None:
            continue
        res = lane_eval(s8)
        if res is None or res[1] or any(res[0][i] != _REF[0][i] for i in range(65536)):
            continue
        out[path] = nb * max(_REF[0])
    return out


def kernel_dag(F, path):
    b = F.fn(path)
    if b is None:
        return None, None
    ps = [p for p in sym.Sym(b).paths() if p.end == "return"]
    if len(ps) != 1:
        return b, None
    return b, dag(b, ps[0].ret)


def body_kernels(ctx, r, F):
    """R-02.5: sibling agreement of the body-distance kernels compiled in this configuration."""
    got = {}
    for fam, path in BODY_KERNELS.items():
        b, d = kernel_dag(F, path)
        if b is None:
            continue
        ctx.instance(r)
        if d is None:
            ctx.missing(r, "straight-line body of %s" % path, cfg=F.key)
            continue
        s8 = None
        # canonicalise the multiply operand order for the pattern
        s8 = split_tail(fam, d) or split_tail(fam, _swap_mul(d))
        ctx.ob(r, (path.rsplit("::", 2)[-2] + "::" + path.rsplit("::", 1)[-1], "tail-family"), s8 is not None,
               "horizontal-sum tail of %s does not match its family's recorded shape" % path, cfg=F.key, where=b.where())
        if s8 is not None:
            got[fam] = (b, s8)
    # the arithmetic itself: decided once per configuration on the reference kernel (siblings are tied to it by DAG equality);
    # if the siblings differ the difference is reported below and each differing core is evaluated on its own
    sem_done = set()
    for fam in (["pseudo32"] if "pseudo32" in got else sorted(got)[:1]):
        lane_semantics(ctx, r, F, fam, got[fam][0], got[fam][1])
        sem_done.add(fam)
    # the horizontal-sum tails add the byte sums of one lane without overflow: a byte sum is at most 4 dibits x 6 = 24
    LANE_BYTES = {"pseudo32": (4, 255), "sse4.1": (4, 255), "avx2": (4, 255), "pseudo64": (8, 255), "sse2": (2, 65535), "neon": (2, 65535)}
    for fam in sorted(got):
        nb, cap = LANE_BYTES[fam]
        ctx.instance(r)
        ctx.ob(r, (fam, "tail-sum-fits"), nb * 24 <= cap,
               "the %s tail adds %d byte sums of up to 24 into a field that holds at most %d" % (fam, nb, cap), cfg=F.key, trivial=True)
    if len(got) >= 2:
        ref_fam = "pseudo32" if "pseudo32" in got else sorted(got)[0]  # the scalar kernel is the reference; a difference is reported against the SIMD backend
        ref = got[ref_fam][1]
        for fam, (b, s8) in sorted(got.items()):
            if fam == ref_fam:
                continue
            same = s8 == ref
            ctx.ob(r, (fam, "core-dag==" + ref_fam), same,
                   "the bit-sliced core of the %s kernel differs from the %s kernel: first difference %s" % (fam, ref_fam, first_diff(s8, ref)),
                   cfg=F.key, where=b.where())
    if "simd" in F.features or "opt-simd-body-comparison" in F.features:
        need = {"pseudo32", "pseudo64"} | ({"sse2", "sse4.1", "avx2"} if "detect-features" in F.features else set())
        miss = need - set(got)
        if miss:
            ctx.missing(r, "body-distance kernels %s" % sorted(miss), cfg=F.key)
    outer_loads(ctx, r, F)


def _swap_mul(d):
    if not isinstance(d, tuple):
        return d
    d = tuple(_swap_mul(x) for x in d)
    if d and isinstance(d[0], str) and d[0].startswith("mul") and len(d) == 3:
        a, b2 = sorted([d[1], d[2]], key=lambda x: (x[0] != "splat8", repr(x)))
        return (d[0], a, b2)
    return d


def first_diff(a, b, path="root"):
    if a == b:
        return None
    if not isinstance(a, tuple) or not isinstance(b, tuple) or len(a) != len(b) or a[:1] != b[:1]:
        return "%s: %s vs %s" % (path, str(a)[:80], str(b)[:80])
    for i, (x, y) in enumerate(zip(a, b)):
        if x != y:
            return first_diff(x, y, path + "/" + str(a[0]) + "." + str(i))
    return None


# ---------------------------------------------------------------- loads / outer functions

OUTER = {
    # function: (kernel family, body bytes, vector bytes)
    "compare::dist_body::x86_sse2::distance_32": ("sse2", 32, 16),
    "compare::dist_body::x86_sse2::distance_64": ("sse2", 64, 16),
    "compare::dist_body::x86_sse4_1::distance_32": ("sse4.1", 32, 16),
    "compare::dist_body::x86_sse4_1::distance_64": ("sse4.1", 64, 16),
    "compare::dist_body::x86_avx2::distance_32": ("avx2", 32, 32),
    "compare::dist_body::x86_avx2::distance_64": ("avx2", 64, 32),
    "compare::dist_body::arm_neon::distance_32": ("neon", 32, 16),
    "compare::dist_body::arm_neon::distance_64": ("neon", 64, 16),
}


LOAD_FNS = {"_mm_loadu_si128": 16, "_mm256_loadu_si256": 32, "vld1q_u8": 16, "v128_load": 16}
ELEM_SIZE = {"u8": 1, "u16": 2, "u32": 4, "u64": 8, "__m128i": 16, "__m256i": 32, "uint8x16_t": 16, "v128": 16}


def _pointee_size(b, bb):
    """size in bytes of T for the `<*const T>::add` called in block bb (None if unknown)."""
    c = b.blocks[bb]["term"]["callee"]
    for a in c.get("args", []):
        if a.get("k") == "ty":
            nm = b.f.tys(a["ty"]).rsplit("::", 1)[-1]
            return ELEM_SIZE.get(nm)
    return None


def _ptr_base_offset(b, e):
    """(base, [(count expr, element size)]) of a raw pointer expression: base is a parameter index, ('slice', expr),
    ('local', l) or None; the offset is the sum of count*size terms."""
    terms = []
    while True:
        if e[0] == "cast":
            e = e[3]
            continue
        if e[0] == "call" and e[2].endswith("::add") and len(e[3]) == 2:
            terms.append((e[3][1], _pointee_size(b, e[1])))
            e = e[3][0]
            continue
        break
    base = None
    if e[0] in ("rawptr", "ref"):
        tgt = e[2] if e[0] == "ref" else e[-1]
        if tgt[0] == "deref" and tgt[1][0] == "param":
            base = tgt[1][1]
    elif e[0] == "param":
        base = e[1]
    elif e[0] == "local":
        base = ("local", e[1])
    elif e[0] == "call" and e[2].endswith("::as_ptr"):
        base = "slice"
    return base, terms


def load_offsets(b):
    """{(base, byte offset, vector bytes)} for every unaligned vector load of b, with `for i in lo..hi` index loops and
    pointer-bumping loops (p = p.add(k) once per iteration of a constant-trip loop) expanded; plus a list of loads that
    could not be resolved."""
    S = sym.Sym(b)
    paths = S.paths()
    hdrs = {p.blocks[-1] for p in paths if p.end == "loop"}
    rngs = loop_range(b)
    out = set()
    bad = []
    # induction steps of loop-carried pointers, from a walk that starts at the loop header
    steps = {}
    for h in hdrs:
        for p in S.paths(entry=h):
            if p.end != "loop":
                continue
            for (bb, path, args, c) in p.calls:
                nm = path.rsplit("::", 1)[-1]
                if nm not in LOAD_FNS:
                    continue
                base, terms = _ptr_base_offset(b, args[0])
                if isinstance(base, tuple) and base[0] == "local" and not terms:
                    after = p.env["locals"].get(base[1]) if p.env else None
                    if after is not None:
                        b2, t2 = _ptr_base_offset(b, after)
                        if b2 == base and len(t2) == 1 and n(t2[0][0])[0] == "const" and t2[0][1]:
                            steps[bb] = n(t2[0][0])[1] * t2[0][1]
    for p in paths:
        for (bb, path, args, c) in p.calls:
            nm = path.rsplit("::", 1)[-1]
            if nm not in LOAD_FNS:
                continue
            W = LOAD_FNS[nm]
            base, terms = _ptr_base_offset(b, args[0])
            if base is None or isinstance(base, tuple):
                bad.append(sym.fmt(n(args[0]))[:80])
                continue
            offs = {0}
            okl = True
            for cnt, esz in terms:
                o = n(cnt)
                if esz is None:
                    okl = False
                elif o[0] == "const":
                    offs = {x + o[1] * esz for x in offs}
                elif len(rngs) == 1:
                    # loop index: payload of Range<usize>::next
                    offs = {x + i * esz for x in offs for i in range(rngs[0][0], rngs[0][1])}
                else:
                    okl = False
            if bb in steps:
                if len(rngs) == 1:
                    offs = {x + i * steps[bb] for x in offs for i in range(rngs[0][1] - rngs[0][0])}
                else:
                    okl = False
            if not okl:
                bad.append(sym.fmt(n(args[0]))[:80])
                continue
            for x in offs:
                out.add((base, x, W))
    return out, bad, list(paths)


def loop_range(b):
    """Constant (lo, hi) of `for i in lo..hi` loops in b (from the Range aggregate fed to into_iter)."""
    out = []
    for p in sym.Sym(b).paths():
        for (bb, path, args, c) in p.calls:
            if path.endswith("::into_iter") and args:
                a = n(args[0])
                m = match(("agg", "adt:core::ops::Range::Range", (("const", V("lo")), ("const", V("hi")))), a)
                if m:
                    out.append((m["lo"], m["hi"]))
    return sorted(set(out))


# ---------------------------------------------------------------- lane-linear interpretation of the outer functions
#
# The outer function of a vector backend must return the sum of ALL lanes of ALL kernel results, each counted once.  Every
# vector value is interpreted as a list of lanes, each lane a linear form {atom: coefficient} over the atoms (kernel call,
# lane); lane-wise adds add forms, shuffles/extracts/pairwise adds permute or combine them, the scalar tail of the 16-bit
# families unpacks the two lanes of a 32-bit word.  Any regrouping of the additions yields the same forms; a lane that is
# dropped, counted twice, added at the wrong lane width or taken from the wrong position changes them.

class _LaneErr(Exception):
    pass


def _lf_add(a, b):
    out = dict(a)
    for k, v in b.items():
        out[k] = out.get(k, 0) + v
        if out[k] == 0:
            del out[k]
    return out


def _vec_add(a, b, width):
    if a[0] != "vec" or b[0] != "vec" or a[1] != width or b[1] != width or len(a[2]) != len(b[2]):
        raise _LaneErr("lane-wise add at %d-bit lanes of %s and %s" % (width, a[:2], b[:2]))
    return ("vec", width, [_lf_add(x, y) for x, y in zip(a[2], b[2])])


def lane_linear(b, e, env, kernel_path, lanes, width, depth=0):
    """abstract value of raw expression e: ('vec', lane bits, [forms]) | ('scalar', form) | ('packed', form_lo, form_hi) | ('int', v)"""
    if depth > 300:
        raise _LaneErr("expression too deep")
    rec = lambda x: lane_linear(b, x, env, kernel_path, lanes, width, depth + 1)
    k = e[0]
    if k == "local" and e in env:
        return env[e]
    if k == "const":
        return ("int", e[1])
    if k == "cast":
        return rec(e[3])
    if k in ("val", "ref"):
        return rec(e[-1])
    if k == "bin":
        op = e[1].replace("WithOverflow", "").replace("Unchecked", "")
        a, c = rec(e[2]), rec(e[3])
        if op == "Add" and a[0] == "scalar" and c[0] == "scalar":
            return ("scalar", _lf_add(a[1], c[1]))
        if op == "Add" and "int" in (a[0], c[0]) and ("int", 0) in (a, c):
            return c if a == ("int", 0) else a
        if op == "BitAnd" and "packed" in (a[0], c[0]) and ("int", 0xFFFF) in (a, c):
            pk = a if a[0] == "packed" else c
            return ("scalar", pk[1])
        if op == "Shr" and a[0] == "packed" and c == ("int", 16):
            return ("scalar", a[2])
        raise _LaneErr("scalar operation %s on %s, %s" % (op, a[0], c[0]))
    if k == "agg" and e[1] == "tuple":
        return ("tuple", [rec(x) for x in e[2]])
    if k == "field" and isinstance(e[2], int):
        v = rec(e[1])
        if v[0] == "tuple" and e[2] < len(v[1]):
            return v[1][e[2]]
        raise _LaneErr("field of %s" % v[0])
    if k != "call":
        raise _LaneErr("unsupported expression %s" % str(e)[:60])
    bb, path, args = e[1], e[2], e[3]
    nm = path.rsplit("::", 1)[-1]
    if path == kernel_path:
        # a fresh vector of atoms; the operands (loads) are checked by the load-coverage rule
        cid = "K%d" % bb
        return ("vec", width, [{(cid, i): 1} for i in range(lanes)])
    imm = imm_of(b, bb) if isinstance(bb, int) else None
    m = re.match(r"_mm(256)?_add_epi(\d+)$", nm)
    if m:
        return _vec_add(rec(args[0]), rec(args[1]), int(m.group(2)))
    if nm in ("_mm_setzero_si128", "_mm256_setzero_si256"):
        return ("vec", width, [{} for _ in range(lanes)])
    m = re.match(r"_mm(256)?_set1_epi(\d+)$", nm)
    if m:
        v = rec(args[0])
        if v == ("int", 0):
            return ("vec", width, [{} for _ in range(lanes)])
        raise _LaneErr("splat of a non-zero value")
    if nm in ("_mm_shuffle_epi32", "_mm256_shuffle_epi32"):
        v = rec(args[0])
        if v[0] != "vec" or imm is None:
            raise _LaneErr("shuffle of %s" % v[0])
        per32 = 32 // v[1]  # lanes per 32-bit group
        groups = [v[2][i:i + per32] for i in range(0, len(v[2]), per32)]
        out = []
        for half in range(0, len(groups), 4):  # each 128-bit half separately
            for j in range(4):
                out += groups[half + ((imm >> (2 * j)) & 3)]
        return ("vec", v[1], out)
    if nm == "_mm_cvtsi128_si32":
        v = rec(args[0])
        if v[0] != "vec":
            raise _LaneErr("cvtsi128_si32 of %s" % v[0])
        return ("scalar", v[2][0]) if v[1] == 32 else ("packed", v[2][0], v[2][1])
    if nm == "_mm256_extract_epi32":
        v = rec(args[0])
        if v[0] != "vec" or v[1] != 32 or imm is None or not (0 <= imm < len(v[2])):
            raise _LaneErr("extract_epi32::<%s> of %s" % (imm, v[:2]))
        return ("scalar", v[2][imm])
    # NEON
    m = re.match(r"vaddq?_u(\d+)$", nm)
    if m:
        return _vec_add(rec(args[0]), rec(args[1]), int(m.group(1)))
    m = re.match(r"vdupq_n_u(\d+)$", nm)
    if m:
        if rec(args[0]) == ("int", 0):
            return ("vec", int(m.group(1)), [{} for _ in range(128 // int(m.group(1)))])
        raise _LaneErr("splat of a non-zero value")
    m = re.match(r"vpaddlq_u(\d+)$", nm)
    if m:
        v = rec(args[0])
        if v[0] != "vec" or v[1] != int(m.group(1)):
            raise _LaneErr("vpaddlq_u%s of %s" % (m.group(1), v[:2]))
        return ("vec", v[1] * 2, [_lf_add(v[2][2 * j], v[2][2 * j + 1]) for j in range(len(v[2]) // 2)])
    m = re.match(r"vget_(high|low)_u(\d+)$", nm)
    if m:
        v = rec(args[0])
        if v[0] != "vec" or v[1] != int(m.group(2)):
            raise _LaneErr("%s of %s" % (nm, v[:2]))
        h = len(v[2]) // 2
        return ("vec", v[1], v[2][h:] if m.group(1) == "high" else v[2][:h])
    m = re.match(r"vget_lane_u(\d+)$", nm)
    if m:
        v = rec(args[0])
        if v[0] != "vec" or v[1] != int(m.group(1)) or imm is None or not (0 <= imm < len(v[2])):
            raise _LaneErr("%s::<%s> of %s" % (nm, imm, v[:2]))
        return ("scalar", v[2][imm])
    if nm == "wrapping_add" and len(args) == 2:
        a, c = rec(args[0]), rec(args[1])
        if a[0] == "scalar" and c[0] == "scalar":
            return ("scalar", _lf_add(a[1], c[1]))
        raise _LaneErr("wrapping_add of %s, %s" % (a[0], c[0]))
    if nm == "wrapping_shr" and len(args) == 2:
        a, c = rec(args[0]), rec(args[1])
        if a[0] == "packed" and c == ("int", 16):
            return ("scalar", a[2])
        raise _LaneErr("wrapping_shr of %s by %s" % (a[0], c))
    raise _LaneErr("unsupported call %s" % nm)


KERNEL_LANES = {"sse2": (8, 16), "sse4.1": (4, 32), "avx2": (8, 32), "neon": (8, 16)}


def outer_linear(ctx, r, F, b, path, fam):
    """the outer function returns the sum of every lane of every kernel result exactly once"""
    name = path.rsplit("::", 2)[-2] + "::" + path.rsplit("::", 1)[-1]
    lanes, width = KERNEL_LANES[fam]
    kern = BODY_KERNELS[fam]
    S = sym.Sym(b)
    paths = S.paths()
    rets = [p for p in paths if p.end == "return"]
    loops = [p for p in paths if p.end == "loop"]
    why = None
    n_k = 0
    try:
        if not loops:
            if len(rets) != 1:
                raise _LaneErr("%d returning paths" % len(rets))
            v = lane_linear(b, rets[0].ret, {}, kern, lanes, width)
            n_k = len({a[0] for a in (v[1] if v[0] == "scalar" else {})})
        else:
            hdr = loops[0].blocks[-1]
            step = [p for p in S.paths(entry=hdr) if p.end == "loop"]
            after = [p for p in S.paths(entry=hdr) if p.end == "return"]
            if len(step) != 1 or len(after) != 1:
                raise _LaneErr("loop with %d step paths and %d exits" % (len(step), len(after)))
            # accumulators: locals whose value after one iteration is add(previous value, kernel result)
            accs = {}
            for l, val in (step[0].env["locals"].items() if step[0].env else ()):
                try:
                    nv = lane_linear(b, val, {("local", l): ("vec", width, [{("ACC", i): 1} for i in range(lanes)])}, kern, lanes, width)
                except _LaneErr:
                    continue
                if nv[0] == "vec" and nv[1] == width and all(f.get(("ACC", i)) == 1 and len(f) == 2 and sum(f.values()) == 2 for i, f in enumerate(nv[2])):
                    # previous value + exactly one kernel lane i
                    if all([k_ for k_ in f if k_[0] != "ACC"][0][1] == i for i, f in enumerate(nv[2])):
                        accs[l] = True
            if not accs:
                raise _LaneErr("no accumulator of the form s = add(s, kernel(..)) in the loop")
            # initial value zero: entry path value of the accumulator at the header
            for l in accs:
                init = loops[0].env["locals"].get(l) if loops[0].env else None
            env = {("local", l): ("vec", width, [{("SUM", i): 1} for i in range(lanes)]) for l in accs}
            v = lane_linear(b, after[0].ret, env, kern, lanes, width)
            n_k = 1
        if v[0] != "scalar":
            raise _LaneErr("the function returns a %s" % v[0])
        form = v[1]
        ids = sorted({a[0] for a in form})
        bad = [(a, c) for a, c in form.items() if c != 1]
        missing = [(i, ln) for i in ids for ln in range(lanes) if (i, ln) not in form]
        if bad:
            why = "lane %s of kernel call %s is counted %d times" % (bad[0][0][1], bad[0][0][0], bad[0][1])
        elif missing:
            why = "lane %d of kernel call %s does not reach the result" % (missing[0][1], missing[0][0])
        elif not ids:
            why = "no kernel result reaches the returned value"
        n_k = len(ids)
    except _LaneErr as ex:
        why = str(ex)
    ctx.instance(r)
    ctx.ob(r, (name, "sums-every-lane-once"), why is None,
           "%s does not return the sum of all %d lanes of each kernel result exactly once: %s" % (path, lanes, why), cfg=F.key, where=b.where(),
           detail={"kernel_results": n_k, "lanes": lanes, "lane_bits": width})
    return why is None


def x86_reduction(ctx, r, F, b, path, fam):
    # lane-reduction shuffles: every backend reduces with the immediates 0b11_10_11_10 then 0b01_01_01_01
    imms = []
    for i, blk in enumerate(b.blocks):
        t = blk["term"]
        if t["t"] == "call" and (t["callee"].get("path") or "").endswith("shuffle_epi32"):
            imms.append(imm_of(b, i))
    okimm = len(imms) >= 2 and len(imms) % 2 == 0 and all(imms[j:j + 2] == [0xEE, 0x55] for j in range(0, len(imms), 2))
    ctx.ob(r, (path.rsplit("::", 2)[-2] + "::" + path.rsplit("::", 1)[-1], "reduction-shuffles"), okimm,
           "%s reduces lanes with shuffle immediates %s; reference pairs (0xEE, 0x55)" % (path, [hex(x) if x is not None else None for x in imms]), cfg=F.key, where=b.where())
    # accumulator lane width: every vector add in the outer function uses the lane width of the kernel's result
    # (16-bit sums for SSE2, 32-bit for SSE4.1/AVX2); a narrower add would wrap partial sums
    want_lane = {"sse2": "16", "sse4.1": "32", "avx2": "32"}[fam]
    adds = []
    for i, blk in enumerate(b.blocks):
        t = blk["term"]
        if t["t"] == "call":
            m_ = re.search(r"_mm(?:256)?_(add|adds|sub)_epi(\d+)$", t["callee"].get("path") or "")
            if m_:
                adds.append(m_.group(2))
    ctx.ob(r, (path.rsplit("::", 2)[-2] + "::" + path.rsplit("::", 1)[-1], "accumulator-lane-width"), bool(adds) and set(adds) == {want_lane},
           "%s accumulates with %s-bit vector adds; reference %s-bit lanes (the kernel's result width)" % (path, sorted(set(adds)), want_lane), cfg=F.key, where=b.where())
    # final scalar extraction
    tail_calls = [((t["callee"].get("path") or "").rsplit("::", 1)[-1]) for _, t in b.calls()]
    if fam == "sse2":
        okx = tail_calls.count("_mm_cvtsi128_si32") == 1 and "wrapping_add" in tail_calls and "wrapping_shr" in tail_calls
    elif fam == "sse4.1":
        okx = tail_calls.count("_mm_cvtsi128_si32") == 1
    else:
        ex = [imm_of(b, i) for i, blk in enumerate(b.blocks) if blk["term"]["t"] == "call" and (blk["term"]["callee"].get("path") or "").endswith("_mm256_extract_epi32")]
        okx = len(ex) >= 2 and len(ex) % 2 == 0 and all(ex[j:j + 2] == [0, 4] for j in range(0, len(ex), 2))
    ctx.ob(r, (path.rsplit("::", 2)[-2] + "::" + path.rsplit("::", 1)[-1], "scalar-extraction"), okx,
           "%s extracts the final sum differently from its family's recorded shape (%s)" % (path, tail_calls[-6:]), cfg=F.key, where=b.where())


def neon_reduction(ctx, r, F, b, path):
    """NEON outer functions: 16-bit accumulation of the kernel results, widening pairwise add to 4 u32 lanes, high half + low half,
    lane 0 + lane 1."""
    name = path.rsplit("::", 2)[-2] + "::" + path.rsplit("::", 1)[-1]
    adds = []
    for i, blk in enumerate(b.blocks):
        t = blk["term"]
        if t["t"] == "call":
            m_ = re.search(r"::v(add|sub|qadd)q_u(\d+)$", t["callee"].get("path") or "")
            if m_:
                adds.append(m_.group(2))
    ctx.ob(r, (name, "accumulator-lane-width"), bool(adds) and set(adds) == {"16"},
           "%s accumulates kernel results with %s-bit vector adds; reference 16-bit lanes (the kernel's result width)" % (path, sorted(set(adds))), cfg=F.key, where=b.where())
    S = sym.Sym(b)
    rets = [p for p in S.paths() if p.end == "return"]
    hdrs = {p.blocks[-1] for p in S.paths() if p.end == "loop"}
    for h in hdrs:
        rets += [p for p in S.paths(entry=h) if p.end == "return"]
    ok = bool(rets)
    why = []
    for p in rets:
        d = dag(b, p.ret)
        A = V("acc")
        T = ("paddl16", A)
        SUM = ("add", ("get_high32", T), ("get_low32", T))
        pat = ("add", ("lane32", SUM, ("k", 0)), ("lane32", SUM, ("k", 1)))
        m = match(pat, d) or match(("add", pat[2], pat[1]), d)
        if not m:
            ok = False
            why.append(str(d)[:160])
    ctx.ob(r, (name, "scalar-extraction"), ok,
           "%s reduces differently from lane0 + lane1 of (high + low) of vpaddlq_u16(acc): %s" % (path, why[:1]), cfg=F.key, where=b.where())


def outer_loads(ctx, r, F):
    for path, (fam, size, W) in OUTER.items():
        b = F.fn(path)
        if b is None:
            continue
        ctx.instance(r)
        loads, bad, allp = load_offsets(b)
        rngs = loop_range(b)
        per = {1: [], 2: []}
        ok = not bad
        for (base, off, w) in loads:
            if base not in (1, 2) or w != W or off % W:
                ok = False
                continue
            per[base].append(off // W)
        for k_ in per:
            if len(per[k_]) != len(set(per[k_])):
                ok = False
            per[k_] = set(per[k_])
        want = set(range(size // W))
        cover = per[1] == want and per[2] == want
        ctx.ob(r, (path.rsplit("::", 2)[-2] + "::" + path.rsplit("::", 1)[-1], "loads-cover-body"), ok and cover,
               "%s loads vector chunks %s / %s of its two %d-byte bodies (vector width %d, loop ranges %s); reference every chunk %s exactly once from each" % (
                   path, sorted(per[1]), sorted(per[2]), size, W, rngs, sorted(want)), cfg=F.key, where=b.where())
        outer_linear(ctx, r, F, b, path, fam)
        # kernel called on pairs (x_i, y_i) of the same chunk, and every result is accumulated
        kern = BODY_KERNELS[fam]
        pairs_ok = True
        ncalls = 0
        for p in allp:
            for (bb, cp, args, c) in p.calls:
                if cp == kern:
                    ncalls += 1
                    a = [str(n(x)) for x in args]
                    # same offset expression on both sides, param 1 first
                    s1 = re.sub(r"\('param', 1\)", "P", a[0])
                    s2 = re.sub(r"\('param', 2\)", "P", a[1])
                    if s1 != s2:
                        pairs_ok = False
        ctx.ob(r, (path.rsplit("::", 2)[-2] + "::" + path.rsplit("::", 1)[-1], "kernel-on-matching-chunks"), pairs_ok and ncalls > 0,
               "%s does not feed its kernel with (body1 chunk i, body2 chunk i) pairs" % path, cfg=F.key, where=b.where())
    pseudo_outer(ctx, r, F)


SUBD = ("compare::dist_body::pseudo_simd_32::sub_distance", "compare::dist_body::pseudo_simd_64::sub_distance")
SUBD_BYTES = {SUBD[0]: 4, SUBD[1]: 8}


def _word_of(e):
    """(param index, window start, window end | None, chunk description) of a `uN::from_ne_bytes(<window>.try_into().unwrap())`
    word, where the window is a constant slice of a body parameter; or ('chunk', which) for a chunks_exact item."""
    x = e
    if not (x[0] == "call" and x[1].endswith(("::from_ne_bytes", "::from_le_bytes"))):
        return None
    x = x[2][0]
    if x[0] == "call" and x[1].endswith("::unwrap"):
        x = x[2][0]
    if x[0] == "call" and x[1].endswith("try_into"):
        x = x[2][0]
    return x


def pseudo_outer(ctx, r, F):
    """pseudo-SIMD outer functions: every word of body1 is paired with the word at the same offset of body2, each pair goes
    through sub_distance once and the results are summed.  Accepted spellings: a `for` loop or `.map(..).sum()` over
    body1.chunks_exact(k).zip(body2.chunks_exact(k)) (k = the word size of the kernel called), or explicit constant windows
    (indexing, split_at) that tile the body."""
    from . import layout
    for path, size in (("compare::dist_body::pseudo_simd_32::distance_12", 12), ("compare::dist_body::pseudo_simd_32::distance_32", 32),
                       ("compare::dist_body::pseudo_simd_32::distance_64", 64), ("compare::dist_body::pseudo_simd_64::distance_12", 12),
                       ("compare::dist_body::pseudo_simd_64::distance_32", 32), ("compare::dist_body::pseudo_simd_64::distance_64", 64)):
        b = F.fn(path)
        if b is None:
            continue
        ctx.instance(r)
        name = path.rsplit("::", 2)[-2] + "::" + path.rsplit("::", 1)[-1]
        S = sym.Sym(b)
        paths = S.paths()
        why = None
        try:
            why = _pseudo_one(F, b, S, paths, size, layout)
        except Exception as ex:  # noqa: BLE001 -- an unrecognised shape is reported, never skipped
            why = "cannot analyse: %s" % ex
        ctx.ob(r, (name, "chunks-cover-body"), why is None,
               "%s does not sum sub_distance over the word pairs (body1 word i, body2 word i) that tile its %d-byte bodies: %s" % (path, size, why),
               cfg=F.key, where=b.where())


def _chunk_iter(e, closure_ok=True):
    """k and the two sources of `a.chunks_exact(k).zip(b.chunks_exact(k))` (through into_iter/iter adapters), else None"""
    x = e
    while x[0] == "call" and x[1].endswith(("::into_iter", "::iter", "::by_ref")) and len(x[2]) == 1:
        x = x[2][0]
    if not (x[0] == "call" and x[1].endswith("::zip") and len(x[2]) == 2):
        return None
    srcs = []
    ks = []
    for side in x[2]:
        y = side
        while y[0] == "call" and y[1].endswith(("::into_iter", "::iter")) and len(y[2]) == 1:
            y = y[2][0]
        if not (y[0] == "call" and y[1].endswith("::chunks_exact") and len(y[2]) == 2 and y[2][1][0] == "const"):
            return None
        ks.append(y[2][1][1])
        base = y[2][0]
        while base[0] == "call" and base[1].endswith(("::as_slice", "::as_ref")) and len(base[2]) == 1:
            base = base[2][0]
        while base[0] in ("ref", "cast", "deref"):
            base = base[-1]
        srcs.append(base)
    if ks[0] != ks[1]:
        return None
    return ks[0], srcs


def _pseudo_one(F, b, S, paths, size, layout):
    rets = [p for p in paths if p.end == "return"]
    loops = [p for p in paths if p.end == "loop"]
    if loops:
        # for (x, y) in a.chunks_exact(k).zip(b.chunks_exact(k)) { total += sub_distance(word(x), word(y)) }
        pre = loops[0]
        its = [n(c[2][0]) for c in pre.calls if c[1].endswith("::into_iter")]
        ci = _chunk_iter(its[-1]) if its else None
        if ci is None:
            return "the loop does not iterate body1.chunks_exact(k).zip(body2.chunks_exact(k))"
        k, srcs = ci
        if srcs != [P(1), P(2)]:
            return "the zipped chunk iterators are over %s; reference (body1, body2)" % [sym.fmt(x) for x in srcs]
        hdr = pre.blocks[-1]
        step = [p for p in S.paths(entry=hdr) if p.end == "loop"]
        if len(step) != 1:
            return "%d loop-step paths" % len(step)
        p = step[0]
        ks = [c for c in p.calls if c[1] in SUBD]
        if len(ks) != 1 or SUBD_BYTES[ks[0][1]] != k:
            return "the loop body calls sub_distance %d times / with a %d-byte chunk" % (len(ks), k)
        nxt = [n(("call", c[0], c[1], c[2])) for c in p.calls if c[1].endswith("::next")]
        item = ("field", ("variant", nxt[0], "Some"), 0) if nxt else None
        args = [n(a) for a in ks[0][2]]
        ws = [_word_of(a) for a in args]
        if ws != [("field", item, 0), ("field", item, 1)]:
            return "sub_distance is applied to %s; reference (word of body1 chunk, word of body2 chunk)" % [sym.fmt(a)[:60] for a in args]
        # accumulation: some local becomes previous + call result
        callv = n(("call", ks[0][0], ks[0][1], ks[0][2]))
        acc_ok = False
        for l, v in (p.env["locals"].items() if p.env else ()):
            nv = n(v)
            if nv[0] == "bin" and nv[1] == "Add" and callv in (nv[2], nv[3]) and ("local", l) in (nv[2], nv[3]):
                acc_ok = True
        if not acc_ok:
            return "the call result is not added to an accumulator"
        return None
    if len(rets) != 1:
        return "%d returning paths" % len(rets)
    e = n(rets[0].ret)
    # .map(closure).sum()
    if e[0] == "call" and e[1].endswith("::sum") and len(e[2]) == 1:
        m_ = e[2][0]
        if not (m_[0] == "call" and m_[1].endswith("::map") and len(m_[2]) == 2):
            return "sum() of %s" % sym.fmt(m_)[:60]
        ci = _chunk_iter(m_[2][0])
        if ci is None:
            return "map() is not over body1.chunks_exact(k).zip(body2.chunks_exact(k))"
        k, srcs = ci
        if srcs != [P(1), P(2)]:
            return "the zipped chunk iterators are over %s; reference (body1, body2)" % [sym.fmt(x) for x in srcs]
        clo = m_[2][1]
        cpath = None
        for x in find_all(clo, lambda y: y[0] == "agg" and isinstance(y[1], str) and y[1].startswith("closure:")):
            cpath = x[1][len("closure:"):]
        cb = F.fn(cpath) if cpath else None
        if cb is None:
            return "the mapped function is not a closure of this function"
        cps = [q for q in sym.Sym(cb).paths() if q.end == "return"]
        if len(cps) != 1:
            return "closure with %d returning paths" % len(cps)
        ce = n(cps[0].ret)
        if not (ce[0] == "call" and ce[1] in SUBD and SUBD_BYTES[ce[1]] == k):
            return "the closure returns %s" % sym.fmt(ce)[:60]
        ws = [_word_of(a) for a in ce[2]]
        # closure parameter 2 is the (x, y) tuple
        if ws != [("field", P(2), 0), ("field", P(2), 1)]:
            return "the closure applies sub_distance to %s" % [sym.fmt(a)[:60] for a in ce[2]]
        return None
    # explicit windows
    terms = []

    def flat(x):
        if x[0] == "bin" and x[1] == "Add":
            flat(x[2])
            flat(x[3])
        else:
            terms.append(x)

    flat(e)
    wins = []
    for t in terms:
        if not (t[0] == "call" and t[1] in SUBD):
            return "the result has a term %s" % sym.fmt(t)[:60]
        ws = [_word_of(a) for a in t[2]]
        w1 = layout.window(ws[0], P(1)) if ws[0] is not None else None
        w2 = layout.window(ws[1], P(2)) if ws[1] is not None else None
        if w1 is None or w2 is None:
            return "sub_distance arguments %s are not words of (body1, body2)" % [sym.fmt(a)[:50] for a in t[2]]
        lo1, hi1 = w1[0], (w1[1] if w1[1] is not None else C(size))
        lo2, hi2 = w2[0], (w2[1] if w2[1] is not None else C(size))
        if (lo1, hi1) != (lo2, hi2) or lo1[0] != "const" or hi1[0] != "const":
            return "word windows %s and %s differ" % ((sym.fmt(lo1), sym.fmt(hi1)), (sym.fmt(lo2), sym.fmt(hi2)))
        if hi1[1] - lo1[1] != SUBD_BYTES[t[1]]:
            return "a %d-byte window is fed to the %d-byte kernel" % (hi1[1] - lo1[1], SUBD_BYTES[t[1]])
        wins.append((lo1[1], hi1[1]))
    wins.sort()
    pos = 0
    for lo, hi in wins:
        if lo != pos:
            return "windows %s do not tile [0,%d)" % (wins, size)
        pos = hi
    if pos != size:
        return "windows %s do not tile [0,%d)" % (wins, size)
    return None


# ---------------------------------------------------------------- aggregation kernels

AGG = {
    "sse2": ("generate::bucket_aggregation::x86_sse2::sub_aggregation", 4),
    "ssse3": ("generate::bucket_aggregation::x86_ssse3::sub_aggregation", 4),
    "avx2": ("generate::bucket_aggregation::x86_avx2::sub_aggregation", 8),
    "wasm": ("generate::bucket_aggregation::wasm32_simd128::sub_aggregation", 4),
}


def wasm_agg_core(ctx, r, F, b, path, d):
    """WebAssembly simd128: native unsigned compare (no sign bias), 16-bit-lane bitmask gives two mask bits per bucket:
    result = (bitmask(v>q2) & 0xaa) | (bitmask((v>q1)^(v>q2)^(v>q3)) & 0x55)."""
    cmps = {repr(c): c for c in find_all(d, lambda x: x[0] == "ugt32")}.values()
    info = {}
    msgs = []
    ok = True
    for c in cmps:
        lhs, rhs = c[1], c[2]
        m = match(("splat", 32, ("in", V("q"))), rhs)
        if lhs[0] != "v128_load" or not m:
            ok = False
            msgs.append("compare %s" % str(c)[:100])
        else:
            info[m["q"]] = c
    if sorted(info) != [2, 3, 4]:
        ok = False
        msgs.append("thresholds compared: params %s; reference q1,q2,q3 = params 2,3,4" % sorted(info))
    else:
        c1, c2, c3 = info[2], info[3], info[4]
        three = sorted(map(repr, [c1, c2, c3]))
        hi = find_all(d, lambda x: x[0] == "and" and ("k", 0xAA) in x[1:] and any(y == ("bitmask16", c2) for y in x[1:]))
        lo = find_all(d, lambda x: x[0] == "and" and ("k", 0x55) in x[1:] and any(y[0] == "bitmask16" and y[1][0] == "xor" and _flat_xor(y[1]) == three for y in x[1:]))
        top = d
        while top[0] in ("cast",):
            top = top[-1]
        if not hi or not lo:
            ok = False
            msgs.append("bit packing: high-bit terms %d, low-bit terms %d" % (len(hi), len(lo)))
        elif not (top[0] == "or" and sorted(map(repr, top[1:])) == sorted(map(repr, [hi[0], lo[0]]))):
            ok = False
            msgs.append("result is %s" % str(top)[:120])
    ctx.ob(r, ("wasm::sub_aggregation", "comparison-core"), ok,
           "%s: %s; reference (bitmask16(v>q2) & 0xaa) | (bitmask16((v>q1)^(v>q2)^(v>q3)) & 0x55) with unsigned compares of the loaded vector against splat(q)" % (path, "; ".join(msgs[:2])),
           cfg=F.key, where=b.where())


def wasm_load_gate(ctx, r, F, b, path, lanes):
    gate = None
    for q in sym.Sym(b).paths():
        for (bb, dcond, taken, vals) in q.conds:
            e = n(dcond)
            m = match(("bin", "Le", ("const", V("k")), ("call", "core::slice::<impl [T]>::len", (P(1),))), e)
            if m:
                gate = m["k"]
    loads, bad, _ = load_offsets(b)
    okl = gate == lanes and loads == {("slice", 0, lanes * 4)} and not bad
    ctx.ob(r, ("wasm::sub_aggregation", "load-inside-asserted-chunk"), okl,
           "%s asserts len >= %s and loads %s; reference assert len >= %d and one %d-byte load at offset 0" % (path, gate, sorted(map(str, loads)), lanes, lanes * 4),
           cfg=F.key, where=b.where())


def agg_kernels(ctx, r, F):
    """Comparison core of the aggregation backends: biased unsigned compare against the three thresholds,
    high bit from q2, low bit from q1^q2^q3."""
    seen = {}
    for fam, (path, lanes) in AGG.items():
        b = F.fn(path)
        if b is None:
            continue
        ctx.instance(r)
        ps = [p for p in sym.Sym(b).paths() if p.end == "return"]
        if len(ps) != 1:
            ctx.missing(r, "single returning path of %s" % path, cfg=F.key)
            continue
        p = ps[0]
        d = dag(b, p.ret)
        if fam == "wasm":
            wasm_agg_core(ctx, r, F, b, path, d)
            wasm_load_gate(ctx, r, F, b, path, lanes)
            continue
        cmps = find_all(d, lambda x: x[0] == "cmpgt")
        cmps = {repr(c): c for c in cmps}.values()
        BIAS = ("splat32", 0x80000000)
        info = {}
        ok = True
        msgs = []
        for c in cmps:
            lhs, rhs = c[1], c[2]
            # data ^ bias on the left
            okl = lhs[0] == "xor" and BIAS in lhs[1:] and any(x[0] == "loadu_si128" or x[0] == "loadu_si256" for x in lhs[1:])
            m = match(("splat", 32, ("xor", V("a"), V("b"))), rhs)
            q = None
            if m:
                for x, y in ((m["a"], m["b"]), (m["b"], m["a"])):
                    if x == ("k", 0x80000000) and y[0] == "in":
                        q = y[1]
            if not okl or q is None:
                ok = False
                msgs.append("compare %s" % str(c)[:100])
            else:
                info[q] = c
        if sorted(info) != [2, 3, 4]:
            ok = False
            msgs.append("thresholds compared: params %s; reference q1,q2,q3 = params 2,3,4" % sorted(info))
        else:
            c1, c2, c3 = info[2], info[3], info[4]
            x3 = ("xor",) + tuple(sorted([("xor",) + tuple(sorted([c1, c2], key=repr)), c3], key=repr))
            # low bit source = xor of the three masks (any association), high bit source = c2 alone
            lows = find_all(d, lambda x: x[0] == "xor" and _flat_xor(x) == sorted(map(repr, [c1, c2, c3])))
            if not lows:
                ok = False
                msgs.append("no xor of the three compare masks")
            his = find_all(d, lambda x: x[0] in ("packs_epi16", "shuffle_epi8") and x[1] == c2)
            los = find_all(d, lambda x: x[0] in ("packs_epi16", "shuffle_epi8") and x[1][0] == "xor" and _flat_xor(x[1]) == sorted(map(repr, [c1, c2, c3])))
            if len({repr(h) for h in his}) != 1 or len({repr(l) for l in los}) != 1:
                ok = False
                msgs.append("bit packing: high-bit sources %d, low-bit sources %d" % (len(his), len(los)))
            else:
                seen[fam] = (his[0], los[0], d)
        ctx.ob(r, (fam + "::sub_aggregation", "comparison-core"), ok,
               "%s: %s; reference cmpgt(data^0x80000000, splat(q^0x80000000)) for q1,q2,q3, dibit = 2*[v>q2] + ([v>q1]^[v>q2]^[v>q3])" % (path, "; ".join(msgs[:2])),
               cfg=F.key, where=b.where())
        # chunk assertion and load width
        asserts = [c for c in sym.Sym(b).paths() if c.end == "diverge"]
        gate = None
        for q in sym.Sym(b).paths():
            for (bb, dcond, taken, vals) in q.conds:
                e = n(dcond)
                m = match(("bin", "Le", ("const", V("k")), ("call", "core::slice::<impl [T]>::len", (P(1),))), e)
                if m:
                    gate = m["k"]
        loads, bad, _ = load_offsets(b)
        okl = gate == lanes and loads == {("slice", 0, lanes * 4)} and not bad
        ctx.ob(r, (fam + "::sub_aggregation", "load-inside-asserted-chunk"), okl,
               "%s asserts len >= %s and loads %s; reference assert len >= %d and one %d-byte load at offset 0" % (path, gate, sorted(map(str, loads)), lanes, lanes * 4),
               cfg=F.key, where=b.where())
    # shuffle masks: ssse3 and avx2 equal up to duplication across 128-bit halves; sse2 uses packs + movemask & 0xaa/0x55
    if "ssse3" in seen and "avx2" in seen:
        def mask_bytes(node):
            m = node[2]
            if m[0] == "set_epi8":
                return [x[1] & 0xFF if x[0] == "k" else None for x in m[1:]]
            return None
        for which, i in (("high", 0), ("low", 1)):
            a = mask_bytes(seen["ssse3"][i])
            b2 = mask_bytes(seen["avx2"][i])
            ok = a is not None and b2 is not None and len(a) == 16 and len(b2) == 32 and b2[:16] == a and b2[16:] == a
            ctx.ob(r, ("ssse3/avx2", "shuffle-mask-" + which), ok, "%s-bit shuffle masks differ between SSSE3 (%s) and AVX2 (%s)" % (which, a, b2), cfg=F.key)
    if "sse2" in seen:
        d = seen["sse2"][2]
        ands = find_all(d, lambda x: x[0] == "and" and any(y in (("k", 0xAA), ("k", 0x55)) for y in x[1:]))
        ks = sorted({y[1] for x in ands for y in x[1:] if y[0] == "k"})
        ctx.ob(r, ("sse2::sub_aggregation", "movemask-masks"), ks == [0x55, 0xAA], "SSE2 movemask masks %s; reference 0xaa (high bits) / 0x55 (low bits)" % [hex(k) for k in ks], cfg=F.key)
    outer_agg(ctx, r, F)


def _flat_xor(x):
    out = []

    def rec(y):
        if y[0] == "xor":
            for z in y[1:]:
                rec(z)
        else:
            out.append(repr(y))

    rec(x)
    return sorted(out)


def outer_agg(ctx, r, F):
    """All backends write output bytes in reverse order over chunks_exact(4 | 8) of the buckets."""
    for mod, chunk, outchunk in (("x86_sse2", 4, None), ("x86_ssse3", 4, None), ("x86_avx2", 8, 2), ("wasm32_simd128", 4, None)):
        for nm in ("aggregate_48", "aggregate_128", "aggregate_256"):
            b = F.fn("generate::bucket_aggregation::%s::%s" % (mod, nm))
            if b is None:
                continue
            ctx.instance(r)
            pre = None
            S = sym.Sym(b)
            for p in S.paths():
                if p.end == "loop":
                    pre = p
            ok = False
            desc = None
            if pre is not None:
                names = [c[1].rsplit("::", 1)[-1] for c in pre.calls]
                sig = [x for x in names if x in ("iter_mut", "chunks_mut", "rev", "as_slice", "chunks_exact", "zip")]
                want = (["iter_mut", "rev", "as_slice", "chunks_exact", "zip"] if outchunk is None else ["chunks_mut", "rev", "as_slice", "chunks_exact", "zip"])
                ce = [[n(a) for a in c[2]] for c in pre.calls if c[1].endswith("::chunks_exact")]
                cm = [[n(a) for a in c[2]] for c in pre.calls if c[1].endswith("::chunks_mut")]
                ok = sig == want and len(ce) == 1 and ce[0][1] == C(chunk) and (outchunk is None or (len(cm) == 1 and cm[0][1] == C(outchunk)))
                desc = "%s chunk %s" % (sig, ce[0][1] if ce else None)
                # kernel receives (chunk, q1, q2, q3) in order
                ks = [c for c in pre.calls if c[1].endswith("::sub_aggregation")]
                if len(ks) != 1 or [n(a) for a in ks[0][2]][1:] != [P(3), P(4), P(5)]:
                    ok = False
                    desc += "; kernel args %s" % ([sym.fmt(n(a)) for a in ks[0][2]] if ks else None)
                if outchunk == 2 and ks:
                    # (out[0], out[1]) = (hi half, lo half) of the kernel's pair
                    st = [(n(pl), n(v)) for _, pl, v in pre.stores]
                    idxs = sorted((pl[2], v[2]) for pl, v in st if pl[0] == "index" and v[0] == "field")
                    if idxs != [(C(0), 0), (C(1), 1)]:
                        ok = False
                        desc += "; pair stored as %s" % idxs
            ctx.ob(r, ("%s::%s" % (mod, nm), "orientation"), ok, "%s::%s iterates %s; reference out reversed x buckets.chunks_exact(%d)" % (mod, nm, desc, chunk), cfg=F.key, where=b.where())


# ---------------------------------------------------------------- dispatch

DISPATCHERS = {
    "compare::dist_body::distance_32": ("compare::dist_body::DISPATCH_DISTANCE_32", "distance_32"),
    "compare::dist_body::distance_64": ("compare::dist_body::DISPATCH_DISTANCE_64", "distance_64"),
    "generate::bucket_aggregation::aggregate_48": ("generate::bucket_aggregation::DISPATCH_AGGREGATE_48", "aggregate_48"),
    "generate::bucket_aggregation::aggregate_128": ("generate::bucket_aggregation::DISPATCH_AGGREGATE_128", "aggregate_128"),
    "generate::bucket_aggregation::aggregate_256": ("generate::bucket_aggregation::DISPATCH_AGGREGATE_256", "aggregate_256"),
}


def implied_features(F):
    """feature -> set of features it implies, read from the compiler's implied lists."""
    imp = {}
    for b in F.bodies:
        tfs = b.d.get("target_features") or []
        en = [t["name"] for t in tfs if t["kind"] == "Enabled"]
        al = {t["name"] for t in tfs}
        for e in en:
            if len(en) == 1:
                imp.setdefault(e, set()).update(al)
    return imp


def required_features(F, G, path, memo=None, depth=0):
    """Union of target features needed by `path` and everything it calls (local fns + intrinsics)."""
    memo = memo if memo is not None else {}
    if path in memo:
        return memo[path]
    memo[path] = set()
    b = F.fn(path)
    need = set()
    if b is None or depth > 12:
        return need
    need |= {t["name"] for t in (b.d.get("target_features") or [])}
    for _, t in b.calls():
        c = t["callee"]
        need |= set(c.get("target_features") or [])
        res = c.get("resolved") or {}
        if res.get("krate") == "tlsh":
            need |= required_features(F, G, res["path"], memo, depth + 1)
    memo[path] = need
    return need


def dispatch(ctx, r, F):
    """R-07.5 / R-17.3: every backend call happens under a detection (or static feature set) that implies the
    features of the callee and of everything it calls."""
    imp = implied_features(F)
    static = set(F.d["target_features"])
    runtime = "detect-features" in F.features and "simd-per-arch" in F.features
    for dpath, (static_name, fname) in DISPATCHERS.items():
        d = F.fn(dpath)
        if d is None:
            continue
        ctx.instance(r)
        if runtime:
            # the get_or_init initialiser closure
            inits = [b for b in F.bodies if b.kind == "Closure" and b.d.get("parent") == dpath]
            if len(inits) != 1:
                ctx.missing(r, "initialiser closure of %s" % dpath, cfg=F.key)
                continue
            ini = inits[0]
            S = sym.Sym(ini)
            ok = True
            msgs = []
            nsel = 0
            for p in S.paths():
                if p.end != "return":
                    continue
                detected = set()
                for (bb, dcond, taken, vals) in p.conds:
                    e = n(dcond)
                    if e[0] == "call" and "__is_feature_detected::" in e[1]:
                        feat = e[1].rsplit("::", 1)[-1].replace("_", ".") if e[1].rsplit("::", 1)[-1] in ("sse4_1", "sse4_2") else e[1].rsplit("::", 1)[-1]
                        truth = (taken == "otherwise") if vals == [0] else bool(taken)
                        if truth:
                            detected.add(feat)
                ret = n(p.ret)
                cl = find_all(ret, lambda x: x[0] == "agg" and x[1].startswith("closure:"))
                fns = find_all(ret, lambda x: x[0] == "fn")
                have = set(static)
                for f in detected:
                    have |= imp.get(f, {f})
                if cl:
                    nsel += 1
                    cb = F.fn(cl[0][1][len("closure:"):])
                    if cb is None:
                        ok = False
                        msgs.append("closure body missing")
                        continue
                    calls = [t for _, t in cb.calls()]
                    if len(calls) != 1:
                        ok = False
                        msgs.append("dispatch closure makes %d calls" % len(calls))
                        continue
                    tgt = (calls[0]["callee"].get("resolved") or {}).get("path") or calls[0]["callee"].get("path")
                    if not tgt.endswith("::" + fname):
                        ok = False
                        msgs.append("dispatcher %s selects %s" % (fname, tgt))
                    need = required_features(F, None, tgt)
                    if not need <= have:
                        ok = False
                        msgs.append("%s needs %s but the path only established %s" % (tgt.rsplit("::", 2)[-2], sorted(need - have), sorted(detected)))
                    # arguments forwarded in order
                    args = [a.get("copy") or a.get("move") for a in calls[0]["args"]]
                    if cb.mir["arg_count"] - 1 != len(args):
                        ok = False
                        msgs.append("closure forwards %d of %d arguments" % (len(args), cb.mir["arg_count"] - 1))
                elif fns:
                    nsel += 1
                    tgt = fns[0][1]
                    need = required_features(F, None, tgt)
                    if not tgt.endswith("::" + fname) or not need <= have:
                        ok = False
                        msgs.append("fallback %s (needs %s)" % (tgt, sorted(need - have)))
                else:
                    ok = False
                    msgs.append("initialiser path returns %s" % sym.fmt(ret)[:80])
            ctx.ob(r, (dpath.rsplit("::", 1)[-1], "runtime-ladder"), ok and nsel >= 2, "; ".join(sorted(set(msgs))[:3]) or "selected %d" % nsel, cfg=F.key, where=d.where(), detail={"arms": nsel})
            # dispatcher body: static.get_or_init(closure)(args in order)
            ps = [p for p in sym.Sym(d).paths() if p.end == "return"]
            okd = False
            for p in ps:
                gi = [c for c in p.calls if c[1].endswith("OnceLock::<T>::get_or_init")]
                ind = [c for c in p.calls if c[1] == "<indirect>" or c[1].endswith("Fn::call")]
                if len(gi) == 1:
                    a = [n(x) for x in gi[0][2]]
                    okd = a[0] == ("ref", ("table", static_name)) or bool(find_all(a[0], lambda x: x == ("table", static_name)))
            ctx.ob(r, (dpath.rsplit("::", 1)[-1], "uses-own-static"), okd, "%s does not call %s.get_or_init" % (dpath, static_name), cfg=F.key, where=d.where())
        else:
            # static ladder: direct call to one backend whose requirements are met by the static feature set
            ps = [p for p in sym.Sym(d).paths() if p.end == "return"]
            ok = bool(ps)
            msgs = []
            for p in ps:
                backs = [c for c in p.calls if c[1].startswith(dpath.rsplit("::", 1)[0] + "::") and c[1].endswith("::" + fname)]
                if len(backs) != 1:
                    ok = False
                    msgs.append("calls %s" % [c[1] for c in p.calls if not c[1].startswith("core::")])
                    continue
                need = required_features(F, None, backs[0][1])
                have = set(static)
                for f in list(static):
                    have |= imp.get(f, {f})
                if not need <= have:
                    ok = False
                    msgs.append("%s needs %s, statically enabled %s" % (backs[0][1], sorted(need - have), sorted(static)))
            ctx.ob(r, (dpath.rsplit("::", 1)[-1], "static-ladder"), ok, "; ".join(msgs[:2]), cfg=F.key, where=d.where())
    # who may touch the dispatch statics
    if runtime:
        for dpath, (static_name, fname) in DISPATCHERS.items():
            users = set()
            for b in F.bodies:
                if not b.mir:
                    continue
                txt = None
                for blk in b.blocks:
                    for s in blk["stmts"]:
                        for k in ("op", "a", "b"):
                            c = (s.get(k) or {}).get("const") if isinstance(s.get(k), dict) else None
                            if c and c.get("k") == "static_ref" and c.get("path") == static_name:
                                users.add(b.path)
                    t = blk["term"]
                    if t["t"] == "call":
                        for a in t["args"]:
                            c = a.get("const")
                            if c and c.get("k") == "static_ref" and c.get("path") == static_name:
                                users.add(b.path)
            ctx.instance(r)
            ctx.ob(r, (static_name.rsplit("::", 1)[-1], "only-its-dispatcher"), users == {dpath},
                   "%s is referenced by %s; reference only %s" % (static_name, sorted(users), dpath), cfg=F.key)


def race(ctx, r, F):
    """R-07.6: initialiser closures capture nothing and read no static; they return capture-less closures / fn items."""
    n_init = 0
    for dpath in DISPATCHERS:
        for b in F.bodies:
            if b.kind != "Closure" or not (b.d.get("parent") or "").startswith(dpath):
                continue
            n_init += 1
            ctx.instance(r)
            up = b.d.get("upvars") or []
            reads_static = False
            for blk in b.blocks:
                for s in blk["stmts"]:
                    for k in ("op", "a", "b"):
                        c = (s.get(k) or {}).get("const") if isinstance(s.get(k), dict) else None
                        if c and c.get("k") == "static_ref":
                            reads_static = True
            ctx.ob(r, (b.path.replace(dpath, dpath.rsplit("::", 1)[-1]), "captureless-and-static-free"), not up and not reads_static,
                   "dispatch closure %s captures %d values / reads a static: %s" % (b.path, len(up), reads_static), cfg=F.key, where=b.where())
    if "detect-features" in F.features and "simd-per-arch" in F.features:
        ctx.floor(r, 20, "dispatch initialiser and backend closures")
