"""C02 -- distance between two hashes equals the TLSH reference distance."""
from .. import tables
from . import cmpmodel, simd

ID = "C02"
CONFIGS = {"quick": ["K0", "K1", "K2", "K13", "K14b", "K17"], "thorough": ["K0", "K1", "K2", "K13", "K14a", "K14b", "K14c", "K17", "K19"]}
META = {
    "explanation": (
        "Static analysis (MIR + constant evaluator).  Decides over their FULL index domain that the Q-ratio distance "
        "table (65,536 / 256 entries) and the length distance table (256 entries) equal the reference formulas "
        "(ring distance mod 16 with d<=1?d:(d-1)*12; mod 256 with d<=1?d:d*12), that the distance functions index "
        "them with their two arguments, that the table-less functions have the reference shape, that the checksum "
        "distance counts unequal positions, and that compare_with_config is the sum of the four same-typed part "
        "comparisons with the length term exactly in Default mode.  The body-distance kernels are tied together by "
        "sibling agreement of their normalised operation DAGs (pseudo-SIMD 32/64, SSE2, SSE4.1, AVX2, and NEON on aarch64) and their "
        "load coverage.  The arithmetic of the shared core is decided by an abstract interpretation of the extracted "
        "operation DAG over byte lanes: each DAG node is given a 65,536-entry table (the lane's byte for every pair of "
        "lane input bytes) and a mask of bits a neighbouring lane could influence, with exact transfer functions for "
        "masks, shifts, carry-free adds and borrow-free subtractions; the core is accepted when no such bit remains and "
        "the table is the sum of the lane's four dibit distances (|a-b|, 3 -> 6).  This is a finite-domain evaluation "
        "of the dataflow graph taken from MIR (like the table checks), not an execution of the crate; the horizontal "
        "sums of each backend are shown not to overflow their lanes."
    ),
    "trusted_base": ["rustc nightly front end and constant evaluator", "core::arch intrinsics semantics (names only)"],
    "assumptions": ["analysed targets: x86_64 and aarch64 (NEON kernel, type-checked with -Zbuild-std, never executed), i686 in the thorough tier; portable-SIMD kernels do not compile with the installed nightly and are not analysed"],
    "not_decided": ["the portable-SIMD kernels (do not compile with the installed nightly)"],
}
TECHNIQUE = 'full-domain evaluation of the small distance functions against the reference, operation-DAG sibling agreement of the body kernels, byte-lane abstract interpretation of the kernel core, byte-exact vector-load coverage, linear forms over kernel lanes'


def run(ctx, FS):
    for key, F in FS.items():
        r = "R-02.1"
        ctx.rule(r, "Q-ratio distance table == reference on the full domain; distance() indexes it with (q1,q2); naive shape")
        cmpmodel.qratio_distance(ctx, r, F)
        ctx.rules[r]["exhaustive"] = True
        r = "R-02.2"
        ctx.rule(r, "length distance table == reference on the full domain; distance() indexes with l1-l2 (wrapping); naive shape")
        cmpmodel.length_distance(ctx, r, F)
        ctx.rules[r]["exhaustive"] = True
        cmpmodel.ring_shape(ctx, r, F)
        r = "R-02.3"
        ctx.rule(r, "checksum distance counts positions i with c1[i] != c2[i]; 3-byte loop bound 3", "N")
        cmpmodel.checksum_distance(ctx, r, F)
        r = "R-02.4"
        ctx.rule(r, "compare_with_config = body + checksum + qratios (+ length iff Default) over same-typed fields; wrappers forward")
        cmpmodel.composition(ctx, r, F)
        cmpmodel.part_compares(ctx, r, F)
        cmpmodel.wrappers(ctx, r, F)
        r = "R-02.5"
        ctx.rule(r, "body-distance kernels: sibling agreement of operation DAGs; loads cover the body exactly once", "N")
        simd.body_kernels(ctx, r, F)
        r = "R-02.6"
        ctx.rule(r, "part maxima equal the published MAX_DISTANCE constants")
        cmpmodel.max_distance_mirror(ctx, r, F)
