"""C18 -- core operations never allocate; the crate builds without std and alloc."""
from .. import callgraph
from . import witness

ID = "C18"
CONFIGS = {"quick": ["K0", "K1", "K13", "K14b", "K15"], "thorough": ["K0", "K1", "K2", "K3", "K4", "K5", "K6", "K7", "K8", "K9", "K10", "K11", "K12", "K13", "K14a", "K14b", "K14c", "K15", "K16"]}
CONFIG_FAILURE_IS_VIOLATION = set(CONFIGS["thorough"])
FIXTURES = {"alloc"}
META = {
    "explanation": (
        "Static analysis over the resolved whole-crate call graph, per build configuration (MIR call terminators, "
        "Instance resolution, conservative edges for trait dispatch, closures, function items used as values and "
        "callbacks from external generic code).  Decided: from every function of the crate other than the documented "
        "allocating conveniences (the stream/file helpers) no callee defined in crate `alloc` is reachable, nor any "
        "callee in `std` or a third-party crate outside a short allow-list (OnceLock::get_or_init, CPU feature "
        "detection, hex_simd slice-to-slice encode/decode, bitflags plumbing); conversely the stream/file helpers ARE "
        "the only functions that reach `alloc`.  The no_std/no_alloc configuration type-checks, contains no item of "
        "crate alloc/std at all, and still exports the whole core API with the same signatures as the default build; "
        "an external #![no_std] witness crate using the core API type-checks against it."
    ),
    "trusted_base": ["rustc nightly front end and Instance resolution", "core never allocates",
                     "std::sync::OnceLock::get_or_init, std_detect feature detection and hex_simd::{encode,decode} are heap-free on this target"],
    "assumptions": ["allocation happens only through items of crate `alloc` (or `std`)"],
    "not_decided": ["allocation inside std::sync::Once / std_detect / hex-simd internals (trusted, listed)", "serde format crates (documented to allocate)"],
}
TECHNIQUE = 'call-graph reachability to the alloc crate per configuration (with bounded callbacks), no_std/no_alloc type-check witness crate, API inventory'

# the documented std-only conveniences: stream/file helpers and their error wrapper around std::io::Error
ALLOC_OK_FUNCS_PREFIX = ("generate_easy_std::", "<errors::GeneratorOrIOError as ")
EXT_ALLOW = {
    "std": ("std::sync::OnceLock::<T>::get_or_init", "std::sync::OnceLock::<T>::new"),
    "std_detect": ("std_detect::detect::arch::x86::__is_feature_detected::",),
    "hex_simd": ("hex_simd::encode", "hex_simd::decode", "hex_simd::"),
    "outref": ("outref::", "hex_simd::Out::", "hex_simd::AsOut"),
    "vsimd": ("vsimd::",),
    "bitflags": ("bitflags::",),
    "serde": ("serde::",),
    "serde_core": ("serde_core::",),
}
API = [
    "generate::Generator::<T>::new",
    "hash::public::FuzzyHashType::from_str_with",
    "hash::public::FuzzyHashType::compare",
    "generate::public::GeneratorType::finalize",
    "generate::GeneratorOptions::new",
    "generate::GeneratorOptions::allow_small_size_files",
    "length::DataLengthValidity::new",
    "length::DataLengthValidity::is_err_on",
    "length::FuzzyHashLengthEncoding::new",
    "length::FuzzyHashLengthEncoding::range",
    "length::FuzzyHashLengthEncoding::value",
    "hash::qratios::FuzzyHashQRatios::q1ratio",
    "hash::qratios::FuzzyHashQRatios::q2ratio",
]
API_METHODS = [  # (method name, impl self prefix, trait)
    ("update", "generate::Generator<", "generate::public::GeneratorType"),
    ("finalize_with_options", "generate::Generator<", "generate::public::GeneratorType"),
    ("processed_len", "generate::Generator<", "generate::public::GeneratorType"),
    ("from_str_bytes", "hash::FuzzyHash<", "hash::public::FuzzyHashType"),
    ("store_into_bytes", "hash::FuzzyHash<", "hash::public::FuzzyHashType"),
    ("store_into_str_bytes", "hash::FuzzyHash<", "hash::public::FuzzyHashType"),
    ("compare_with_config", "hash::FuzzyHash<", "hash::public::FuzzyHashType"),
    ("max_distance", "hash::FuzzyHash<", "hash::public::FuzzyHashType"),
    ("clear_checksum", "hash::FuzzyHash<", "hash::public::FuzzyHashType"),
    ("checksum", "hash::FuzzyHash<", "hash::public::FuzzyHashType"),
    ("length", "hash::FuzzyHash<", "hash::public::FuzzyHashType"),
    ("qratios", "hash::FuzzyHash<", "hash::public::FuzzyHashType"),
    ("body", "hash::FuzzyHash<", "hash::public::FuzzyHashType"),
    ("from_str", "hash::FuzzyHash<", "core::str::FromStr"),
    ("try_from", "hash::FuzzyHash<", "core::convert::TryFrom"),
    ("fmt", "hash::FuzzyHash<", "core::fmt::Display"),
    ("quartile", "hash::body::FuzzyHashBodyData<", "hash::body::FuzzyHashBody"),
]


def ext_allowed(path, krate):
    if krate == "core":
        return True
    for p in EXT_ALLOW.get(krate, ()):
        if path.startswith(p):
            return True
    return False


def run(ctx, FS):
    r1, r2 = "R-18.1", "R-18.2"
    ctx.rule(r1, "no path from any function outside the documented allocating helpers to crate alloc / non-allow-listed std or third-party code; "
                 "the stream/file helpers are the only functions reaching alloc")
    ctx.rule(r2, "the no_std/no_alloc configuration exports the whole core API with unchanged signatures and references no alloc/std item")
    sigs = {}
    for key, F in FS.items():
        G = callgraph.CallGraph(F)
        allocators = set()
        funcs = [p for p, b in G.nodes.items() if b.kind in ("Fn", "AssocFn", "Closure")]
        ctx.instance(r1, len(funcs))
        # direct external callees per function
        direct_bad = {}
        for p in funcs:
            for (ep, kr) in G.ext.get(p, ()):
                if kr == "alloc" or not ext_allowed(ep, kr):
                    direct_bad.setdefault(p, set()).add((ep, kr))
        # functions that (transitively) reach a bad external callee
        rev = {}
        for s in G.nodes:
            for d in G.all_edges(s):
                rev.setdefault(d, set()).add(s)
        tainted = {}
        work = list(direct_bad)
        for p in work:
            tainted[p] = (None, sorted(direct_bad[p])[0])
        while work:
            x = work.pop()
            for s in rev.get(x, ()):
                if s not in tainted:
                    tainted[s] = (x, None)
                    work.append(s)

        def why(p):
            chain = [p]
            while tainted[chain[-1]][0] is not None:
                chain.append(tainted[chain[-1]][0])
            return chain, tainted[chain[-1]][1]

        reported = set()
        for p in sorted(tainted):
            if p.startswith(ALLOC_OK_FUNCS_PREFIX):
                allocators.add(p)
                continue
            b = G.nodes[p]
            if b.kind == "Closure" and (b.d.get("parent") or "").startswith(ALLOC_OK_FUNCS_PREFIX):
                continue
            chain, (ep, kr) = why(p)
            # report only the function nearest to the offending call (others follow from it)
            head = chain[-1]
            if head in reported:
                continue
            reported.add(head)
            ctx.ob(r1, (head, "reaches", ep), False,
                   "%s calls %s (crate %s), which is outside the heap-free allow-list; reached e.g. from %s" % (head, ep, kr, " <- ".join(chain[:4])),
                   cfg=key, where=G.nodes[head].where())
        clean = [p for p in funcs if p not in tainted]
        for p in clean[:1]:
            ctx.ob(r1, ("functions-without-path-to-alloc", "count"), True, "", cfg=key, detail={"clean": len(clean), "functions": len(funcs)})
        if "std" in F.features and "easy-functions" in F.features:
            common_ok = any(p == "generate_easy_std::hash_stream_common" for p in allocators)
            ctx.ob(r1, ("generate_easy_std::hash_stream_common", "is-the-allocating-helper"), common_ok,
                   "the documented allocating helper no longer reaches alloc (inventory drift): allocators %s" % sorted(allocators), cfg=key, trivial=True)
        # R-18.2 inventory
        have = {}
        for p in API:
            b = F.fn(p)
            if b is not None:
                have[p] = sig(F, b)
        for (nm, pref, tr) in API_METHODS:
            bs = F.method(nm, pref, tr)
            if bs:
                have["%s %s %s" % (tr, pref, nm)] = sorted(sig(F, b) for b in bs)
        sigs[key] = have
        ctx.instance(r2, len(have))
        missing = [p for p in API if p not in have] + ["%s %s %s" % (tr, pref, nm) for (nm, pref, tr) in API_METHODS if "%s %s %s" % (tr, pref, nm) not in have]
        ctx.ob(r2, ("api-inventory", "present"), not missing, "core API items missing in this configuration: %s" % missing[:5], cfg=key)
        if "std" not in F.features and "alloc" not in F.features:
            used = sorted({(ep, kr) for p in funcs for (ep, kr) in G.ext.get(p, ()) if kr in ("alloc", "std")})
            ctx.ob(r2, ("no_std-config", "no-alloc-or-std-callee"), not used, "the no_std/no_alloc configuration calls %s" % used[:3], cfg=key)
            kinds = {it["path"] for it in F.items if it["path"].startswith("generate_easy_std")}
            ctx.ob(r2, ("no_std-config", "std-helpers-absent"), not [k for k in kinds if "::" in k],
                   "std-only helpers are compiled in the no_std configuration", cfg=key, trivial=True)
    if "K0" in sigs and "K1" in sigs:
        diff = [k for k in sigs["K0"] if sigs["K1"].get(k) != sigs["K0"][k]]
        ctx.ob(r2, ("api-inventory", "same-signatures-K0-K1"), not diff, "API signatures differ between default and no_std builds: %s" % diff[:4])
    ctx.floor(r1, 300, "functions analysed")
    ctx.floor(r2, 25, "API items")
    witness.nostd(ctx, r2)


def sig(F, b):
    ins = tuple(F.tys(i) for i in b.d.get("inputs", []))
    return (b.path, ins, F.tys(b.d.get("output")), b.d.get("vis"), b.d.get("unsafe"))
