"""C07 -- results do not depend on feature configuration or SIMD backend."""
import re

from .. import sym, tables, engine
from ..norm import n, P, C, V, ANY, match, find_all, binop
from . import common, cmpmodel, cfgdiff, simd, hexcodec, c01

ID = "C07"
CONFIGS = {"quick": ["K0", "K1", "K2", "K3", "K4", "K5", "K6", "K7", "K8", "K9", "K13", "K14a", "K14b", "K17", "K20", "K21"],
           "thorough": ["K0", "K1", "K2", "K3", "K4", "K5", "K6", "K7", "K8", "K9", "K10", "K11", "K12", "K13", "K14a", "K14b", "K14c", "K15", "K16", "K17", "K19", "K20", "K21"]}
# a configuration of the host target that stops type-checking is itself a violation; the cross-target ones (K17..K21, built with
# -Zbuild-std) are skipped with a note if they cannot be built
CONFIG_FAILURE_IS_VIOLATION = {k for k in CONFIGS["thorough"] if engine.target_of(k).startswith("x86_64")}
META = {
    "explanation": (
        "Static analysis across build configurations.  General cross-configuration equality of results on all inputs is "
        "behavioural and NOT decided.  Decided: (1) configuration dependence is confined to the known cfg ladders -- every "
        "function present in two configurations has the same MIR (structural hash) unless it is one of the enumerated "
        "ladder functions, and items present only in some configurations belong to enumerated groups; (2) each table equals "
        "the reference (by value, full domain) and the table-less functions have the reference shape, so table on/off "
        "alternatives are tied to the same function; (3) the reduced-memory bucket increment returns early exactly when the "
        "mapping can exceed the bucket count and the index is out of range; (4) the SIMD backends are tied to their "
        "siblings by normalised-DAG agreement (body distance: scalar 32/64, SSE2, SSE4.1, AVX2, NEON) and a shared comparison core (aggregation: SSE2, SSSE3, AVX2, wasm simd128) with matching shuffle masks and "
        "orientation (aggregation); (5) dispatch is sound: every backend is called under a detection (or static feature "
        "set) implying its target features, each dispatch static is touched only by its own dispatcher; (6) the first-call "
        "race is benign: initialiser closures capture nothing and read no static, so every thread computes the same value; "
        "(7) the `unsafe` feature only changes the invariant!/from_utf8_unchecked sites, each discharged in C17."
    ),
    "trusted_base": ["rustc nightly front end, constant evaluator, target-feature implication lists", "std::sync::OnceLock, std_detect", "hex-simd"],
    "assumptions": ["analysed targets: x86_64 (all feature configurations), aarch64 (NEON), i686, wasm32+simd128, riscv64 without Zbb -- the last four type-checked with -Zbuild-std, never executed; the portable-SIMD backends, 32-bit Arm and the `unstable` feature do not compile with the installed nightly and are not analysed"],
    "not_decided": ["equality of results across configurations beyond these ties", "portable-SIMD and 32-bit Arm backends"],
}
TECHNIQUE = "cross-configuration MIR diffing, table value rules, operation-DAG sibling agreement, dominance/feature-implication rules for dispatch"

# functions that contain a cfg ladder (one line of reason each)
LADDER = [
    (r"^pearson::update_double$", "double Pearson table vs two single steps"),
    (r"^compare::dist_qratios::distance$", "Q-ratio distance table (double/single/none)"),
    (r"^compare::dist_length::distance$", "length distance table on/off"),
    (r"^parse::hex_str::(decode_1|decode_rev_1|encode_rev_1|encode_rev_array|encode_array)$", "hex codec table sizes"),
    (r"^hash::body::FuzzyHashBodyData::<SIZE_BODY>::from_str_bytes$", "hex-simd body decoder"),
    (r"FuzzyHashType>::store_into_str_bytes$", "hex-simd body encoder"),
    (r"^(<)?buckets::FuzzyHashBucketsData", "bucket array length (low-memory buckets)"),
    (r"^compare::dist_body::distance_(32|64)(::\{closure#\d+\})*$", "body-distance dispatch ladder"),
    (r"^generate::bucket_aggregation::aggregate_(48|128|256)(::\{closure#\d+\})*$", "aggregation dispatch ladder"),
    (r"::x86_(sse2|ssse3|sse4_1|avx2)::", "x86 backend attributes vary with detect-features"),
    (r"FuzzyHashType>::from_str_bytes$", "strict-parser gates"),
    (r"core::convert::TryFrom<&\[u8; SIZE_IN_BYTES\]>>::try_from$", "strict-parser gates and invariant!"),
    (r"hash::inner::FuzzyHash<.*core::fmt::Display>::fmt$", "from_utf8 vs from_utf8_unchecked (unsafe)"),
    (r"serde::(Serialize|Deserialize)", "serde text path (unsafe) and buffered variants"),
    (r"generate::public::GeneratorType>::update$", "invariant!"),
    (r"^length::FuzzyHashLengthEncoding::new$", "invariant!; leading_zeros-bracketed search vs plain binary search by target architecture"),
    (r"::(arm_neon|wasm32_simd128)::", "per-architecture backends"),
    (r"^intrinsics::(likely|unlikely)$", "unstable intrinsics"),
]
# item groups that exist only in some configurations
PRESENCE = [
    r"::x86_(sse2|ssse3|sse4_1|avx2)::", r"::naive::", r"^parse::hex_str::", r"^parse::bits::", r"^generate_easy_std::", r"^generate_easy::", r"^compare_easy::",
    r"errors::ParseErrorEither", r"errors::ParseErrorSide", r"errors::GeneratorOrIOError", r"serde::", r"FuzzyHash(String|Bytes)Visitor",
    r"^compare::dist_body::distance_(32|64)::\{closure", r"^generate::bucket_aggregation::aggregate_(48|128|256)::\{closure",
    r"::arm_neon::", r"::wasm32_simd128::",
    r"core::error::Error", r"^compare::dist_body::pseudo_simd_", r"^generate::bucket_aggregation::portable_simd", r"^compare::dist_body::portable_simd",
]


def allowed(path, table):
    return any(re.search(p, path) for p in table)


_CG = {}


def _helper_of_ladder(F, path, depth=0, stack=()):
    """a private function (not reachable from outside the crate, not a trait method) all of whose callers are enumerated ladder functions
    or, transitively, such helpers: code factored out of a ladder is part of that ladder"""
    from .. import callgraph
    if id(F) not in _CG:
        _CG[id(F)] = (callgraph.CallGraph(F), F)
    G = _CG[id(F)][0]
    node = G.nodes.get(path)
    if node is None or depth > 3 or path in stack or node.d.get("reachable") or " as " in path.split("::{closure")[0]:
        return False
    callers = {s_ for s_, ds in G.edges.items() if path in ds} - {path}
    if not callers:
        return False
    lad = [x for x, _ in LADDER]
    return all(allowed(c_, lad) or _helper_of_ladder(F, c_, depth + 1, stack + (path,)) for c_ in callers)


def run(ctx, FS):
    r1 = "R-07.1"
    ctx.rule(r1, "configuration dependence is confined to the enumerated cfg ladders (structural MIR hash per function across configurations)")
    sigs = {k: cfgdiff.sigs(F) for k, F in FS.items()}
    keys = sorted(sigs)
    compared = 0
    # MIR embeds usize-typed constants and layouts, so configurations are compared within a pointer-width group
    # (64-bit: x86_64, aarch64, riscv64; 32-bit: i686, wasm32), each against that group's first configuration
    groups = {}
    for k in keys:
        groups.setdefault(engine.pointer_width(k), []).append(k)
    for width, gkeys in sorted(groups.items()):
        base = "K0" if "K0" in gkeys else gkeys[0]
        for k in gkeys:
            if k == base:
                continue
            for p, s in sigs[base].items():
                if p in sigs[k]:
                    compared += 1
                    if sigs[k][p] != s and not allowed(p, [x for x, _ in LADDER]) and not _helper_of_ladder(FS[base], p):
                        ctx.ob(r1, (p, "differs-between-configurations"), False,
                               "unexplained configuration dependence: %s has different MIR in %s and %s and is not an enumerated cfg ladder" % (p, base, k), cfg=k)
                elif not allowed(p, PRESENCE):
                    ctx.ob(r1, (p, "present-only-in-some-configurations"), False, "%s exists in %s but not in %s" % (p, base, k), cfg=k)
            for p in sigs[k]:
                if p not in sigs[base] and not allowed(p, PRESENCE):
                    ctx.ob(r1, (p, "present-only-in-some-configurations"), False, "%s exists in %s but not in %s" % (p, k, base), cfg=k)
    ctx.instance(r1, compared)
    ctx.ob(r1, ("cross-configuration-diff", "functions-compared"), compared > 0, "", detail={"pairs_compared": compared, "configs": keys})
    ctx.floor(r1, 300 * max(1, len(keys) - 1), "function pairs compared")
    # R-07.7
    r7 = "R-07.7"
    ctx.rule(r7, "the `unsafe` feature changes only the invariant!/from_utf8_unchecked sites")
    for ku, kb in (("K8", "K0"), ("K16", "K11")):
        if ku in sigs and kb in sigs:
            diff = sorted(p for p in sigs[kb] if p in sigs[ku] and sigs[ku][p] != sigs[kb][p])
            only = sorted(set(sigs[kb]) ^ set(sigs[ku]))
            pat = [r"GeneratorType>::update$", r"TryFrom<&\[u8; SIZE_IN_BYTES\]>>::try_from$", r"hash::inner::FuzzyHash<.*core::fmt::Display>::fmt$", r"^length::FuzzyHashLengthEncoding::new$",
                   r"hash::inner::FuzzyHash<.*serde::Serialize>::serialize$"]
            extra = [p for p in diff if not allowed(p, pat)]
            ctx.instance(r7, len(diff))
            ctx.ob(r7, ("unsafe-vs-safe", ku + "/" + kb), not extra and not only and len(diff) >= 4,
                   "functions differing between %s and %s: %s (items only in one: %s)" % (ku, kb, extra[:4] or diff, only[:3]), cfg=ku)
    for key, F in FS.items():
        r = "R-07.2"
        ctx.rule(r, "tables equal the reference by value and table-less alternatives have the reference shape")
        tables.pearson_tables(ctx, r, F)
        cmpmodel.qratio_distance(ctx, r, F)
        cmpmodel.length_distance(ctx, r, F)
        hexcodec.table_rules(ctx, r, F)
        c01.table_use(ctx, F)
        hexcodec.decoders(ctx, "R-07.2", F)
        hexcodec.encoders(ctx, "R-07.2", F)
        buckets(ctx, F)
        r = "R-07.4"
        ctx.rule(r, "SIMD backends agree with their siblings (operation DAGs, comparison core, shuffle masks, orientation)", "N")
        simd.body_kernels(ctx, r, F)
        simd.agg_kernels(ctx, r, F)
        r = "R-07.5"
        ctx.rule(r, "dispatch soundness: backend called only under a detection / static feature set implying its target features; dispatch statics private to their dispatcher")
        simd.dispatch(ctx, r, F)
        r = "R-07.6"
        ctx.rule(r, "first-call race is benign: initialiser closures capture nothing and read no static")
        simd.race(ctx, r, F)


def buckets(ctx, F):
    r = "R-07.3"
    ctx.rule(r, "bucket storage: full 256-entry array, or SIZE_BUCKETS entries with an early return iff the mapping can exceed the bucket count and index >= SIZE_BUCKETS", "N")
    low = "opt-low-memory-buckets" in F.features
    fs = common.struct_fields(F, "buckets::FuzzyHashBucketsData")
    ctx.instance(r)
    want_ty = "[u32; SIZE_BUCKETS]" if low else "[u32; 256]"
    ctx.ob(r, ("FuzzyHashBucketsData", "array-length"), bool(fs) and len(fs) == 1 and fs[0][1] == want_ty, "bucket array type is %s; reference %s" % (fs, want_ty), cfg=F.key)
    b = F.fn("buckets::FuzzyHashBucketsData::<SIZE_BUCKETS>::increment")
    ctx.instance(r)
    if b is None:
        ctx.missing(r, "FuzzyHashBucketsData::increment", cfg=F.key)
    else:
        S = sym.Sym(b)
        rets = [p for p in S.paths() if p.end == "return"]
        arr = ("field", ("deref", P(1)), 0)
        i = P(2)
        store = (("index", arr, i), ("call", "core::num::<impl u32>::wrapping_add", (("load", ("index", arr, i)), C(1))))
        dec = []
        for p in rets:
            cs = [(n(d), (taken == "otherwise") if vals == [0] else bool(taken)) for (_, d, taken, vals) in p.conds]
            st = [(n(pl), n(v)) for _, pl, v in p.stores]
            dec.append((cs, st))
        # decided on the whole domain: bucket count x index (0..=255): the counter buckets[index] is incremented (wrapping) iff the
        # index fits the array -- always for the 256-entry array; in the reduced layout iff index < SIZE_BUCKETS, which the
        # constrained mapping (256 buckets) guarantees
        from .. import evalx
        evalx.set_target(F)
        paths = S.paths()
        consts_ = F.impl_consts("buckets::constrained::FuzzyHashBucketsInfo<", "buckets::constrained::FuzzyHashBucketMapper")
        flags = {int(k.split("<")[1].rstrip(">")): v.get("IS_B_MAPPING_CONSTRAINED_WITHIN_BUCKETS") for k, v in consts_.items()}
        why = None
        try:
            for size in (48, 128, 256):
                if flags.get(size) is None:
                    why = "IS_B_MAPPING_CONSTRAINED_WITHIN_BUCKETS unknown for %d buckets" % size
                    break
                for ix in range(256):
                    sub = {("cpath", "buckets::constrained::FuzzyHashBucketMapper::IS_B_MAPPING_CONSTRAINED_WITHIN_BUCKETS"): flags[size]}
                    asg = {"params": {1: ("obj", "self"), 2: ix}, "cparams": {"SIZE_BUCKETS": size}, "subst": sub}
                    cap = 256 if not low else size
                    try:
                        p = evalx.select(S, F, paths, asg)
                        sts = [(n(pl), n(v)) for _, pl, v in p.stores]
                        panicked = False
                    except evalx.Panics:
                        sts, panicked = [], True
                    want_store = ix < cap
                    if panicked:
                        why = "%d buckets, index %d: panics" % (size, ix)
                        break
                    if not want_store:
                        if sts:
                            why = "%d buckets, index %d: writes %s although the index does not fit" % (size, ix, [sym.fmt(a) for a, _ in sts])
                            break
                        continue
                    okst = len(sts) == 1
                    if okst:
                        pl, v = sts[0]
                        while pl[0] == "deref" and pl[1][0] == "ref":
                            pl = pl[1][-1]
                        m_ = match(("index", arr, V("i")), pl)
                        iv = evalx.ev(S, F, m_["i"], asg) if m_ else None
                        okst = iv == ix and v in (("call", "core::num::<impl u32>::wrapping_add", (("load", pl), C(1))),
                                                   ("call", "core::num::<impl u32>::wrapping_add", (("load", sts[0][0]), C(1))))
                    if not okst:
                        why = "%d buckets, index %d: stores %s; reference buckets[index] = buckets[index].wrapping_add(1)" % (
                            size, ix, [(sym.fmt(a), sym.fmt(c)) for a, c in sts])
                        break
                if why:
                    break
        except evalx.Unknown as ex:
            why = "cannot evaluate: %s" % ex
        ok = why is None
        dec = [why]
        ctx.ob(r, ("FuzzyHashBucketsData::increment", "guard"), ok,
               "increment: %s" % dec[0], cfg=F.key, where=b.where())
    consts = F.impl_consts("buckets::constrained::FuzzyHashBucketsInfo<", "buckets::constrained::FuzzyHashBucketMapper")
    got = {k.split("<")[1].rstrip(">"): v.get("IS_B_MAPPING_CONSTRAINED_WITHIN_BUCKETS") for k, v in consts.items()}
    ctx.ob(r, ("IS_B_MAPPING_CONSTRAINED_WITHIN_BUCKETS", "values"), got == {"48": 0, "128": 0, "256": 1},
           "constrained flags %s; reference only 256 buckets constrained (48-fold table reaches 48, 128 uses the 256 mapping)" % got, cfg=F.key)
    d = F.fn("buckets::FuzzyHashBucketsData::<SIZE_BUCKETS>::data")
    ctx.instance(r)
    if d is None:
        ctx.missing(r, "FuzzyHashBucketsData::data", cfg=F.key)
    else:
        ps = cmpmodel.ret_paths(d)
        e = n(ps[0].ret) if len(ps) == 1 else None
        m = match(("call", V("ix"), (("ref", ("field", ("deref", P(1)), 0)), ("agg", "adt:core::ops::RangeTo::RangeTo", (("cparam", "SIZE_BUCKETS"),)))), e) if e else None
        ctx.ob(r, ("FuzzyHashBucketsData::data", "first-SIZE_BUCKETS"), bool(m) and m["ix"].endswith("::index"), "data() is %s; reference &buckets[..SIZE_BUCKETS]" % (sym.fmt(e) if e else e), cfg=F.key, where=d.where())
