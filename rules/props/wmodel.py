"""Second writer model: the serializers evaluated on abstract inputs (evalx) instead of matched against write idioms.

For one hash variant, one prefix mode and one concrete buffer length the function's enumerated paths are evaluated exactly
(crate constants of the variant, the buffer an opaque object of that length, `self` opaque): the unique feasible path is
selected and its side effects on the buffer -- copy_from_slice, the hex encoders, element stores -- are replayed with views of
the buffer represented as (offset, end) pairs through index ranges, split_at(_mut), get(_mut) and `?` / let-else.  The result has
the same shape as layout.text_writer / layout.binary_writer so that the rules of C04/C05/C06/C14/C17 run on it unchanged; offsets are
per-variant numbers (("perenv", {variant: value}), understood by layout.ceval).

Used only when the idiom model does not recognise the function (a restructured but correct writer); anything this model cannot
evaluate is reported as an unrecognised writer, never accepted."""
from .. import sym, evalx
from ..norm import n
from . import common, layout

SLEN = "core::slice::<impl [T]>::len"


class View(object):
    __slots__ = ("base", "lo", "hi")

    def __init__(self, base, lo, hi):
        self.base, self.lo, self.hi = base, lo, hi

    def __eq__(self, o):
        return isinstance(o, View) and (self.base, self.lo, self.hi) == (o.base, o.lo, o.hi)

    def __hash__(self):
        return hash((self.base, self.lo, self.hi))

    def __repr__(self):
        return "view(%s[%d..%d])" % (self.base, self.lo, self.hi)


class Elem(object):
    __slots__ = ("base", "at")

    def __init__(self, base, at):
        self.base, self.at = base, at


def _rng(r, ln):
    """(lo, hi) of a range value over a slice of length ln, or None"""
    if isinstance(r, tuple) and r and r[0] == "adt":
        k = r[1].rsplit("::", 1)[-1]
        a = r[2:]
        if not all(isinstance(x, int) for x in a):
            return None
        if k == "Range" and len(a) == 2:
            return a[0], a[1]
        if k == "RangeTo" and len(a) == 1:
            return 0, a[0]
        if k == "RangeFrom" and len(a) == 1:
            return a[0], ln
        if k == "RangeFull":
            return 0, ln
        if k == "RangeToInclusive" and len(a) == 1:
            return 0, a[0] + 1
    return None


def _handlers(L):
    def vlen(v):
        if isinstance(v, View):
            return v.hi - v.lo
        if isinstance(v, tuple) and v and v[0] == "bytes":
            return len(v[1] or "") // 2
        raise evalx.Unknown("len of %r" % (v,))

    def index(v, r):
        if isinstance(v, View):
            if isinstance(r, int):
                if not (0 <= r < v.hi - v.lo):
                    raise evalx.Panics("index %d out of range" % r)
                return Elem(v.base, v.lo + r)
            rr = _rng(r, v.hi - v.lo)
            if rr is None:
                raise evalx.Unknown("index by %r" % (r,))
            if not (0 <= rr[0] <= rr[1] <= v.hi - v.lo):
                raise evalx.Panics("range %s out of range of a %d-byte view" % (rr, v.hi - v.lo))
            return View(v.base, v.lo + rr[0], v.lo + rr[1])
        raise evalx.Unknown("index of %r" % (v,))

    def get(v, r):
        try:
            return ("Some", index(v, r))
        except evalx.Panics:
            return ("None",)

    def split_at(v, k):
        if isinstance(v, View) and isinstance(k, int):
            if not (0 <= k <= v.hi - v.lo):
                raise evalx.Panics("split_at(%d) of a %d-byte view" % (k, v.hi - v.lo))
            return (View(v.base, v.lo, v.lo + k), View(v.base, v.lo + k, v.hi))
        raise evalx.Unknown("split_at of %r" % (v,))

    def split_first(v):
        if isinstance(v, View):
            if v.hi == v.lo:
                return ("None",)
            return ("Some", (Elem(v.base, v.lo), View(v.base, v.lo + 1, v.hi)))
        raise evalx.Unknown("split_first of %r" % (v,))

    ident = lambda v, *a: v
    return {
        SLEN: vlen, "::index_mut": index, "::index": index,
        "core::slice::<impl [T]>::get_mut": get, "core::slice::<impl [T]>::get": get,
        "core::slice::<impl [T]>::split_at_mut": split_at, "core::slice::<impl [T]>::split_at": split_at,
        "core::slice::<impl [T]>::split_first_mut": split_first, "core::slice::<impl [T]>::split_first": split_first,
        "::as_mut_slice": ident, "::as_slice": ident, "hex_simd::AsOut::as_out": ident, "::as_out": ident, "::from_slice": ident,
        "::deref_mut": ident, "::deref": ident, "::as_mut": ident, "::as_ref": ident,
    }


def _src_field(v, hf):
    """name of the hash field an opaque source value is derived from (fld chains / applications rooted at self)"""
    seen = set()

    def rec(x):
        if isinstance(x, tuple):
            if x and x[0] == "fld" and x[1] == ("obj", "self") and isinstance(x[2], int):
                seen.add(x[2])
            for y in x:
                rec(y)
    rec(v)
    names = [k for k, i in hf.items() if i in seen]
    return names[0] if len(names) == 1 and len(seen) == 1 else None


def effects(S, F, paths, asg):
    """(returned value, [effects in program order]) of the unique path feasible under asg; effects are
    ('call', callee path, [argument values]) for calls that receive a view of the buffer, and ('store', Elem, value)."""
    p = evalx.select(S, F, paths, asg)
    ret = evalx.ev(S, F, p.ret, asg)
    order = {}
    for i, bb in enumerate(p.blocks):
        order.setdefault(bb, i)
    evs = []
    for (bb, pl, v) in p.stores:
        # element store through a view: place = index(deref(X), i) / deref(element reference)
        tgt = None
        if pl[0] == "index" and pl[1][0] == "deref":
            base = evalx.ev(S, F, pl[1][1], asg)
            i = evalx.ev(S, F, pl[2], asg)
            if isinstance(base, View) and isinstance(i, int):
                if not (0 <= i < base.hi - base.lo):
                    raise evalx.Panics("store index %d out of range" % i)
                tgt = Elem(base.base, base.lo + i)
        elif pl[0] == "deref":
            try:
                e_ = evalx.ev(S, F, pl[1], asg)
            except evalx.Unknown:
                e_ = None
            if isinstance(e_, Elem):
                tgt = e_
        if tgt is None:
            # a store somewhere else (locals are not stores); mentions of the buffer that we cannot place are unknown
            try:
                flat = repr(n(pl))
            except Exception:
                flat = ""
            if "('param', 2)" in flat:
                evs.append((order.get(bb, 0), 0, ("unknown", "store %s" % sym.fmt(n(pl))[:80])))
            continue
        try:
            val = evalx.ev(S, F, v, asg)
        except evalx.Unknown:
            val = ("?",)
        evs.append((order.get(bb, 0), 0, ("store", tgt, val)))
    for (bb, path, args, c) in p.calls:
        vals = []
        ok = True
        for a in args:
            try:
                vals.append(evalx.ev(S, F, a, asg))
            except evalx.Unknown:
                vals.append(("?",))
        if any(isinstance(v, (View, Elem)) for v in vals):
            evs.append((order.get(bb, 0), 1, ("call", path, vals)))
    evs.sort(key=lambda t: (t[0], t[1]))
    return ret, [e[2] for e in evs]


PURE = ("::len", "::index", "::index_mut", "::get", "::get_mut", "::split_at", "::split_at_mut", "::split_first", "::split_first_mut", "::is_empty",
        "::as_mut_slice", "::as_slice", "::as_out", "::from_slice", "::deref", "::deref_mut", "::as_mut", "::as_ref", "Try>::branch", "::ok_or", "::iter",
        "::as_ptr", "::first", "::last")


def _writes_of(effs, hf, F, L, sizes=None):
    """[(lo, hi_or_None, kind, src, ln)] and [unknown descriptions]"""
    writes, unknown = [], []
    for e in effs:
        if e[0] == "unknown":
            unknown.append(e[1])
        elif e[0] == "store":
            tgt, val = e[1], e[2]
            if isinstance(val, int) and 0 <= val < 256:
                writes.append((tgt.at, tgt.at + 1, "literal:%02x" % val, None, None))
            else:
                writes.append((tgt.at, tgt.at + 1, "byte", _src_field(val, hf), None))
        else:
            path, vals = e[1], e[2]
            if path.endswith(PURE):
                continue
            views = [v for v in vals if isinstance(v, View)]
            if path == "core::slice::<impl [T]>::copy_from_slice" and len(vals) == 2 and isinstance(vals[0], View):
                d, s_ = vals
                if isinstance(s_, tuple) and s_ and s_[0] == "array":
                    items = s_[1:]
                    if len(items) != d.hi - d.lo:
                        raise evalx.Panics("copy_from_slice of a %d-element array into a %d-byte view" % (len(items), d.hi - d.lo))
                    for j, it in enumerate(items):
                        if isinstance(it, int) and 0 <= it < 256:
                            writes.append((d.lo + j, d.lo + j + 1, "literal:%02x" % it, None, None))
                        else:
                            writes.append((d.lo + j, d.lo + j + 1, "byte", _src_field(it, hf), None))
                elif isinstance(s_, tuple) and s_ and s_[0] == "bytes":
                    ln_ = len(s_[1] or "") // 2
                    if ln_ != d.hi - d.lo:
                        raise evalx.Panics("copy_from_slice of %d literal bytes into a %d-byte view" % (ln_, d.hi - d.lo))
                    if ln_:
                        writes.append((d.lo, d.hi, "literal:%s" % s_[1], None, None))
                else:
                    fld = _src_field(s_, hf)
                    # the source is a whole part array (a sub-slice of it would have made the evaluation fail): copy_from_slice
                    # panics unless the destination has exactly that length
                    if sizes and fld in sizes and sizes[fld] != d.hi - d.lo:
                        raise evalx.Panics("copy_from_slice of the %d-byte %s into a %d-byte view" % (sizes[fld], fld, d.hi - d.lo))
                    writes.append((d.lo, d.hi, "copy", fld, None))
            elif path.endswith(("hex_str::encode_rev_array", "hex_str::encode_array", "hex_str::encode_rev_1")) and len(vals) == 2 and isinstance(vals[0], View):
                d = vals[0]
                kind = {"encode_rev_array": "rev_array", "encode_array": "plain_array", "encode_rev_1": "rev_1"}[path.rsplit("::", 1)[-1]]
                writes.append((d.lo, d.hi, kind, _src_field(vals[1], hf), "src-len"))
            elif path == "hex_simd::encode" and len(vals) == 3 and isinstance(vals[1], View):
                d = vals[1]
                case = vals[2][1].rsplit("::", 1)[-1] if isinstance(vals[2], tuple) and len(vals[2]) > 1 and isinstance(vals[2][1], str) else None
                writes.append((d.lo, d.hi, "hex_simd:%s" % case, _src_field(vals[0], hf), None))
            else:
                unknown.append(path)
    return writes, unknown


def _asg(env, L, mode, text):
    cv = {k.split(":", 1)[1].rsplit("::", 1)[-1]: v for k, v in env.items() if k.startswith("assoc:")}
    cps = {k: v for k, v in env.items() if not k.startswith("assoc:") and isinstance(v, int)}
    params = {1: ("obj", "self"), 2: View("out", 0, L)}
    if text:
        params[3] = ("adt", "hash::HexStringPrefix::" + mode)
    return {"symbolic": True, "params": params, "cparams": cps, "cpath_values": cv, "calls": _handlers(L)}


def _perenv(d):
    vals = set(d.values())
    if len(vals) == 1:
        return ("const", vals.pop())
    return ("perenv", dict(d))


def _model(F, name, text):
    b, S, err = layout.writer_paths(F, name)
    if b is None:
        return None, err
    envs = layout.variant_envs(F)
    hf = common.hash_fields(F)
    if not envs or not hf:
        return None, "variant constants / hash fields"
    evalx.set_target(F)
    try:
        paths = S.paths()
    except sym.PathLimit:
        return None, "path explosion"
    if any(p.end == "loop" for p in paths):
        return None, "%s contains a loop (writes cannot be replayed by path evaluation)" % name
    modes = ("Empty", "WithVersion") if text else (None,)
    src_len = {"checksum": "SIZE_CKSUM", "body": "SIZE_BODY"}
    out = {"body": b, "S": S, "modes": {}, "errs": {}} if text else {"body": b, "ok": None, "err": None}
    for mode in modes:
        kname = ("LEN_IN_STR" if mode == "WithVersion" else "LEN_IN_STR_EXCEPT_PREFIX") if text else "SIZE_IN_BYTES"
        per = {}  # variant -> {"ok": [write lists of the distinct Ok paths, primary first], "unk": [...], "okret": v, "err": v}
        gate_ok = {}
        for vname, env in envs:
            N = env.get("assoc:" + kname)
            if N is None:
                return None, "constant %s" % kname
            # which path is taken is a function of the buffer length: scan it densely (path selection is cheap), then replay the
            # effects of every distinct path at its smallest and its largest sampled length
            groups = {}
            order = []
            for L in list(range(0, N + 1100)) + [2 * N + 7, N + 4096, (1 << 20) + 3, (1 << 31) + N]:
                try:
                    p_ = evalx.select(S, F, paths, _asg(env, L, mode, text))
                except evalx.Panics as ex:
                    return None, "%s/%s: a buffer of length %d panics (%s)" % (vname, mode, L, ex)
                except evalx.Unknown as ex:
                    return None, "cannot evaluate %s (%s, buffer length %d): %s" % (name, vname, L, ex)
                g = groups.setdefault(id(p_), [])
                if not g:
                    order.append(id(p_))
                g.append(L)
            oks, unk, okret, errret_v = [], [], None, None
            for pid in order:
                Ls = groups[pid]
                reps = {}
                for L in sorted({Ls[0], Ls[-1], Ls[len(Ls) // 2]}):
                    try:
                        ret, effs = effects(S, F, paths, _asg(env, L, mode, text))
                        w, u = _writes_of(effs, hf, F, L, {"checksum": env["SIZE_CKSUM"], "body": env["SIZE_BODY"]})
                    except evalx.Panics as ex:
                        return None, "%s/%s: a buffer of length %d panics (%s)" % (vname, mode, L, ex)
                    except evalx.Unknown as ex:
                        return None, "cannot evaluate %s (%s, buffer length %d): %s" % (name, vname, L, ex)
                    reps[L] = (ret, w, u)
                kinds = {("Ok" if isinstance(r_[0], tuple) and r_[0][:1] == ("Ok",) else "Err" if isinstance(r_[0], tuple) and r_[0][:1] == ("Err",) else "other") for r_ in reps.values()}
                if len(kinds) != 1 or "other" in kinds:
                    return None, "%s/%s: a path returns %s" % (vname, mode, kinds)
                kind = kinds.pop()
                if (kind == "Err") != (Ls[-1] < N) or (kind == "Err" and any(L >= N for L in Ls)) or (kind == "Ok" and any(L < N for L in Ls)):
                    return None, "%s/%s: %s is returned for buffer lengths %d..%d (advertised size %d)" % (vname, mode, kind, Ls[0], Ls[-1], N)
                # a write whose end follows the buffer length in every sample is open-ended (the callee is handed the rest of the buffer)
                Lsamp = sorted(reps)
                lists = [reps[L_][1] for L_ in Lsamp]
                if len({len(w_) for w_ in lists}) != 1:
                    return None, "%s/%s: the writes of one path depend on the buffer length" % (vname, mode)
                merged = []
                for i_ in range(len(lists[0])):
                    items = [w_[i_] for w_ in lists]
                    if len({(a, k, s_, l_) for (a, b_, k, s_, l_) in items}) != 1:
                        return None, "%s/%s: the writes of one path depend on the buffer length" % (vname, mode)
                    his = [it[1] for it in items]
                    if len(set(his)) == 1 and not (len(Lsamp) == 1 and his[0] == Lsamp[0] and items[0][2] in ("rev_array", "plain_array") or len(Lsamp) == 1 and his[0] == Lsamp[0] and items[0][2].startswith("hex_simd")):
                        hi_ = his[0]
                    elif all(h_ == L_ for h_, L_ in zip(his, Lsamp)) and (items[0][2] in ("rev_array", "plain_array", "rev_1") or items[0][2].startswith("hex_simd")):
                        hi_ = None
                    else:
                        return None, "%s/%s: the end of a write depends on the buffer length" % (vname, mode)
                    merged.append((items[0][0], hi_, items[0][2], items[0][3], items[0][4]))
                ws = [merged]
                if kind == "Err":
                    if ws[0] or any(r_[2] for r_ in reps.values()):
                        return None, "%s/%s: the error path writes to the buffer" % (vname, mode)
                    ev_ = next(iter(reps.values()))[0]
                    if errret_v is not None and errret_v != ev_:
                        return None, "%s/%s: two different error values" % (vname, mode)
                    errret_v = ev_
                else:
                    rv = {r_[0] for r_ in reps.values()}
                    if len(rv) != 1 or (okret is not None and okret not in rv):
                        return None, "%s/%s: Ok values %s" % (vname, mode, rv)
                    okret = next(iter(rv))
                    if ws[0] not in oks:
                        oks.append(ws[0])
                    for r_ in reps.values():
                        unk += r_[2]
            if not oks or errret_v is None:
                return None, "%s/%s: no Ok or no Err path" % (vname, mode)
            gate_ok[vname] = N
            per[vname] = {"ok": oks, "unk": unk, "okret": okret, "err": errret_v}
        # merge over variants: the primary write list, then alternatives (a variant without an i-th alternative repeats its primary)
        nalt = max(len(per[v]["ok"]) for v in per)
        recs = []
        for ai in range(nalt):
            lists = {v: (per[v]["ok"][ai] if ai < len(per[v]["ok"]) else per[v]["ok"][0]) for v in per}
            shapes = {v: [(k, s_) for (_, _, k, s_, _) in lists[v]] for v in per}
            if len({repr(x) for x in shapes.values()}) != 1:
                return None, "write sequences differ between variants: %s" % shapes
            first = lists[next(iter(lists))]
            writes = []
            for i in range(len(first)):
                lo = _perenv({v: lists[v][i][0] for v in per})
                hi_vals = {v: lists[v][i][1] for v in per}
                if all(x is None for x in hi_vals.values()):
                    hi = None
                elif all(x is not None for x in hi_vals.values()):
                    hi = _perenv(hi_vals)
                else:
                    return None, "open-endedness of a write differs between variants"
                kind, src = first[i][2], first[i][3]
                ln = None
                if first[i][4] == "src-len":
                    ln = ("cparam", src_len[src]) if src in src_len else ("const", 1)
                writes.append((lo, hi, kind, src, ln))
            recs.append(writes)
        unknown = sorted({u for v in per for u in per[v]["unk"]})
        okv = {v: per[v]["okret"] for v in per}
        if not all(isinstance(x, tuple) and x[0] == "Ok" and isinstance(x[1], int) for x in okv.values()):
            return None, "Ok value is not a number: %s" % okv
        okret = ("agg", "adt:core::result::Result::Ok", (_perenv({v: okv[v][1] for v in okv}),))
        errv = {repr(per[v]["err"]) for v in per}
        e0 = next(iter(per.values()))["err"]
        if len(errv) != 1 or not (isinstance(e0, tuple) and e0[0] == "Err" and isinstance(e0[1], tuple) and e0[1][:1] == ("adt",)):
            return None, "error value %s" % errv
        errret = ("agg", "adt:core::result::Result::Err", (("agg", "adt:" + e0[1][1], ()),))
        gate_expr = _perenv(gate_ok)
        mk = lambda w_: {"gate": (gate_expr, False), "ret": okret, "writes": w_, "unknown": unknown, "path": None, "alts": [], "engine": "evaluation"}
        okrec = mk(recs[0])
        okrec["alts"] = [mk(w_) for w_ in recs[1:]]
        if text:
            out["modes"][mode] = okrec
            out["errs"][mode] = {"gate": (gate_expr, True), "ret": errret, "writes": 0}
        else:
            out["ok"] = okrec
            out["err"] = {"gate": (gate_expr, True), "ret": errret, "writes": [], "unknown": [], "path": None, "alts": []}
    return out, None


def text_writer(F):
    return _model(F, "store_into_str_bytes", True)


def binary_writer(F):
    return _model(F, "store_into_bytes", False)
