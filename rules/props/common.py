"""Models shared between properties: generator layout, option setters, finalize model."""
from .. import sym
from ..norm import n, P, C, V, ANY, match, find_all

VARIANTS = {  # name: (CK, BODY, BUCKETS, BYTES, STR)
    "Short": (1, 12, 48, 15, 32),
    "Normal": (1, 32, 128, 35, 72),
    "NormalWithLongChecksum": (3, 32, 128, 37, 76),
    "Long": (1, 64, 256, 67, 136),
    "LongWithLongChecksum": (3, 64, 256, 69, 140),
}


def adt(F, path):
    for a in F.d["adts"]:
        if a["path"] == path:
            return a
    return None


def struct_fields(F, path):
    a = adt(F, path)
    if not a or len(a["variants"]) != 1:
        return None
    return [(f["name"], F.tys(f["ty"])) for f in a["variants"][0]["fields"]]


def generator_fields(F):
    """Field indices of generate::inner::Generator by role."""
    fs = struct_fields(F, "generate::inner::Generator")
    if not fs:
        return None
    out = {}
    u32s = []
    for i, (name, ty) in enumerate(fs):
        if ty.startswith("buckets::FuzzyHashBucketsData<"):
            out["buckets"] = i
        elif ty.startswith("hash::checksum::FuzzyHashChecksumData<"):
            out["checksum"] = i
        elif ty.startswith("[u8;"):
            out["tail"] = i
        elif ty == "u32":
            u32s.append((i, name))
    if len(u32s) != 2 or len(out) != 3:
        return None
    # the two u32 counters are told apart by declared name
    for i, name in u32s:
        if name == "tail_len":
            out["tail_len"] = i
        elif name == "len":
            out["len"] = i
    if "len" not in out or "tail_len" not in out:
        return None
    return out


def hash_fields(F):
    fs = struct_fields(F, "hash::inner::FuzzyHash")
    if not fs:
        return None
    out = {}
    for i, (name, ty) in enumerate(fs):
        if ty.startswith("hash::body::FuzzyHashBodyData<"):
            out["body"] = i
        elif ty.startswith("hash::checksum::FuzzyHashChecksumData<"):
            out["checksum"] = i
        elif ty == "length::FuzzyHashLengthEncoding":
            out["lvalue"] = i
        elif ty == "hash::qratios::FuzzyHashQRatios":
            out["qratios"] = i
    return out if len(out) == 4 else None


def options_fields(F):
    fs = struct_fields(F, "generate::GeneratorOptions")
    if not fs:
        return None
    out = {}
    for i, (name, ty) in enumerate(fs):
        if ty == "length::DataLengthProcessingMode":
            out["mode"] = i
        elif ty == "generate::TLSHCompatibleGeneratorFlags":
            out["compat"] = i
        elif ty == "generate::TLSHIncompatibleGeneratorFlags":
            out["incompat"] = i
    return out if len(out) == 3 else None


def enum_variants(F, path):
    a = adt(F, path)
    if not a:
        return None
    return {v["name"]: v["discr"] for v in a["variants"]}


def option_setters(F):
    """{setter name: (options field index, mask)} read from the public setter bodies."""
    out = {}
    of = options_fields(F)
    if not of:
        return None
    for b in F.find(lambda b: b.d.get("impl") == "generate::GeneratorOptions" and b.kind == "AssocFn"):
        ps = [p for p in sym.Sym(b).paths() if p.end == "return"]
        if len(ps) != 1:
            continue
        for (_, path, args, c) in ps[0].calls:
            if path.endswith("::set") and len(args) == 3:
                a0, a1, a2 = n(args[0]), n(args[1]), n(args[2])
                m = match(("ref", ("field", ("deref", P(1)), V("f"))), a0)
                if m and a1[0] == "const" and a2 == P(2):
                    out[b.name] = (m["f"], a1[1])
    return out


# ---------------------------------------------------------------------------
# finalize model


class FinModel:
    pass


def _flag_mask(e):
    """Mask value of a flag operand: const, or bitor(const, const)."""
    if e[0] == "const":
        return e[1]
    if e[0] == "call" and e[1].endswith("::bitor") and all(x[0] == "const" for x in e[2]):
        v = 0
        for x in e[2]:
            v |= x[1]
        return v
    return None


def final_array_state(stores, base, size):
    """{index: value} of array place `base` after the (normalised) stores of a path: element stores `base[i] = v` and whole-array
    stores `base = [v0, ..]` in order, the last write of each element winning; None if some store into `base` is not understood."""
    state = {}
    for pl, v in stores:
        if pl == base:
            if v[0] == "agg" and v[1] in ("array", "adt:array") and len(v[2]) == size:
                for i, x in enumerate(v[2]):
                    state[i] = x
            elif v[0] == "repeat" and v[2] == C(size):
                for i in range(size):
                    state[i] = v[1]
            else:
                return None
        elif pl[0] == "index" and pl[1] == base and pl[2][0] == "const" and 0 <= pl[2][1] < size:
            state[pl[2][1]] = v
        elif find_all(pl, lambda y: y == base):
            return None
    return state


def _validity_eq(e):
    """(variant name, the DataLengthValidity::new call, is `!=`) for `new(..) == DataLengthValidity::X` conditions, else None"""
    if e[0] != "call" or not e[1].endswith(("PartialEq>::eq", "PartialEq>::ne")) or len(e[2]) != 2:
        return None
    a, b = e[2]
    a = a[1] if a[0] == "ref" else a
    b = b[1] if b[0] == "ref" else b
    for x, y in ((a, b), (b, a)):
        if x[0] == "call" and x[1] == "length::DataLengthValidity::new" and y[0] == "agg" and y[1].startswith("adt:length::DataLengthValidity::") and not y[2]:
            return y[1].rsplit("::", 1)[-1], x, e[1].endswith("::ne")
    return None


def finalize_model(F):
    """Classify every returning path of inner Generator::finalize_with_options."""
    bs = F.method("finalize_with_options", "generate::inner::Generator<")
    if len(bs) != 1:
        return None, "inner Generator::finalize_with_options not found (%d)" % len(bs)
    b = bs[0]
    of = options_fields(F)
    gf = generator_fields(F)
    if not of or not gf:
        return None, "GeneratorOptions / Generator field layout not recognised"
    S = sym.Sym(b)
    try:
        paths = S.paths()
    except sym.PathLimit:
        return None, "path explosion in finalize_with_options"
    M = FinModel()
    M.body = b
    M.S = S
    M.of = of
    M.gf = gf
    M.paths = []
    M.unknown = []
    validity = enum_variants(F, "length::DataLengthValidity") or {}
    M.validity = validity
    for p in paths:
        if p.end not in ("return",):
            # diverging paths: unwrap panics etc. are handled by C17; keep for reference
            M.paths.append({"end": p.end, "events": None, "p": p})
            continue
        ev = []
        for (bb, d, taken, vals) in p.conds:
            e = n(d)
            outcome = None if taken == "otherwise" else taken
            truth = (taken == "otherwise") if vals == [0] else (None if taken == "otherwise" else bool(taken))
            if e[0] == "call" and e[1] == "length::DataLengthValidity::is_err_on":
                ev.append(("len_gate", truth, e))
            elif e[0] == "discr" and e[1][0] == "call" and e[1][1] == "length::DataLengthValidity::new":
                names = {v: k for k, v in validity.items()}
                if taken == "otherwise":
                    ev.append(("validity", "not:" + ",".join(sorted(names.get(v, str(v)) for v in vals)), e))
                else:
                    ev.append(("validity", names.get(taken, str(taken)), e))
            elif _validity_eq(e) is not None and truth is not None:
                # `validity == DataLengthValidity::X` (derived PartialEq) is the same decision as a `match` arm
                vname, callnew, is_ne = _validity_eq(e)
                same = truth != is_ne
                ev.append(("validity", vname if same else "not:" + vname, ("discr", callnew)))
            elif e[0] == "call" and (e[1].endswith("::contains") or e[1].endswith("::intersects")) and "GeneratorFlags" in e[1]:
                recv = match(("ref", ("field", ("deref", P(2)), V("f"))), e[2][0])
                mask = _flag_mask(e[2][1])
                kind = "contains" if e[1].endswith("::contains") else "intersects"
                if recv is None or mask is None:
                    M.unknown.append((bb, sym.fmt(e)))
                    ev.append(("unknown", truth, e))
                else:
                    ev.append(("flag", (recv["f"], kind, mask), truth, e))
            elif e[0] == "bin" and e[1] == "Eq" and C(0) in (e[2], e[3]):
                other = e[3] if e[2] == C(0) else e[2]
                ev.append(("zero_test", truth, other))
            elif e[0] == "bin" and e[1] == "Lt" and e[3][0] in ("cpath", "const"):
                ev.append(("lt_const", truth, e[2], e[3]))
            else:
                M.unknown.append((bb, sym.fmt(e)))
                ev.append(("unknown", truth, e))
        ret = n(p.ret, keep_casts=True)
        res = None
        if ret[0] == "agg" and ret[1].endswith("Result::Err"):
            inner = ret[2][0]
            res = ("Err", inner[1].rsplit("::", 1)[-1] if inner[0] == "agg" else sym.fmt(inner))
        elif ret[0] == "agg" and ret[1].endswith("Result::Ok"):
            res = ("Ok", ret[2][0])
        else:
            res = ("other", ret)
        M.paths.append({"end": "return", "events": ev, "res": res, "p": p})
    return M, None


def ev_kinds(events):
    out = []
    for e in events:
        if e[0] == "flag":
            out.append(("flag",) + e[1])
        else:
            out.append((e[0],))
    return out


def _nonzero_count_of(F, M, lhs, arr):
    """None if lhs is `ITER(arr).filter(|x| x != 0).count()` (adapter or counting-loop spelling), else a description"""
    if not (lhs[0] == "call" and lhs[1].endswith("::count") and len(lhs[2]) == 1):
        return "not a count"
    f = lhs[2][0]
    if not (f[0] == "call" and f[1].endswith("::filter") and len(f[2]) == 2):
        return "count of something other than a filter"
    src, cl = f[2]
    while src[0] == "call" and src[1].rsplit("::", 1)[-1] in ("iter", "into_iter", "copied", "cloned") and len(src[2]) == 1:
        src = src[2][0]
    while src[0] in ("ref", "deref"):
        src = src[-1]
    if arr is not None and src != arr:
        return "counts over %s, not the bucket array" % sym.fmt(src)[:80]
    if not (cl[0] == "agg" and cl[1].startswith("closure:")):
        return "filter predicate is not a closure"
    nm = cl[1][len("closure:"):]
    if nm.startswith("<counting-loop@"):
        pred = M.S._counting_loops().get(int(nm[len("<counting-loop@"):-1]), {}).get("pred")
        if pred is None:
            return "counting loop without a predicate"
        e, truth = n(pred[0]), pred[1]
    else:
        cb = F.fn(nm)
        ps = [q for q in sym.Sym(cb).paths() if q.end == "return"] if cb is not None else []
        if len(ps) != 1:
            return "filter closure not understood"
        e, truth = n(ps[0].ret), True
    if e[0] == "bin" and e[1] == "Eq":
        e, truth = ("bin", "Ne", e[2], e[3]), not truth
    if e[0] == "bin" and e[1] == "Lt" and e[2] == C(0):
        e = ("bin", "Ne", e[3], C(0))  # 0 < x on an unsigned value
    if not (truth and e[0] == "bin" and e[1] == "Ne" and C(0) in (e[2], e[3])):
        return "the predicate is %s%s, not `x != 0`" % ("" if truth else "not ", sym.fmt(e))
    x = e[3] if e[2] == C(0) else e[2]
    while x[0] in ("load", "deref", "ref"):
        x = x[-1] if x[0] != "load" else x[1]
    if x not in (("item",), P(2)):
        return "the predicate tests %s, not the bucket value" % sym.fmt(x)
    return None


def finalize_skeleton(ctx, F, r):
    ctx.rule(r, "finalize skeleton: rejection order, selection ranks, arithmetic widths, emptiness tests, Ok value provenance", "N")
    M, err = finalize_model(F)
    if M is None:
        ctx.missing(r, err, cfg=F.key)
        return
    b = M.body
    if M.unknown and finalize_table_evaluated(F, M)[0] is None:
        ctx.missing(r, "unrecognised branch condition(s) in finalize_with_options: %s" % M.unknown[:3], cfg=F.key)
    rets = [p for p in M.paths if p["end"] == "return"]
    ctx.instance(r, len(rets))
    # (a) error variants and order of gates
    errs = sorted({p["res"][1] for p in rets if p["res"][0] == "Err"})
    ctx.ob(r, ("finalize", "error-variants"), errs == sorted(["TooLargeInput", "TooSmallInput", "BucketsAreThreeQuarterEmpty", "BucketsAreHalfEmpty"]),
           "finalize constructs error variants %s" % errs, cfg=F.key, where=b.where())
    inc_f = M.of["incompat"]
    comp_f = M.of["compat"]
    # precedence of the rejections, decided on the abstract domain (5 option bits x validity class x q3==0 x too-few-buckets):
    # length errors first (too large is never waived), then three-quarter-empty, then half-empty, else Ok -- in whatever
    # order the source tests them
    bad = []
    rows, terr = finalize_table(F, M)
    if rows is None:
        bad.append(("decision table", terr))
    else:
        for o, d, res in rows:
            if d["gate"] and d["validity"] == "TooLarge":
                want = ("Err", "TooLargeInput")
            elif d["gate"] and not o["small"]:
                want = ("Err", "TooSmallInput")
            elif d["Z"] and not o["quarter"]:
                want = ("Err", "BucketsAreThreeQuarterEmpty")
            elif d["H"] and not (o["half"] or o["quarter"]):
                want = ("Err", "BucketsAreHalfEmpty")
            else:
                want = ("Ok",)
            got = (res[0], res[1]) if res[0] == "Err" else ("Ok",)
            if got != want and len(bad) < 4:
                bad.append(("options %s, data %s" % ({k: v for k, v in o.items() if v}, d), "gives %s, reference %s" % (got, want)))
    ctx.ob(r, ("finalize", "rejection-order"), not bad,
           "rejection precedence is not length -> three-quarter-empty -> half-empty -> Ok: %s" % bad[:3], cfg=F.key, where=b.where(),
           detail={"rows": len(rows) if rows else 0})
    # (b) selection ranks and quartile provenance
    oks = [p for p in rets if p["res"][0] == "Ok"]
    if not oks:
        ctx.missing(r, "Ok path in finalize_with_options", cfg=F.key)
        return
    NB = ("cparam", "SIZE_BUCKETS")
    rank = lambda d: n(("bin", "Sub", ("bin", "Div", NB, C(d)), C(1)))
    sel1 = ("call", "core::slice::<impl [T]>::select_nth_unstable", (("ref", V("copy")), rank(2)))
    q2 = ("load", ("deref", ("field", sel1, 1)))
    sel = lambda part: ("call", "core::slice::<impl [T]>::select_nth_unstable", (("field", sel1, part), rank(4)))
    q1 = ("load", ("deref", ("field", sel(0), 1)))
    q3 = ("load", ("deref", ("field", sel(2), 1)))
    # find a path where quartiles are not the dummy constants
    agg_ok = None
    detail = None
    buckets_arr = None
    for p in oks:
        for (bb, path, args, c) in p["p"].calls:
            if path.endswith("::aggregate_buckets") and len(args) == 5:
                a = [n(x) for x in args]
                if a[2] == C(1):
                    continue
                bnd = {}
                m = match((("ref", V("out")), ("ref", V("buckets")), q1, q2, q3), tuple(a), bnd)
                agg_ok = m is not None
                if m is not None:
                    # `copy` is a different local than `buckets`, defined as a copy of it
                    cp, bk = m["copy"], m["buckets"]
                    buckets_arr = bk
                    while buckets_arr[0] in ("ref", "deref"):
                        buckets_arr = buckets_arr[-1]
                    same = cp == bk
                    defs = b.defs().get(cp[1], []) if cp[0] == "lv" else []
                    is_copy = False
                    for d in defs:
                        if d[2].get("rv") == "use":
                            src = (d[2]["op"].get("copy") or d[2]["op"].get("move") or {})
                            if "p" in src or "l" not in src:
                                continue
                            sv = p["p"].env["locals"].get(src["l"])
                            if bk == ("lv", src["l"]) or (sv is not None and n(sv) == bk):
                                is_copy = True
                    agg_ok = (not same) and is_copy
                    detail = "copy=%s buckets=%s is_copy=%s" % (sym.fmt(cp), sym.fmt(bk), is_copy)
                else:
                    detail = "aggregate_buckets(%s)" % ", ".join(sym.fmt(x) for x in a)
                break
        if agg_ok is not None:
            break
    ctx.ob(r, ("finalize", "selection-ranks"), bool(agg_ok),
           "quartiles/aggregator operands are not (q1,q2,q3) = ranks N/4-1 of the lower part, N/2-1 of a copy, N/4-1 of the upper part with the "
           "aggregator fed the unsorted array: %s" % detail, cfg=F.key, where=b.where())
    # (c) arithmetic widths; (e) Ok value
    hf = hash_fields(F)
    ev_rows, _ = finalize_table_evaluated(F, M)
    by_path = {}
    if ev_rows is not None:
        for (o_, d_, res_), rp_ in zip(ev_rows, M.row_paths):
            if res_[0] == "Ok":
                by_path.setdefault(id(rp_), set()).add((bool(o_["pure"]), bool(d_["Z"])))
    for p in oks:
        ok_val = p["res"][1]
        pure = [e for e in p["events"] if e[0] == "flag" and e[1][0] == comp_f]
        dummy = any(e[0] == "zero_test" and e[1] for e in p["events"])
        modes_ = by_path.get(id(p["p"]))
        if ev_rows is not None:
            # which arithmetic an Ok path uses, from the assignments that select it in the evaluated table
            if not modes_:
                continue  # an Ok path no assignment selects: infeasible
            if len({m_[0] for m_ in modes_}) != 1 or len({m_[1] for m_ in modes_}) != 1:
                ctx.ob(r, ("finalize", "pure-integer-test-count"), False, "one Ok path serves both Q-ratio modes or both quartile cases: %s" % sorted(modes_), cfg=F.key)
                continue
            integer, dummy = next(iter(modes_))
            pure = [("flag", (comp_f,), integer)]
        Q1, Q2, Q3 = (C(1), C(1), C(1)) if dummy else (q1, q2, q3)
        if len(pure) != 1:
            ctx.ob(r, ("finalize", "pure-integer-test-count"), False, "Ok path tests the compat flags %d times" % len(pure), cfg=F.key)
            continue
        integer = pure[0][2]

        def ratio(q):
            if integer:
                return ("cast", "IntToInt", "u8", ("bin", "Rem", ("bin", "Div", ("bin", "Mul", ("cast", "IntToInt", "u64", q), C(100)),
                                                                    ("cast", "IntToInt", "u64", Q3)), C(16)))
            return ("cast", "IntToInt", "u8", ("bin", "Rem", ("cast", "FloatToInt", "u32", ("bin", "Div",
                    ("cast", "IntToFloat", "f32", ("call", "core::num::<impl u32>::wrapping_mul", (q, C(100)))),
                    ("cast", "IntToFloat", "f32", Q3))), C(16)))

        def strip(e):
            # remove IntToInt casts that the keep_casts normaliser kept on leaves we do not constrain
            return e

        want_q = ("call", "hash::qratios::FuzzyHashQRatios::new", (n(ratio(Q1), keep_casts=True), n(ratio(Q2), keep_casts=True)))
        want_len = ("call", "core::option::Option::<T>::unwrap", (("call", "length::FuzzyHashLengthEncoding::new", (V("len"),)),))
        pat = ("call", V("from_raw"), (("call", V("body_from_raw"), (V("body"),)), ("load", ("field", ("deref", P(1)), M.gf["checksum"])), want_len, want_q))
        bnd = {}
        m = match(pat, _commute_mul(ok_val), bnd)
        mode = "integer" if integer else "float"
        ctx.ob(r, ("finalize", "ok-value-%s%s" % (mode, "-dummy" if dummy else "")), m is not None,
               "Ok value (%s mode%s) is %s; reference from_raw(body, self.checksum, LengthEncoding::new(len).unwrap(), "
               "QRatios::new(q1*100/q3 %% 16, q2*100/q3 %% 16)) with the mode's arithmetic widths" % (mode, ", dummy quartiles" if dummy else "", sym.fmt(ok_val)),
               cfg=F.key, where=b.where())
        if m is not None:
            lenx = m["len"]
            want = ("call", "core::option::Option::<T>::unwrap_or", (("call", V("pl"), (P(1),)), C(0xFFFFFFFF)))
            mm = match(want, lenx)
            ctx.ob(r, ("finalize", "length-source"), mm is not None and mm["pl"].endswith("processed_len"),
                   "length fed to LengthEncoding::new is %s; reference processed_len().unwrap_or(u32::MAX)" % sym.fmt(lenx), cfg=F.key, trivial=True)
    # (d) emptiness tests
    for p in rets:
        for e in p["events"]:
            if e[0] == "zero_test":
                ctx.ob(r, ("finalize", "three-quarter-test-operand"), match(q3, n(e[2])) is not None,
                       "three-quarter-empty test compares %s with 0; reference q3" % sym.fmt(e[2]), cfg=F.key, trivial=True)
            if e[0] == "lt_const":
                lhs = e[2]
                why = _nonzero_count_of(F, M, lhs, buckets_arr)
                ok = why is None and e[3][0] == "cpath" and e[3][1].endswith("MIN_NONZERO_BUCKETS")
                ctx.ob(r, ("finalize", "half-test-operands"), ok,
                       "half-empty test is %s < %s (%s); reference count(non-zero buckets of the array that is aggregated) < MIN_NONZERO_BUCKETS" % (sym.fmt(lhs), sym.fmt(e[3]), why), cfg=F.key)
    # MIN_NONZERO_BUCKETS by value
    mins = F.impl_consts("buckets::constrained::FuzzyHashBucketsInfo<", "buckets::constrained::FuzzyHashBucketMapper")
    got = {k.split("<")[1].rstrip(">"): v.get("MIN_NONZERO_BUCKETS") for k, v in mins.items()}
    ctx.ob(r, ("FuzzyHashBucketsInfo", "MIN_NONZERO_BUCKETS"), got == {"48": 18, "128": 65, "256": 129},
           "MIN_NONZERO_BUCKETS per bucket count is %s; reference 18/65/129" % got, cfg=F.key)


def _commute_mul(e):
    """Normalise operand order of Mul nodes when casts are kept (the generic normaliser sorts by repr)."""
    if not isinstance(e, tuple):
        return e
    if e and e[0] == "bin" and e[1] == "Mul":
        a, b2 = _commute_mul(e[2]), _commute_mul(e[3])
        if a[0] == "const":
            a, b2 = b2, a
        return ("bin", "Mul", a, b2)
    return tuple(_commute_mul(x) if isinstance(x, tuple) else x for x in e)


def naive_aggregator_orientation(ctx, F, r):
    """naive::aggregate_N: out.iter_mut().rev() zipped with buckets.chunks_exact(4);
    each output byte is subbuckets.iter().rev().fold(0, |x,b| x<<2 | get_quartile(b,q1,q2,q3))."""
    seen = 0
    for nm in ("aggregate_48", "aggregate_128", "aggregate_256"):
        b = F.fn("generate::bucket_aggregation::naive::" + nm)
        if b is None:
            continue
        seen += 1
        calls = [t["callee"] for _, t in b.calls()]
        names = [engine_name(c) for c in calls]
        want_seq = ["iter_mut", "rev", "as_slice", "chunks_exact", "zip", "into_iter", "next", "iter", "rev", "fold"]
        sig = [x for x in names if x in set(want_seq)]
        ok = sig == want_seq
        loop_form = False
        if not ok and sig == ["iter_mut", "rev", "as_slice", "chunks_exact", "zip", "into_iter", "next", "iter", "rev", "into_iter", "next"]:
            # the fold written as an explicit inner loop over sub.iter().rev(): x = (x << 2) | get_quartile(b, q1, q2, q3), x0 = 0
            loop_form = _explicit_fold_loop(F, b)
            ok = loop_form
        # chunk size 4
        chunk = None
        for _, t in b.calls():
            if engine_name(t["callee"]) == "chunks_exact":
                c = t["args"][1].get("const")
                chunk = c.get("v") if c else None
        ctx.ob(r, ("naive::" + nm, "orientation"), ok and chunk == 4,
               "naive::%s iterator signature %s chunk %s; reference out.iter_mut().rev() x buckets.chunks_exact(4), inner iter().rev().fold" % (nm, sig, chunk),
               cfg=F.key, where=b.where())
        # fold closure: (x << 2) | get_quartile(b, q1, q2, q3)
        cls = [c for c in F.bodies if c.kind == "Closure" and c.d.get("parent") == b.path]
        okc = False
        got = None
        for c in cls:
            ps = [q for q in sym.Sym(c).paths() if q.end == "return"]
            if len(ps) != 1:
                continue
            e = n(ps[0].ret)
            got = e
            pat = ("bin", "BitOr", V("a"), V("b"))
            m = match(pat, e)
            if not m:
                continue
            parts = [m["a"], m["b"]]
            shl = [x for x in parts if x[0] == "bin" and x[1] == "Shl" and x[3] == C(2) and x[2] == P(2)]
            gq = [x for x in parts if x[0] == "call" and x[1].endswith("naive::get_quartile")]
            if len(shl) == 1 and len(gq) == 1:
                a = gq[0][2]
                # args: (b, q1, q2, q3) with q's read from captured upvars in order 0,1,2
                caps = []
                for x in a[1:]:
                    mm = find_all(x, lambda y: y[0] == "field" and y[1] in (("deref", P(1)), P(1)))
                    caps.append(mm[0][2] if mm else None)
                okc = caps == [0, 1, 2]
        if loop_form:
            okc = True  # the accumulation step was checked on the loop itself
        ctx.ob(r, ("naive::" + nm, "fold-closure"), okc,
               "fold closure computes %s; reference (x << 2) | get_quartile(b, q1, q2, q3)" % (sym.fmt(got) if got else None), cfg=F.key, where=b.where())
    if seen < 3:
        ctx.missing(r, "three naive aggregators (found %d)" % seen, cfg=F.key)


def _explicit_fold_loop(F, b):
    S = sym.Sym(b)
    paths = S.paths()
    hdrs = {p.blocks[-1] for p in paths if p.end == "loop"}
    # also headers of nested loops: walk from each known header
    more = set()
    for h in list(hdrs):
        for p in S.paths(entry=h):
            if p.end == "loop":
                more.add(p.blocks[-1])
    hdrs |= more
    GQ = "generate::bucket_aggregation::naive::get_quartile"
    for h in hdrs:
        for p in S.paths(entry=h):
            if p.end != "loop" or p.blocks[-1] != h:
                continue
            gq = [c for c in p.calls if c[1] == GQ]
            if len(gq) != 1:
                continue
            call = n(("call", gq[0][0], gq[0][1], gq[0][2]))
            args = call[2]
            nxt = [n(("call", c[0], c[1], c[2])) for c in p.calls if c[1].endswith("::next")]
            if not nxt:
                continue
            item = ("field", ("variant", nxt[-1], "Some"), 0)
            okargs = len(args) == 4 and args[0] in (("load", ("deref", item)), item) and list(args[1:]) == [P(3), P(4), P(5)]
            step_ok = False
            acc = None
            for l, v in (p.env["locals"].items() if p.env else ()):
                nv = n(v)
                m = match(("bin", "BitOr", V("a"), V("b")), nv)
                if m and call in (m["a"], m["b"]):
                    other = m["b"] if m["a"] == call else m["a"]
                    if other == ("bin", "Shl", ("local", l), C(2)):
                        step_ok = True
                        acc = l
            if not (okargs and step_ok):
                continue
            # the accumulator starts at 0 when the inner loop is entered ...
            pre = [q for q in S.paths(stop_at={h}) if q.end == "stop"]
            init_ok = bool(pre) and all(n(q.env["locals"].get(acc, ("local", acc))) == C(0) for q in pre)
            # ... and is what gets stored into the output byte when the inner loop ends
            exits = [q for q in S.paths(entry=h) if q.blocks[-1] != h or q.end == "return"]
            store_ok = any(any(n(v) == ("local", acc) and n(pl)[0] == "deref" for (_, pl, v) in q.stores) for q in exits)
            return init_ok and store_ok
    return False


def engine_name(callee):
    return callee.get("name") or (callee.get("path") or "").rsplit("::", 1)[-1]


def finalize_length_source(ctx, F, r):
    """Ok value's length part is LengthEncoding::new(processed_len().unwrap_or(u32::MAX)).unwrap()."""
    M, err = finalize_model(F)
    ctx.instance(r)
    if M is None:
        ctx.missing(r, err, cfg=F.key)
        return
    oks = [p for p in M.paths if p["end"] == "return" and p["res"][0] == "Ok"]
    if not oks:
        ctx.missing(r, "Ok path in finalize_with_options", cfg=F.key)
        return
    want_len = ("call", "core::option::Option::<T>::unwrap", (("call", "length::FuzzyHashLengthEncoding::new",
                (("call", "core::option::Option::<T>::unwrap_or", (("call", V("pl"), (P(1),)), C(0xFFFFFFFF))),)),))
    bad = []
    for p in oks:
        v = n(p["res"][1])
        ok = v[0] == "call" and len(v[2]) == 4
        m = match(want_len, v[2][2]) if ok else None
        if not (m and m["pl"].endswith("processed_len")):
            bad.append(sym.fmt(v[2][2]) if ok else sym.fmt(v))
    ctx.ob(r, ("finalize", "length-part"), not bad,
           "length part of the finalized hash is %s; reference LengthEncoding::new(processed_len().unwrap_or(u32::MAX)).unwrap()" % bad[:1],
           cfg=F.key, where=M.body.where())
    # third argument of from_raw is the length field
    fr = [x for x in F.bodies if x.name == "from_raw" and x.d.get("impl", "").startswith("hash::inner::FuzzyHash<")]
    hf = hash_fields(F)
    if len(fr) == 1 and hf:
        ps = [q for q in sym.Sym(fr[0]).paths() if q.end == "return"]
        e = n(ps[0].ret) if len(ps) == 1 else None
        ok = e is not None and e[0] == "agg" and len(e[2]) == 4
        if ok:
            order = {hf["body"]: P(1), hf["checksum"]: P(2), hf["lvalue"]: P(3), hf["qratios"]: P(4)}
            ok = all(e[2][i] == order[i] for i in range(4))
        ctx.ob(r, ("FuzzyHash::from_raw", "field-order"), ok, "from_raw does not store (body, checksum, lvalue, qratios) into the same-named fields: %s" % (sym.fmt(e) if e else e), cfg=F.key, where=fr[0].where())
    else:
        ctx.missing(r, "hash::inner::FuzzyHash::from_raw", cfg=F.key)


# ---------------------------------------------------------------------------
# decision tables over enum discriminants


def enum_decision(F, path, param_enums):
    """Evaluate a function whose branches only test enum discriminants of its parameters.
    param_enums: {param index: enum path}.  Returns ({(variant names...): result expr}, error)."""
    import itertools
    b = F.fn(path)
    if b is None:
        return None, "function %s not found" % path
    paths = [p for p in sym.Sym(b).paths()]
    enums = {k: enum_variants(F, v) for k, v in param_enums.items()}
    if any(v is None for v in enums.values()):
        return None, "enum layout not found"
    keys = sorted(enums)
    table = {}
    from .. import evalx
    S_ = sym.Sym(b)
    paths = S_.paths()
    for combo in itertools.product(*[sorted(enums[k].items(), key=lambda kv: kv[1]) for k in keys]):
        # evaluate the function on the enum values themselves (any spelling: match, if let, ==, helper calls)
        asg = {"symbolic": True, "params": {k: ("adt", "%s::%s" % (param_enums[k], combo[i][0])) for i, k in enumerate(keys)}}
        try:
            v = evalx.run(S_, F, paths, asg)
        except evalx.Panics:
            table[tuple(c[0] for c in combo)] = ("diverge", None)
            continue
        except evalx.Unknown as ex:
            return None, "cannot evaluate %s on %s: %s" % (path, [c[0] for c in combo], ex)
        if isinstance(v, int):
            table[tuple(c[0] for c in combo)] = ("return", ("const", int(v)))
        else:
            table[tuple(c[0] for c in combo)] = ("return", v)
    return table, None


def finalize_table_evaluated(F, M):
    """The 512-row table by abstract evaluation of finalize_with_options itself (any spelling of its conditions): options = the five
    option bits as concrete flag words and the mode enum; DataLengthValidity::new(..) = the chosen validity class; the three
    select_nth_unstable pivots = concrete numbers with q3 == 0 or not; the non-zero bucket count = MIN_NONZERO_BUCKETS - 1 or
    MIN_NONZERO_BUCKETS.  Returns (rows, None) like finalize_table, or (None, reason) when the function cannot be evaluated."""
    import itertools
    from .. import evalx
    setters = option_setters(F)
    of = options_fields(F)
    need = {"allow_small_size_files", "allow_statistically_weak_buckets_half", "allow_statistically_weak_buckets_quarter", "pure_integer_qratio_computation"}
    if not setters or not of or not need <= set(setters):
        return None, "option setters not recognised"
    tab, err = enum_decision(F, "length::DataLengthValidity::is_err_on", {1: "length::DataLengthValidity", 2: "length::DataLengthProcessingMode"})
    if tab is None:
        return None, err
    validity = enum_variants(F, "length::DataLengthValidity")
    if getattr(M, "_evaluated", None) is not None:
        return M._evaluated
    b = M.body
    S = M.S
    paths = [q["p"] for q in M.paths]  # the very path objects of the model, so that rows can be related to its paths
    evalx.set_target(F)
    M.row_paths = []
    envs = None
    try:
        from . import layout
        envs = layout.variant_envs(F)
    except Exception:
        envs = None
    if not envs:
        return None, "variant constants"
    env = dict(envs[1][1])  # Normal: 128 buckets
    cv = {k.split(":", 1)[1].rsplit("::", 1)[-1]: v for k, v in env.items() if k.startswith("assoc:")}
    cps = {k: v for k, v in env.items() if not k.startswith("assoc:") and isinstance(v, int)}
    MIN = cv.get("MIN_NONZERO_BUCKETS")
    if not isinstance(MIN, int):
        return None, "MIN_NONZERO_BUCKETS"
    OPT, SELF = ("obj", "options"), ("obj", "self")
    rows = []
    for small, half, quarter, cons, pure in itertools.product((0, 1), repeat=5):
        flags = {}
        for nm, on in (("allow_small_size_files", small), ("allow_statistically_weak_buckets_half", half),
                       ("allow_statistically_weak_buckets_quarter", quarter), ("pure_integer_qratio_computation", pure)):
            f, mask = setters[nm]
            flags[f] = flags.get(f, 0) | (mask if on else 0)
        mode = "Conservative" if cons else "Optimistic"
        for vname in validity:
            gate = tab[(vname, mode)]
            if gate[0] != "return" or gate[1][0] != "const":
                return None, "is_err_on(%s,%s) is %s" % (vname, mode, gate)
            G = bool(gate[1][1])
            for Z, H in itertools.product((False, True), repeat=2):
                q1, q2, q3 = (0, 0, 0) if Z else (3, 5, 7)

                def flagword(x):
                    if isinstance(x, tuple) and len(x) == 3 and x[0] == "fld" and x[1] == OPT and x[2] in (of["compat"], of["incompat"]):
                        return flags.get(x[2], 0)
                    if isinstance(x, int):
                        return x
                    raise evalx.Unknown("flag word %r" % (x,))

                def select(part, k_):
                    if isinstance(part, tuple) and part[:1] == ("part",):
                        if part[1] == "L":
                            return (("part", "LL"), q1, ("part", "LR"))
                        if part[1] == "R":
                            return (("part", "RL"), q3, ("part", "RR"))
                        raise evalx.Unknown("select_nth_unstable on %r" % (part,))
                    return (("part", "L"), q2, ("part", "R"))

                def count(x):
                    if isinstance(x, tuple) and x[:1] == ("filtered",):
                        return MIN - 1 if H else MIN
                    raise evalx.Unknown("count of %r" % (x,))

                def apply_closure(cl, args):
                    if not (isinstance(cl, tuple) and cl[:1] == ("closure",)):
                        raise evalx.Unknown("not a closure: %r" % (cl,))
                    cb_ = F.fn(cl[1])
                    if cb_ is None or cb_.mir is None:
                        raise evalx.Unknown("closure body")
                    S3 = sym.Sym(cb_)
                    ps = {1: cl[2]}
                    for i_, a_ in enumerate(args):
                        ps[2 + i_] = a_
                    return evalx.run(S3, F, S3.paths(), {"symbolic": True, "params": ps, "cparams": cps, "cpath_values": cv})

                def fold(it, init, cl):
                    # a fold that counts the non-zero items: f(acc, x) == acc + (x != 0) on sample points
                    if isinstance(it, tuple) and it[:1] == ("iter",) and init == 0 and all(apply_closure(cl, [a_, x_]) == a_ + (1 if x_ else 0) for a_, x_ in ((5, 0), (5, 7), (0, 1), (9, 0), (2, 4294967295))):
                        return MIN - 1 if H else MIN
                    raise evalx.Unknown("fold over %r" % (it,))

                def msum(x):
                    if isinstance(x, tuple) and x[:1] == ("mapped",) and isinstance(x[1], tuple) and x[1][:1] == ("iter",) \
                            and all(apply_closure(x[2], [x_]) == (1 if x_ else 0) for x_ in (0, 1, 7, 4294967295)):
                        return MIN - 1 if H else MIN
                    raise evalx.Unknown("sum of %r" % (x,))
                calls = {
                    "::contains": lambda a, m: int((flagword(a) & flagword(m)) == flagword(m)),
                    "::intersects": lambda a, m: int((flagword(a) & flagword(m)) != 0),
                    "::bitor": lambda a, m: flagword(a) | flagword(m),
                    "GeneratorType>::processed_len": lambda s_: ("Some", ("obj", "len")),
                    "length::DataLengthValidity::new": lambda *a: ("adt", "length::DataLengthValidity::" + vname),
                    "length::FuzzyHashLengthEncoding::new": lambda l_: ("Some", ("obj", "lvalue")),
                    "core::slice::<impl [T]>::select_nth_unstable": select,
                    "core::slice::<impl [T]>::iter": lambda x: ("iter", x),
                    "core::iter::Iterator::filter": lambda it, cl: ("filtered", it, cl),
                    "Iterator>::count": count, "core::iter::Iterator::count": count,
                    "core::iter::Iterator::fold": fold, "Iterator>::fold": fold,
                    "core::iter::Iterator::map": lambda it, cl: ("mapped", it, cl),
                    "core::iter::Iterator::sum": msum, "Iterator>::sum": msum,
                    "FuzzyHashBucketMapper::aggregate_buckets": lambda *a: ("zst",),
                    "TryInto<U>>::try_into": lambda x: ("Ok", x),
                    "hash::qratios::FuzzyHashQRatios::new": lambda a, c_: ("obj", "qratios"),
                    "core::num::<impl u32>::wrapping_mul": lambda a, c_: (a * c_) & 0xFFFFFFFF if isinstance(a, int) and isinstance(c_, int) else ("obj", "product"),
                }
                asg = {"symbolic": True, "params": {1: SELF, 2: OPT}, "cparams": cps, "cpath_values": cv, "calls": calls,
                       "fields": {("fld", OPT, of["mode"]): ("adt", "length::DataLengthProcessingMode::" + mode)}}
                try:
                    p = evalx.select(S, F, paths, asg)
                except evalx.Panics as ex:
                    return None, "finalize panics under options %s, validity %s, q3==0:%s, few buckets:%s (%s)" % ((small, half, quarter, cons, pure), vname, Z, H, ex)
                except evalx.Unknown as ex:
                    return None, "cannot evaluate finalize_with_options: %s" % ex
                ret = n(p.ret, keep_casts=True)
                if ret[0] == "agg" and ret[1].endswith("Result::Err") and ret[2] and ret[2][0][0] == "agg":
                    res = ("Err", ret[2][0][1].rsplit("::", 1)[-1])
                elif ret[0] == "agg" and ret[1].endswith("Result::Ok"):
                    res = ("Ok", ret[2][0])
                else:
                    try:
                        rv = evalx.ev(S, F, p.ret, asg)
                    except (evalx.Unknown, evalx.Panics) as ex:
                        return None, "cannot evaluate the value finalize returns: %s" % ex
                    if isinstance(rv, tuple) and rv[:1] == ("Err",) and isinstance(rv[1], tuple) and rv[1][:1] == ("adt",):
                        res = ("Err", rv[1][1].rsplit("::", 1)[-1])
                    elif isinstance(rv, tuple) and rv[:1] == ("Ok",):
                        res = ("Ok", rv[1])
                    else:
                        return None, "finalize returns %r" % (rv,)
                rows.append(({"small": small, "half": half, "quarter": quarter, "cons": cons, "pure": pure},
                             {"validity": vname, "Z": Z, "H": H, "gate": G}, res))
                M.row_paths.append(p)
    M._evaluated = (rows, None)
    return rows, None


def finalize_table(F, M):
    """Evaluate the finalize path model on every combination of option values and data outcomes.
    Returns (rows, error); a row is (opts dict, data dict, result)."""
    import itertools
    rows_, err_ = finalize_table_evaluated(F, M)
    if rows_ is not None:
        return rows_, None
    setters = option_setters(F)
    if not setters:
        return None, "option setters not recognised"
    need = {"allow_small_size_files", "allow_statistically_weak_buckets_half", "allow_statistically_weak_buckets_quarter", "pure_integer_qratio_computation"}
    if not need <= set(setters):
        return None, "option setters missing: %s" % sorted(need - set(setters))
    tab, err = enum_decision(F, "length::DataLengthValidity::is_err_on", {1: "length::DataLengthValidity", 2: "length::DataLengthProcessingMode"})
    if tab is None:
        return None, err
    validity = enum_variants(F, "length::DataLengthValidity")
    rows = []
    rets = [p for p in M.paths if p["end"] == "return"]
    for small, half, quarter, cons, pure in itertools.product((0, 1), repeat=5):
        flags = {}
        for nm, on in (("allow_small_size_files", small), ("allow_statistically_weak_buckets_half", half),
                       ("allow_statistically_weak_buckets_quarter", quarter), ("pure_integer_qratio_computation", pure)):
            f, mask = setters[nm]
            flags[f] = flags.get(f, 0) | (mask if on else 0)
        mode = "Conservative" if cons else "Optimistic"
        for vname in validity:
            gate = tab[(vname, mode)]
            if gate[0] != "return" or gate[1][0] != "const":
                return None, "is_err_on(%s,%s) is %s" % (vname, mode, gate)
            G = bool(gate[1][1])
            for Z, H in itertools.product((False, True), repeat=2):
                hit = []
                for p in rets:
                    ok = True
                    for e in p["events"]:
                        if e[0] == "len_gate":
                            ok = e[1] == G
                        elif e[0] == "validity":
                            if e[1].startswith("not:"):
                                ok = vname not in e[1][4:].split(",")
                            else:
                                ok = e[1] == vname
                        elif e[0] == "flag":
                            f, kind, mask = e[1]
                            cur = flags.get(f, 0)
                            val = (cur & mask) == mask if kind == "contains" else (cur & mask) != 0
                            ok = e[2] == val
                        elif e[0] == "zero_test":
                            ok = e[1] == Z
                        elif e[0] == "lt_const":
                            ok = e[1] == H
                        else:
                            return None, "unknown event in finalize path"
                        if not ok:
                            break
                    if ok:
                        hit.append(p)
                if len(hit) != 1:
                    return None, "assignment matches %d finalize paths" % len(hit)
                rows.append(({"small": small, "half": half, "quarter": quarter, "cons": cons, "pure": pure},
                             {"validity": vname, "Z": Z, "H": H, "gate": G}, hit[0]["res"]))
    return rows, None


def wrapper_forwards(F, body, inner_path, nargs):
    """None if the outer wrapper `body` hands its first `nargs` parameters unchanged to the inner call `inner_path` and returns
    Ok(outer hash built around exactly the inner result) / the inner error unchanged -- decided by abstract evaluation with the inner
    call's outcome opaque (any spelling: .map(Self::new), `?` + Ok(Self::new(..)), match); else a description."""
    from .. import evalx
    S = sym.Sym(body)
    try:
        paths = S.paths()
    except sym.PathLimit:
        return "too many paths"
    evalx.set_target(F)
    for outcome in (("Ok", ("obj", "inner hash")), ("Err", ("obj", "inner error"))):
        seen = []

        def inner(*a):
            seen.append(a)
            return outcome
        asg = {"symbolic": True, "params": {i + 1: ("obj", "arg%d" % (i + 1)) for i in range(max(nargs, 3))}, "calls": {inner_path: inner}}
        try:
            got = evalx.run(S, F, paths, asg)
        except evalx.Panics as ex:
            return "panics (%s)" % ex
        except evalx.Unknown as ex:
            return "cannot evaluate: %s" % ex
        if not seen or any(a[:nargs] != tuple(("obj", "arg%d" % (i + 1)) for i in range(nargs)) for a in seen):
            return "the inner call receives %s; reference the wrapper's own parameters" % (seen[:1],)
        if outcome[0] == "Err":
            if got != outcome:
                return "inner error is returned as %r" % (got,)
        else:
            okv = got[1] if isinstance(got, tuple) and got[:1] == ("Ok",) else None
            if not (isinstance(okv, tuple) and okv[:1] == ("adt",) and okv[1].startswith("hash::FuzzyHash") and okv[2:] == (outcome[1],)):
                return "inner Ok(h) is returned as %r; reference Ok(outer hash holding h)" % (got,)
    return None
