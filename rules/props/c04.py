"""C04 -- hex text form round-trips and is canonical."""
from .. import sym
from ..norm import n, P, C, V, ANY, match, find_all, binop
from . import layout, common, hexcodec, cmpmodel

ID = "C04"
CONFIGS = {"quick": ["K0", "K1", "K3", "K4", "K6"], "thorough": ["K0", "K1", "K2", "K3", "K4", "K5", "K6", "K13"]}
META = {
    "explanation": (
        "Static analysis (constant evaluator + MIR paths).  The encode and decode tables are compared by value with the "
        "reference alphabet over all 256 entries (upper-case digits only on the encode side, 0-9A-Fa-f on the decode "
        "side) and the per-configuration combination shapes of the 1-byte codecs are matched, which together make the "
        "reversed and plain 2-digit codecs mutual inverses by table algebra.  Writer and reader field layouts are reduced "
        "to constant windows and compared with each other and with the reference layout for the five variants and both "
        "prefix modes (they tile [0,LEN) exactly; header fields use the reversed codec, the body the plain one; array "
        "codecs iterate source and destination in the same direction).  Display/FromStr/from_str_with entry points are "
        "shown to be those two functions."
        "  The text serializer and parser themselves are decided by abstract evaluation (wmodel / rmodel, DESIGN 9.5): writes replayed for every buffer length of a dense range, parser outcomes for all combinations of abstract decoder results; the idiom-based window rules described above are the fallback when a function cannot be evaluated completely."
    ),
    "trusted_base": ["rustc nightly front end and constant evaluator", "hex_simd::{encode(.., Upper), decode} are each other's inverse on hex digits (external)"],
    "assumptions": [],
    "not_decided": ["hex-simd internals"],
}
TECHNIQUE = 'abstract evaluation of the text serializer and parser (views of an opaque buffer, every buffer/input length of a dense range, all outcome combinations of the part decoders), exhaustive evaluation of the hex codecs over all byte values / byte classes, table inverse rules'


def run(ctx, FS):
    for key, F in FS.items():
        r = "R-04.1"
        ctx.rule(r, "hex encode tables are upper-case digit pairs, decode tables accept exactly 0-9A-Fa-f with their values (all 256 entries)")
        hexcodec.table_rules(ctx, r, F)
        r = "R-04.2"
        ctx.rule(r, "1-byte codec combination shapes per configuration (which source char feeds which nibble / which table)", "N")
        hexcodec.decoders(ctx, r, F)
        hexcodec.encoders(ctx, r, F)
        r = "R-04.3"
        ctx.rule(r, "text writer and reader use the same constant field windows and mirror codecs; windows tile [0,LEN)")
        text_layout(ctx, r, F)
        r = "R-04.4"
        ctx.rule(r, "Display = store_into_str_bytes(WithVersion) into [u8; LEN_IN_STR]; FromStr/from_str_with = from_str_bytes(bytes, None|p)")
        entry_points(ctx, r, F)


def ref_text_layout(env, prefix):
    o = 2 if prefix == "WithVersion" else 0
    ck, body = env["SIZE_CKSUM"], env["SIZE_BODY"]
    lay = {"checksum": (o, o + 2 * ck), "lvalue": (o + 2 * ck, o + 2 * ck + 2), "qratios": (o + 2 * ck + 2, o + 2 * ck + 4),
           "body": (o + 2 * ck + 4, o + 2 * ck + 4 + 2 * body)}
    return lay


def text_layout(ctx, r, F):
    envs = layout.variant_envs(F)
    W, err = layout.text_writer(F)
    RM = layout.text_reader_evaluated(F)
    R, err2 = layout.text_reader(F) if RM is None else ({"paths": []}, None)
    if envs is None or W is None or R is None:
        ctx.missing(r, err or err2 or "variant constants", cfg=F.key)
        return
    simd_w = "opt-simd-convert-hex" in F.features
    simd_r = "opt-simd-parse-hex" in F.features
    # ---- writer
    for mode in ("Empty", "WithVersion"):
        rec0 = W["modes"].get(mode)
        ctx.instance(r)
        if rec0 is None:
            ctx.missing(r, "writer path for prefix %s" % mode, cfg=F.key)
            continue
        bad = []
        kinds = {"checksum": ("rev_array",), "lvalue": ("rev_1",), "qratios": ("rev_1",), "body": ("hex_simd:Upper",) if simd_w else ("plain_array",)}
        for rec, (name, env) in [(r_, ne) for r_ in [rec0] + rec0.get("alts", []) for ne in envs]:
            ref = ref_text_layout(env, mode)
            seen = {}
            lit = {}
            for (s, e, kind, src, ln) in rec["writes"]:
                s0 = layout.ceval(s, env)
                if kind.startswith("literal"):
                    # literal bytes, however written: copy_from_slice(b"T1") or element stores of b'T', b'1'
                    hexs = kind.split(":", 1)[1] or ""
                    for j in range(0, len(hexs), 2):
                        if s0 is None or (s0 + j // 2) in lit:
                            bad.append("%s: literal write %s at %s" % (name, kind, s0))
                        else:
                            lit[s0 + j // 2] = int(hexs[j:j + 2], 16)
                    continue
                if src is None or src in seen:
                    bad.append("%s: write of %s (%s) at %s" % (name, src, kind, s0))
                    continue
                seen[src] = (s0, kind)
            want_lit = {0: 0x54, 1: 0x31} if mode == "WithVersion" else {}
            if lit != want_lit:
                bad.append("%s: literal bytes written %s; reference %s" % (name, {k: hex(v) for k, v in sorted(lit.items())}, {k: hex(v) for k, v in want_lit.items()} or "none"))
            for fld, (a, b2) in ref.items():
                g = seen.get(fld)
                if g is None or g[0] != a or g[1] not in kinds[fld]:
                    bad.append("%s: field %s written at %s with %s; reference offset %d with %s" % (name, fld, g and g[0], g and g[1], a, kinds[fld][0]))
        # the writer accepts a buffer of exactly the advertised length of this prefix mode (else format-then-parse cannot round-trip)
        from . import c14 as _c14
        Kmode = ("cpath", "hash::public::FuzzyHashType::" + ("LEN_IN_STR" if mode == "WithVersion" else "LEN_IN_STR_EXCEPT_PREFIX"))
        for rec in [rec0] + rec0.get("alts", []):
            if not _c14._gate_ok(rec.get("gate"), Kmode, False, envs):
                bad.append("the size gate of prefix mode %s is %s; reference out.len() < %s" % (mode, rec.get("gate"), Kmode[1].rsplit("::", 1)[-1]))
        ctx.ob(r, ("store_into_str_bytes/" + mode, "field-windows"), not bad, "; ".join(bad[:3]), cfg=F.key, where=W["body"].where())
    # ---- reader
    if RM is not None:
        # decided by abstract evaluation of the parser (rmodel): every part decoder is handed its reference window, the Ok value holds each
        # decoder's result in its own field, the prefix comparison is bytes 0..2 against "T1", for all variants / prefix modes
        ctx.instance(r, RM["evaluations"])
        ctx.ob(r, ("from_str_bytes", "field-windows"), not RM["bad"], "; ".join(RM["bad"][:3]), cfg=F.key, where=RM["body"].where(),
               detail={"evaluations": RM["evaluations"], "engine": "evaluation"})
        part_decoders(ctx, r, F, simd_r)
        return
    ok_paths = [p for p in R["paths"] if p["ret"][0] == "agg" and p["ret"][1].endswith("Result::Ok")]
    ctx.instance(r, len(ok_paths))
    hf = common.hash_fields(F)
    bad = []
    modes_seen = set()
    for rec in ok_paths:
        p = rec["p"]
        # which prefix mode does this Ok path implement: from its length test constant
        ks = [k for (op, k, truth, bb) in rec["len_tests"] if (op == "Ne" and truth is False) or (op == "Eq" and truth is True)]
        if not ks:
            bad.append("Ok path without a successful length test")
            continue
        K = ks[-1]
        mode = {"LEN_IN_STR": "WithVersion", "LEN_IN_STR_EXCEPT_PREFIX": "Empty"}.get(K[1].rsplit("::", 1)[-1] if K[0] == "cpath" else None)
        modes_seen.add((rec["requested"], mode))
        if mode is None:
            bad.append("Ok path gated on %s" % sym.fmt(K))
            continue
        reads = {}
        for ev in rec["events"]:
            if ev[0] == "decode" and ev[2] == "Continue":
                w = layout.window(ev[3][2][0], P(1))
                reads[ev[1]] = w
        for name, env in envs:
            ref = ref_text_layout(env, mode)
            total = layout.ceval(K, env)
            for fld, (a, b2) in ref.items():
                w = reads.get(fld)
                if w is None:
                    bad.append("%s/%s: field %s is not decoded" % (name, mode, fld))
                    continue
                s0 = layout.ceval(w[0], env)
                e0 = layout.ceval(w[1], env) if w[1] is not None else total
                if (s0, e0) != (a, b2):
                    bad.append("%s/%s: field %s read from [%s,%s); reference [%d,%d)" % (name, mode, fld, s0, e0, a, b2))
            if ref["body"][1] != total:
                bad.append("%s/%s: layout ends at %d but gate is %d" % (name, mode, ref["body"][1], total))
        # Ok value: each field from its own decoder
        okv = rec["ret"][2][0]
        if okv[0] == "agg" and len(okv[2]) == 4 and hf:
            for fld, fi in hf.items():
                src_ = okv[2][fi]
                calls = find_all(src_, lambda x: x[0] == "call" and x[1] in layout.DECODERS)
                if len(calls) != 1 or layout.DECODERS[calls[0][1]] != fld:
                    bad.append("Ok value field %s comes from %s" % (fld, [c[1] for c in calls]))
        else:
            bad.append("Ok value is %s" % sym.fmt(okv)[:80])
        # prefix test on WithVersion paths
        if mode == "WithVersion":
            pt = rec["prefix_test"]
            okp = False
            if pt:
                e = pt[0]
                lits = find_all(e, lambda x: x[0] == "bytes")
                # any spelling of the first two input bytes: bytes[0..2], bytes[..2], bytes.split_at(2).0
                cands = find_all(e, lambda x: (x[0] == "call" and x[1].endswith("::index")) or (x[0] == "field" and x[1][0] == "call" and x[1][1].endswith("::split_at")))
                wins = [layout.window(x, P(1)) for x in cands]
                okp = [l[1] for l in lits] == ["5431"] and (C(0), C(2)) in wins
            if not okp:
                bad.append("prefix comparison is not bytes[0..2] vs b\"T1\"")
    want_modes = {("None", "Empty"), ("None", "WithVersion"), ("Some(Empty)", "Empty"), ("Some(WithVersion)", "WithVersion")}
    if modes_seen != want_modes:
        bad.append("Ok paths cover (requested, detected) = %s; reference %s" % (sorted(map(str, modes_seen)), sorted(map(str, want_modes))))
    ctx.ob(r, ("from_str_bytes", "field-windows"), not bad, "; ".join(sorted(set(bad))[:3]), cfg=F.key, where=R["body"].where())
    part_decoders(ctx, r, F, simd_r)


def _part_parser_table(F, b, from_raw):
    from .. import evalx
    evalx.set_target(F)
    S = sym.Sym(b)
    paths = S.paths()
    INVC = ("adt", "errors::ParseError::InvalidCharacter")
    LENE = ("adt", "errors::ParseError::InvalidStringLength")
    for ln in (0, 1, 2, 3):
        for dec in (("Some", "V"), ("None",)):
            asg = {"symbolic": True, "no_inline": True, "params": {1: "BYTES"}, "calls": {"core::slice::<impl [T]>::len": lambda s_: ln, "parse::hex_str::decode_rev_1": lambda s_: dec}}
            try:
                got = evalx.run(S, F, paths, asg)
            except (evalx.Unknown, evalx.Panics) as ex:
                return "cannot evaluate: %s" % ex
            if ln != 2:
                want = [("Err", LENE)]
            elif dec[0] == "Some":
                want = [("Ok", ("app", from_raw, "V")), ("Ok", ("adt", from_raw.rsplit("::", 1)[0] + "::" + from_raw.rsplit("::", 2)[-2], "V"))]
            else:
                want = [("Err", INVC)]
            if got not in want:
                return "with a %d-byte input and decode_rev_1 = %s the result is %s; reference %s" % (ln, dec, got, want[0])
    return None


def part_decoders(ctx, r, F, simd_r):
    INV = ("agg", "adt:core::result::Result::Err", (("agg", "adt:errors::ParseError::InvalidCharacter", ()),))
    LENERR = ("agg", "adt:core::result::Result::Err", (("agg", "adt:errors::ParseError::InvalidStringLength", ()),))
    LEN = ("call", "core::slice::<impl [T]>::len", (P(1),))
    for path, from_raw in (("length::FuzzyHashLengthEncoding::from_str_bytes", "length::FuzzyHashLengthEncoding::from_raw"),
                           ("hash::qratios::FuzzyHashQRatios::from_str_bytes", "hash::qratios::FuzzyHashQRatios::from_raw")):
        b = F.fn(path)
        ctx.instance(r)
        if b is None:
            ctx.missing(r, path, cfg=F.key)
            continue
        gate = binop("Ne", LEN, C(2))
        dec = ("call", "core::result::Result::<T, E>::map", (("call", "core::option::Option::<T>::ok_or",
               (("call", "parse::hex_str::decode_rev_1", (P(1),)), ("agg", "adt:errors::ParseError::InvalidCharacter", ()))), ("fn", from_raw)))
        want = sorted(map(repr, [([(gate, True)], LENERR), ([(gate, False)], dec)]))
        got = sorted(map(repr, cmpmodel.decision(b)))
        if got != want:
            # any other spelling (match, early returns, `?`): decide the function on its abstract domain
            # (length == 2 or not) x (decode_rev_1 gives Some(v) or None)
            why = _part_parser_table(F, b, from_raw)
            if why is None:
                got = want
            else:
                got = [why]
        ctx.ob(r, (path.rsplit("::", 2)[-2] + "::from_str_bytes", "reversed-1-byte"), got == want,
               "%s is not `len != 2 -> length error; decode_rev_1(bytes).ok_or(InvalidCharacter).map(from_raw)`" % path, cfg=F.key, where=b.where())
    for path, size, arr in (("hash::checksum::FuzzyHashChecksumData::<SIZE_CKSUM, SIZE_BUCKETS>::from_str_bytes", "SIZE_CKSUM", "parse::hex_str::decode_rev_array"),
                            ("hash::body::FuzzyHashBodyData::<SIZE_BODY>::from_str_bytes", "SIZE_BODY", "parse::hex_str::decode_array")):
        b = F.fn(path)
        ctx.instance(r)
        if b is None:
            ctx.missing(r, path, cfg=F.key)
            continue
        S = sym.Sym(b)
        rets = [p for p in S.paths() if p.end == "return"]
        gate = binop("Ne", LEN, binop("Mul", ("cparam", size), C(2)))
        ok = len(rets) == 3
        desc = []
        why = _array_decoder_semantics(F, b, size, arr, "body" in path and simd_r)
        if why is None or not why.startswith("cannot evaluate"):
            # decided by abstract evaluation (any spelling): input length {2N, 2N-1, 2N+1, 0, 4N} x decoder outcome
            ctx.ob(r, (path.split("::<")[0].rsplit("::", 1)[-1] + "::from_str_bytes", "array-decoder"), why is None,
                   "%s: %s; reference `len != 2*N -> length error; %s(whole input) -> Ok(decoded data) else InvalidCharacter`" % (path, why, "hex_simd::decode" if ("body" in path and simd_r) else arr),
                   cfg=F.key, where=b.where(), detail={"engine": "evaluation"})
            continue
        for p in rets:
            cs = [(n(d), (taken == "otherwise") if vals == [0] else bool(taken)) for (_, d, taken, vals) in p.conds]
            ret = n(p.ret)
            if cs == [(gate, True)]:
                ok = ok and ret == LENERR
                continue
            if not cs or cs[0] != (gate, False) or len(cs) != 2:
                ok = False
                desc.append("conds %s" % [(sym.fmt(c), t) for c, t in cs])
                continue
            test, truth = cs[1]
            if "body" in path and simd_r:
                inner = test[2][0] if test[0] == "call" and test[2] else None
                if inner is not None and inner[0] == "ref":
                    inner = inner[1]
                good = test[0] == "call" and test[1].endswith("Result::<T, E>::is_ok") and inner is not None and inner[0] == "call" and inner[1] == "hex_simd::decode" and inner[2][0] == P(1)
            else:
                good = test[0] == "call" and test[1] == arr and test[2][1] == P(1)
            if not good:
                ok = False
                desc.append("decoder %s" % sym.fmt(test))
            if truth:
                ok = ok and ret[0] == "agg" and ret[1].endswith("Result::Ok")
            else:
                ok = ok and ret == INV
        ctx.ob(r, (path.split("::<")[0].rsplit("::", 1)[-1] + "::from_str_bytes", "array-decoder"), ok,
               "%s is not `len != 2*N -> length error; %s -> Ok(data) else InvalidCharacter` (%s)" % (path, "hex_simd::decode" if ("body" in path and simd_r) else arr, desc[:2]),
               cfg=F.key, where=b.where())


def _array_decoder_semantics(F, b, size, arr, simd):
    from .. import evalx
    from .wmodel import View, _handlers
    S = sym.Sym(b)
    try:
        paths = S.paths()
    except sym.PathLimit:
        return "cannot evaluate: too many paths"
    if any(p.end == "loop" for p in paths):
        return "cannot evaluate: loop"
    evalx.set_target(F)
    for N in ((1, 3) if size == "SIZE_CKSUM" else (12, 32, 64)):
        need = 2 * N
        for L in (need, need - 1, need + 1, 0, 2 * need):
            for outcome in (True, False):
                seen = []
                calls = dict(_handlers(L))

                def dec(S_, bb_, vals, seen=seen, outcome=outcome):
                    views = [v for v in vals if isinstance(v, View)]
                    raws = [v for v in vals if isinstance(v, tuple) and v[:1] == ("raw",)]
                    seen.append((tuple((v.lo, v.hi) for v in views), len(raws)))
                    if simd:
                        return ("Ok", ("obj", "n")) if outcome else ("Err", ("obj", "hex error"))
                    return int(outcome)
                calls["::from_slice"] = lambda v: v
                calls["::as_mut_slice"] = lambda v: v
                asg = {"symbolic": True, "params": {1: View("in", 0, L)}, "cparams": {size: N}, "calls": calls,
                       "xcalls": {("hex_simd::decode" if simd else arr): dec}}
                try:
                    p = evalx.select(S, F, paths, asg)
                except evalx.Panics as ex:
                    return "an input of %d bytes (N=%d) panics (%s)" % (L, N, ex)
                except evalx.Unknown as ex:
                    return "cannot evaluate: %s" % ex
                ret = n(p.ret)
                kind = None
                payload = p.ret
                try:
                    rv = evalx.ev(S, F, p.ret, asg)
                except (evalx.Unknown, evalx.Panics):
                    rv = None
                if isinstance(rv, tuple) and rv[:1] == ("Ok",):
                    kind, payload = "Ok", rv[1]
                elif isinstance(rv, tuple) and rv[:1] == ("Err",) and isinstance(rv[1], tuple) and rv[1][:1] == ("adt",):
                    kind = rv[1][1].rsplit("::", 1)[-1]
                elif ret[0] == "agg" and ret[1].endswith("Result::Ok"):
                    kind = "Ok"
                elif ret[0] == "agg" and ret[1].endswith("Result::Err") and ret[2] and ret[2][0][0] == "agg":
                    kind = ret[2][0][1].rsplit("::", 1)[-1]
                want = "InvalidStringLength" if L != need else ("Ok" if outcome else "InvalidCharacter")
                if kind != want:
                    return "an input of %d bytes (N=%d), digits %s: returns %s; reference %s" % (L, N, "valid" if outcome else "invalid", kind or sym.fmt(ret)[:60], want)
                if L == need:
                    if not seen or any(s_[0] != ((0, L),) for s_ in seen):
                        return "the decoder is applied to %s of the input; reference the whole input" % ([s_[0] for s_ in seen][:1],)
                    if outcome:
                        # the decoder fills a local buffer (opaque to the evaluation) and the Ok value is built from such a buffer, not from a constant
                        if any(s_[1] != 1 for s_ in seen) or not find_all(payload, lambda y: isinstance(y, tuple) and len(y) == 2 and y[0] == "raw"):
                            return "the Ok value is not built from the buffer the decoder filled"
    return None


def entry_points(ctx, r, F):
    bs = F.method("fmt", "hash::inner::FuzzyHash<", trait="core::fmt::Display")
    ctx.instance(r)
    if len(bs) != 1:
        ctx.missing(r, "Display for inner FuzzyHash", cfg=F.key)
    else:
        b = bs[0]
        S = sym.Sym(b)
        rets = [p for p in S.paths() if p.end == "return"]
        ok = len(rets) >= 1
        for p in rets:
            st = [c for c in p.calls if c[1].endswith("::store_into_str_bytes")]
            if len(st) != 1:
                ok = False
                continue
            a = [n(x) for x in st[0][2]]
            okm = a[0] in (P(1), ("deref", P(1))) and a[2] == ("agg", "adt:hash::HexStringPrefix::WithVersion", ())
            # buffer: local array [0u8; SIZE_IN_STR_BYTES]
            buf = a[1]
            okb = False
            lv = find_all(buf, lambda x: x[0] == "lv")
            if lv:
                t = b.local_ty(lv[0][1])
                okb = t["s"] == "[u8; SIZE_IN_STR_BYTES]"
            ws = [c for c in p.calls if c[1].endswith("Formatter::<'a>::write_str") or c[1].endswith("::write_str")]
            ok = ok and okm and okb and len(ws) == 1
        ctx.ob(r, ("Display::fmt", "store-then-write_str"), ok, "Display::fmt is not store_into_str_bytes(&mut [0u8; SIZE_IN_STR_BYTES], WithVersion) followed by one write_str", cfg=F.key, where=b.where())
    for ob in F.method("fmt", "hash::FuzzyHash<", trait="core::fmt::Display"):
        ps = cmpmodel.ret_paths(ob)
        e = n(ps[0].ret) if len(ps) == 1 else None
        ctx.instance(r)
        ctx.ob(r, ("hash::FuzzyHash::fmt", "forwards"), e == ("call", "core::fmt::Display::fmt", (("ref", ("field", ("deref", P(1)), 0)), P(2))),
               "outer Display::fmt is %s" % (sym.fmt(e) if e else e), cfg=F.key, where=ob.where())
    fw = F.fn("hash::public::FuzzyHashType::from_str_with")
    ctx.instance(r)
    if fw is None:
        ctx.missing(r, "from_str_with", cfg=F.key)
    else:
        ps = cmpmodel.ret_paths(fw)
        e = n(ps[0].ret) if len(ps) == 1 else None
        ctx.ob(r, ("from_str_with", "as-bytes"), e == ("call", "hash::public::FuzzyHashType::from_str_bytes", (("call", "core::str::<impl str>::as_bytes", (P(1),)), P(2))),
               "from_str_with is %s" % (sym.fmt(e) if e else e), cfg=F.key, where=fw.where())
    ib = F.method("from_str", "hash::inner::FuzzyHash<")
    ctx.instance(r)
    if len(ib) != 1:
        ctx.missing(r, "FromStr for inner FuzzyHash", cfg=F.key)
    else:
        ps = cmpmodel.ret_paths(ib[0])
        e = n(ps[0].ret) if len(ps) == 1 else None
        ctx.ob(r, ("inner from_str", "auto-detect"), e == ("call", "hash::public::FuzzyHashType::from_str_with", (P(1), ("agg", "adt:core::option::Option::None", ()))),
               "inner from_str is %s" % (sym.fmt(e) if e else e), cfg=F.key, where=ib[0].where())
