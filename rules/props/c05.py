"""C05 -- the hex parser accepts exactly the well-formed strings and never panics."""
from .. import sym
from ..norm import n, P, C, V, ANY, match, find_all, binop
from . import layout, common, hexcodec, cmpmodel, c04, panics

ID = "C05"
CONFIGS = {"quick": ["K0", "K1", "K3", "K4", "K9"], "thorough": ["K0", "K1", "K3", "K4", "K5", "K9", "K13"]}
FIXTURES = {"panic"}
META = {
    "explanation": (
        "Static analysis (constant evaluator + MIR paths).  Accepted alphabet: the decode tables / digit decoder accept "
        "exactly 0-9A-Fa-f with the denoted values over all 256 byte values and the 1-byte combination shapes are the "
        "reference ones.  Gate order and error kinds: on every path of from_str_bytes a length test against "
        "LEN_IN_STR / LEN_IN_STR_EXCEPT_PREFIX (by value LEN, LEN-2) comes first and its failure is the only source of "
        "the length error at this level; auto-detection selects Empty/WithVersion by exactly those two lengths; the "
        "prefix comparison is bytes[0..2] against the constant \"T1\" and precedes all field decoding; the field "
        "decoders are handed windows of exactly the length they require (so their own length errors are unreachable) and "
        "their character errors are propagated unchanged.  Every text entry point (FromStr, from_str_with) hands the caller's "
        "bytes unchanged to from_str_bytes (R-05.4: no trimming or pre-filtering).  No panic: every slicing/indexing operation, Assert terminator "
        "and panicking call reachable from the parser is enumerated and discharged by a named idiom (window inside the "
        "gated length, constant index below a gated length, u8 index into a 256-entry table, constant arithmetic)."
        "  from_str_bytes itself is decided by abstract evaluation (rmodel, DESIGN 9.5): the length gate on a dense range of lengths, acceptance and error applicability for all combinations of abstract outcomes, decoder windows; the path-shape rules above are the fallback."
    ),
    "trusted_base": ["rustc nightly front end and constant evaluator", "hex_simd::decode accepts exactly hex digits of either case and does not panic (external)",
                     "core slice iterators (chunks_exact, zip, iter_mut) do not panic for a non-zero chunk size"],
    "assumptions": [],
    "not_decided": ["hex_simd::decode's own alphabet"],
}
TECHNIQUE = 'abstract evaluation of from_str_bytes on opaque inputs (dense length range x all outcome combinations), decoder evaluation on byte classes, entry-point forwarding rules, panic-site idiom discharge'
PE = lambda v: ("agg", "adt:core::result::Result::Err", (("agg", "adt:errors::ParseError::" + v, ()),))


def run(ctx, FS):
    for key, F in FS.items():
        r = "R-05.1"
        ctx.rule(r, "accepted alphabet: decode tables/decoder accept exactly 0-9A-Fa-f with their values; 1-byte combination shapes")
        hexcodec.table_rules(ctx, r, F)
        hexcodec.decoders(ctx, r, F)
        r = "R-05.2"
        ctx.rule(r, "gate order and error kinds of from_str_bytes: length first, then prefix, then field decoders with exact windows; errors propagated unchanged")
        gates(ctx, r, F)
        c04.text_layout(ctx, r, F)
        r = "R-05.4"
        ctx.rule(r, "every text entry point hands the caller's bytes unchanged to from_str_bytes: FromStr/from_str_with = from_str_bytes(s.as_bytes(), None|p) (no trimming, case folding or pre-filtering that would change what is accepted or which error is reported)")
        c04.entry_points(ctx, r, F)
        r = "R-05.3"
        ctx.rule(r, "every panicking operation reachable from the text parser is discharged by a named idiom")
        roots = [b.path for b in F.method("from_str_bytes", "hash::inner::FuzzyHash<")] + [b.path for b in F.method("from_str_bytes", "hash::FuzzyHash<")] + \
                [b.path for b in F.method("from_str", "hash::inner::FuzzyHash<")] + [b.path for b in F.method("from_str", "hash::FuzzyHash<")] + ["hash::public::FuzzyHashType::from_str_with"]
        panics.check(ctx, r, F, roots, floor=12)


def gates(ctx, r, F):
    envs = layout.variant_envs(F)
    RM = layout.text_reader_evaluated(F)
    if RM is not None and envs is not None:
        # decided by abstract evaluation of the parser (rmodel): length gate on a dense range of lengths, every combination of
        # prefix / decoder / validity outcomes at the right lengths, decoder windows
        ctx.instance(r, RM["evaluations"])
        msg = "; ".join(RM["bad"][:3])
        ctx.ob(r, ("from_str_bytes", "gate-order-and-error-kinds"), not RM["bad"], msg, cfg=F.key, where=RM["body"].where(), detail={"evaluations": RM["evaluations"], "engine": "evaluation"})
        vals = {nm: (env["assoc:LEN_IN_STR"], env["assoc:LEN_IN_STR_EXCEPT_PREFIX"]) for nm, env in envs}
        ctx.ob(r, ("LEN_IN_STR", "values"), all(a - 2 == e for a, e in vals.values()) and {v[0] for v in vals.values()} == {32, 72, 76, 136, 140},
               "(LEN_IN_STR, LEN_IN_STR_EXCEPT_PREFIX) per variant %s; reference 32/72/76/136/140 and LEN-2" % vals, cfg=F.key)
        ctx.ob(r, ("from_str_bytes", "decoder-window-lengths"), not [x for x in RM["bad"] if "decoder" in x or "panics" in x], msg, cfg=F.key, where=RM["body"].where())
        return
    R, err = layout.text_reader(F)
    ctx.instance(r)
    if R is None or envs is None:
        ctx.missing(r, err or "variant constants", cfg=F.key)
        return
    b = R["body"]
    strict = "strict-parser" in F.features
    bad = []
    KE = ("cpath", "hash::public::FuzzyHashType::LEN_IN_STR_EXCEPT_PREFIX")
    KW = ("cpath", "hash::public::FuzzyHashType::LEN_IN_STR")
    kinds = set()
    for rec in R["paths"]:
        ret = rec["ret"]
        lt = rec["len_tests"]
        req = rec["requested"]
        # ---- length gate, decided on the abstract length domain {LEN_IN_STR_EXCEPT_PREFIX, LEN_IN_STR, any other length}:
        # the path's own (in)equality tests against the two constants select the classes it can be taken for
        if req not in ("None", "Some(Empty)", "Some(WithVersion)"):
            bad.append("unrecognised prefix request %s" % req)
            continue
        if any(t[1] not in (KE, KW) for t in lt):
            bad.append("length compared with %s" % [sym.fmt(t[1]) for t in lt if t[1] not in (KE, KW)][:2])
            continue
        classes = []
        for cls in ("E", "W", "other"):
            ok_cls = True
            for (op_, k_, truth_, _bb) in lt:
                equal = (cls == "E" and k_ == KE) or (cls == "W" and k_ == KW)
                holds = equal if op_ == "Eq" else (not equal)
                if holds != truth_:
                    ok_cls = False
            if ok_cls:
                classes.append(cls)
        if not classes:
            continue  # contradictory tests: infeasible path
        requested_mode = {"Some(Empty)": "Empty", "Some(WithVersion)": "WithVersion"}.get(req)
        good_for = lambda cls: (cls != "other") if requested_mode is None else (cls == ("E" if requested_mode == "Empty" else "W"))
        early_len_error = ret == PE("InvalidStringLength") and not rec["events"] and not rec["prefix_test"]
        if early_len_error:
            if any(good_for(c) for c in classes):
                bad.append("a well-sized input (%s, request %s) is rejected with InvalidStringLength" % (classes, req))
            kinds.add("InvalidStringLength")
            continue
        if not all(good_for(c) for c in classes) or len(classes) != 1:
            bad.append("a path that goes on to decode is taken for lengths %s with request %s (length tests %s)" % (
                classes, req, [(t[0], sym.fmt(t[1]), t[2]) for t in lt]))
            continue
        mode = "Empty" if classes[0] == "E" else "WithVersion"
        if rec["mode"] not in (None, mode):
            bad.append("mode %s decided for length class %s" % (rec["mode"], classes[0]))
            continue
        # ---- prefix
        pt = rec["prefix_test"]
        if mode == "WithVersion":
            if pt is None:
                bad.append("WithVersion path without prefix comparison")
                continue
            mismatch = pt[1] if pt[0][1].endswith("::ne") else (not pt[1])
            if mismatch:
                if ret != PE("InvalidPrefix") or rec["events"]:
                    bad.append("prefix mismatch returns %s" % sym.fmt(ret)[:60])
                kinds.add("InvalidPrefix")
                continue
        elif pt is not None:
            bad.append("Empty mode compares a prefix")
        # ---- decoders in order, strict gates
        order = []
        last = None
        for ev in rec["events"]:
            if ev[0] == "decode":
                order.append(ev[1])
                last = ev
            elif ev[0] == "is_valid":
                if not strict:
                    bad.append("validity gate in a lenient configuration")
            else:
                bad.append("unrecognised condition %s" % str(ev[1])[:80])
        if order != ["checksum", "lvalue", "qratios", "body"][: len(order)]:
            bad.append("decoders run in order %s" % order)
        if ret[0] == "agg" and ret[1].endswith("Result::Ok"):
            kinds.add("Ok")
            if order != ["checksum", "lvalue", "qratios", "body"]:
                bad.append("Ok path decodes %s" % order)
        elif ret[0] == "call" and ret[1].endswith("from_residual"):
            # propagated error of the decoder that just failed
            kinds.add("propagated")
            if last is None or last[2] != "Break":
                bad.append("from_residual without a failed decoder")
            else:
                want = ("field", ("variant", ("call", "<core::result::Result<T, E> as core::ops::Try>::branch", (last[3],)), "Break"), 0)
                if ret[2][0] != want:
                    bad.append("propagated error is not the failed decoder's")
        elif ret in (PE("InvalidChecksum"), PE("LengthIsTooLarge")) and strict:
            kinds.add("strict")
        else:
            bad.append("path returns %s" % sym.fmt(ret)[:80])
    want_kinds = {"InvalidStringLength", "InvalidPrefix", "propagated", "Ok"} | ({"strict"} if strict else set())
    if kinds != want_kinds:
        bad.append("outcome kinds %s; reference %s" % (sorted(kinds), sorted(want_kinds)))
    ctx.instance(r, len(R["paths"]))
    ctx.ob(r, ("from_str_bytes", "gate-order-and-error-kinds"), not bad, "; ".join(sorted(set(bad))[:3]), cfg=F.key, where=b.where(), detail={"paths": len(R["paths"])})
    # constants
    vals = {nm: (env["assoc:LEN_IN_STR"], env["assoc:LEN_IN_STR_EXCEPT_PREFIX"]) for nm, env in envs}
    ctx.ob(r, ("LEN_IN_STR", "values"), all(a - 2 == e for a, e in vals.values()) and {v[0] for v in vals.values()} == {32, 72, 76, 136, 140},
           "(LEN_IN_STR, LEN_IN_STR_EXCEPT_PREFIX) per variant %s; reference 32/72/76/136/140 and LEN-2" % vals, cfg=F.key)
    # part decoders get exactly the length they require
    need = {"checksum": lambda e: 2 * e["SIZE_CKSUM"], "lvalue": lambda e: 2, "qratios": lambda e: 2, "body": lambda e: 2 * e["SIZE_BODY"]}
    badw = []
    for rec in R["paths"]:
        ks = [k for (op, k, truth, bb) in rec["len_tests"] if (op == "Ne" and truth is False)]
        if not ks:
            continue
        for ev in rec["events"]:
            if ev[0] != "decode":
                continue
            w = layout.window(ev[3][2][0], P(1))
            for name, env in envs:
                total = layout.ceval(ks[-1], env)
                if w is None:
                    badw.append("%s: %s decoder argument is not a window of the input" % (name, ev[1]))
                    continue
                s0 = layout.ceval(w[0], env)
                e0 = layout.ceval(w[1], env) if w[1] is not None else total
                if s0 is None or e0 is None or e0 - s0 != need[ev[1]](env) or e0 > total or s0 < 0:
                    badw.append("%s: %s decoder gets [%s,%s) of %s bytes; needs %d" % (name, ev[1], s0, e0, total, need[ev[1]](env)))
    ctx.ob(r, ("from_str_bytes", "decoder-window-lengths"), not badw, "; ".join(sorted(set(badw))[:3]), cfg=F.key, where=b.where())
