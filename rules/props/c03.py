"""C03 -- hash is independent of how the input is chunked, finalized or cloned."""
from .. import sym, callgraph
from ..norm import n, P, C, V, ANY, match, find_all
from . import common, cmpmodel, witness

ID = "C03"
CONFIGS = {"quick": ["K0", "K7"], "thorough": ["K0", "K1", "K7", "K8", "K13"]}
META = {
    "explanation": (
        "Static analysis (types, MIR paths, call graph).  Decided at the type level: finalize/finalize_with_options/"
        "processed_len take &self in the trait and in both impls, every field type of both generator types is Freeze (no "
        "interior mutability) for all five instantiations, and nothing reachable from finalize_with_options writes through "
        "a raw pointer or casts *const to *mut -- so finalizing cannot disturb the generator; Clone for both generator "
        "types is the derived one over plain data (integers and integer arrays), so clones share no state.  As a necessary "
        "condition for chunking independence: every exit path of update() either returns from the tail-fill prologue having "
        "written the tail and its length, returns at the saturation guard, or passes the window loop and then a write that "
        "covers the tail; the wrappers forward arguments unchanged.  NOT decided: that the three tail-maintenance paths "
        "compute the right offsets for every split (arithmetic on run-time lengths)."
    ),
    "trusted_base": ["rustc nightly front end (types, Freeze query, derive expansion)", "Rust aliasing rules: no mutation through & without UnsafeCell or raw-pointer writes"],
    "assumptions": [],
    "not_decided": ["tail/offset arithmetic at chunk boundaries for every split"],
}
TECHNIQUE = "type-level facts (receiver, Freeze, derived Clone), must-pass-through path rule, compile-pass/compile-fail witness"


def run(ctx, FS):
    for key, F in FS.items():
        readonly(ctx, F)
        clones(ctx, F)
        tail(ctx, F)
        wrappers(ctx, F)
    witness.finalize_shared(ctx, "R-03.1")


def readonly(ctx, F):
    r = "R-03.1"
    ctx.rule(r, "finalize cannot disturb the generator: &self receivers, Freeze fields, no raw-pointer write reachable from finalize_with_options")
    # (i) receivers
    for nm in ("finalize_with_options", "finalize", "processed_len"):
        bodies = [b for b in F.bodies if b.name == nm and b.kind == "AssocFn" and ("generate::" in b.path)]
        ctx.instance(r, len(bodies))
        bad = []
        for b in bodies:
            ins = [F.ty(i) for i in b.d.get("inputs", [])]
            if not ins or ins[0]["k"] != "ref" or ins[0]["mut"]:
                bad.append("%s takes %s" % (b.path[-60:], ins[0]["s"] if ins else None))
        want = 2 if nm != "finalize" else 1
        ctx.ob(r, ("GeneratorType::" + nm, "receiver-&self"), not bad and len(bodies) >= want, "; ".join(bad) or "found %d bodies" % len(bodies), cfg=F.key)
    up = [b for b in F.bodies if b.name == "update" and b.kind == "AssocFn" and "generate::" in b.path]
    okm = len(up) >= 2 and all(F.ty(b.d["inputs"][0])["k"] == "ref" and F.ty(b.d["inputs"][0])["mut"] for b in up)
    ctx.ob(r, ("GeneratorType::update", "receiver-&mut-self"), okm, "update does not take &mut self everywhere", cfg=F.key, trivial=True)
    # (ii) Freeze
    gens = [s for s in F.d["seeds"] if s["s"].startswith(("generate::Generator<", "generate::inner::Generator<"))]
    ctx.instance(r, len(gens))
    nf = [s["s"] for s in gens if not s["freeze"]]
    ctx.ob(r, ("Generator types", "Freeze"), not nf and len(gens) == 10, "generator instantiations that are not Freeze: %s (found %d of 10)" % (nf, len(gens)), cfg=F.key)
    # (iii) raw writes reachable from finalize_with_options
    G = callgraph.CallGraph(F)
    roots = [b.path for b in F.bodies if b.name in ("finalize_with_options", "finalize", "processed_len") and "generate::" in b.path]
    reach = G.reach(roots)
    bad = []
    for p in sorted(reach):
        b = G.nodes[p]
        for blk in b.blocks:
            for s in blk["stmts"]:
                d = s.get("dst")
                if d and "p" in d and "*" in d["p"]:
                    t = b.local_ty(d["l"])
                    if t["k"] == "ptr":
                        bad.append("%s writes through a raw pointer" % p[-60:])
                if s.get("rv") == "cast" and s["kind"] in ("PtrToPtr", "Transmute"):
                    tt = F.ty(s["ty"])
                    if tt["k"] == "ptr" and tt["mut"]:
                        bad.append("%s casts to a *mut pointer" % p[-60:])
            t = blk["term"]
            if t["t"] == "call":
                cp = t["callee"].get("path") or ""
                if cp.startswith(("core::ptr::write", "core::ptr::mut_ptr", "core::intrinsics::write", "core::intrinsics::copy", "core::ptr::copy", "core::cell::", "core::sync::atomic")) \
                        or "_storeu_" in cp or "_store_" in cp:
                    bad.append("%s calls %s" % (p[-60:], cp))
    ctx.instance(r, len(reach))
    ctx.ob(r, ("finalize_with_options", "no-raw-write-reachable"), not bad, "; ".join(sorted(set(bad))[:3]), cfg=F.key, detail={"functions_reachable": len(reach)})


def clones(ctx, F):
    r = "R-03.2"
    ctx.rule(r, "clones are independent: Clone is the derived impl and every field is plain data (no reference, pointer or handle type)")
    for prefix in ("generate::inner::Generator<", "generate::Generator<"):
        ims = [im for im in F.impls if im.get("trait") == "core::clone::Clone" and F.tys(im["self_ty"]).startswith(prefix)]
        ctx.instance(r)
        ctx.ob(r, (prefix.rstrip("<"), "Clone-derived"), len(ims) == 1 and ims[0]["derived"] and ims[0]["builtin_derived"],
               "Clone for %s is not the built-in derive (%s)" % (prefix, [(im["derived"], im["builtin_derived"]) for im in ims]), cfg=F.key)
    # plain data: walk seed field types
    seeds = {s["s"]: s for s in F.d["seeds"]}
    bad = []
    n_leaf = 0

    def walk(tid, depth=0):
        nonlocal n_leaf
        t = F.ty(tid)
        k = t["k"]
        if k == "prim":
            n_leaf += 1
            return
        if k == "array":
            walk(t["elem"], depth + 1)
            return
        if k == "tuple":
            for e in t["elems"]:
                walk(e, depth + 1)
            return
        if k == "adt" and t["s"] in seeds and depth < 8:
            for v in seeds[t["s"]].get("variants", []):
                for f in v["fields"]:
                    walk(f["ty"], depth + 1)
            return
        bad.append(t["s"])

    gens = [s for s in F.d["seeds"] if s["s"].startswith(("generate::Generator<", "generate::inner::Generator<"))]
    for s in gens:
        walk(s["ty"])
    ctx.instance(r, len(gens))
    ctx.ob(r, ("Generator types", "plain-data-fields"), not bad and n_leaf > 0, "generator state contains non-plain-data types: %s" % sorted(set(bad))[:4], cfg=F.key, detail={"leaf_fields": n_leaf})


def tail(ctx, F):
    r = "R-03.3"
    ctx.rule(r, "every exit of update() carries the tail: prologue exit writes tail+tail_len; saturation exit consumes nothing; otherwise the window loop is followed by a write covering the tail", "N")
    gf = common.generator_fields(F)
    bs = F.method("update", "generate::inner::Generator<")
    ctx.instance(r)
    if len(bs) != 1 or not gf:
        ctx.missing(r, "inner Generator::update", cfg=F.key)
        return
    b = bs[0]
    S = sym.Sym(b)
    paths = S.paths()
    TAIL = ("field", ("deref", P(1)), gf["tail"])
    TLEN = ("field", ("deref", P(1)), gf["tail_len"])
    LEN = ("field", ("deref", P(1)), gf["len"])
    rets = [p for p in paths if p.end == "return"]
    loops = [p for p in paths if p.end == "loop"]
    bad = []
    kinds = {"prologue": 0, "saturated": 0, "loop+tail": 0}
    hdrs = {p.blocks[-1] for p in loops}

    def tail_writes(p, after_bb_index=0):
        out = []
        for c in p.calls:
            if p.blocks.index(c[0]) < after_bb_index:
                continue
            if c[1] in ("core::slice::<impl [T]>::copy_from_slice", "core::slice::<impl [T]>::copy_within"):
                a0 = n(c[2][0])
                if find_all(a0, lambda x: x == TAIL):
                    out.append((c[1].rsplit("::", 1)[-1], a0))
        return out

    for p in rets:
        hit_hdr = [i for i, bb in enumerate(p.blocks) if bb in hdrs]
        wrote_len = [s for s in p.stores if n(s[1]) == LEN]
        wrote_tlen = [s for s in p.stores if n(s[1]) == TLEN]
        if hit_hdr:
            tw = tail_writes(p, hit_hdr[0])
            full = any(nm == "copy_from_slice" and a0 in (("ref", TAIL), TAIL, ("cast", "PointerCoercion(Unsize, Implicit)", "&mut [u8]", ("ref", TAIL))) for nm, a0 in tw)
            shift = [nm for nm, a0 in tw] == ["copy_within", "copy_from_slice"]
            if not (full or shift):
                bad.append("a path through the window loop returns without rewriting the tail (tail writes after the loop: %s)" % [nm for nm, _ in tw])
            else:
                kinds["loop+tail"] += 1
        elif wrote_len:
            bad.append("a path updates the length counter but never reaches the window loop")
        elif wrote_tlen:
            tw = tail_writes(p)
            if not tw:
                bad.append("prologue exit updates tail_len without writing the tail")
            else:
                kinds["prologue"] += 1
        else:
            # nothing consumed: must be the saturation guard or an empty prologue
            sat = any(n(d)[0] == "bin" and find_all(n(d), lambda x: x[0] == "cpath" and x[1].endswith("::MAX_LEN")) for (_, d, _, _) in p.conds)
            if sat:
                kinds["saturated"] += 1
            else:
                bad.append("a path returns without consuming input and without the saturation test")
    ctx.instance(r, len(rets))
    ctx.ob(r, ("Generator::update", "tail-carried-on-every-exit"), not bad and all(kinds.values()) and bool(loops),
           "; ".join(sorted(set(bad))[:3]) or "path kinds %s, loop paths %d" % (kinds, len(loops)), cfg=F.key, where=b.where(), detail=kinds)
    # the loop is seeded from tail[0..4] (window locals) -- see C01 R-01.3; the loop iterates over the slice that was counted -- see C11 R-11.3


def wrappers(ctx, F):
    r = "R-03.4"
    ctx.rule(r, "generate::Generator<T> forwards update/processed_len/finalize_with_options to self.inner unchanged (only map(T::new) on the result)")
    inner = ("ref", ("field", ("deref", P(1)), 0))
    want = {
        "update": ("call", "generate::public::GeneratorType::update", (inner, P(2))),
        "processed_len": ("call", "generate::public::GeneratorType::processed_len", (inner,)),
    }
    for nm in ("update", "processed_len", "finalize_with_options"):
        bs = F.method(nm, "generate::Generator<", trait="generate::public::GeneratorType")
        ctx.instance(r)
        if len(bs) != 1:
            ctx.missing(r, "outer Generator::" + nm, cfg=F.key)
            continue
        b = bs[0]
        ps = [p for p in sym.Sym(b).paths() if p.end == "return"]
        ok = False
        desc = None
        if len(ps) == 1:
            p = ps[0]
            if nm == "update":
                calls = [n(("call", c[0], c[1], c[2])) for c in p.calls]
                ok = calls == [want["update"]] and not p.stores
                desc = [sym.fmt(c) for c in calls]
            elif nm == "processed_len":
                e = n(p.ret)
                ok = e == want[nm] and not p.stores
                desc = sym.fmt(e)
            else:
                e = n(p.ret)
                m = match(("call", "core::result::Result::<T, E>::map", (("call", "generate::public::GeneratorType::finalize_with_options", (inner, P(2))), ("fn", V("f")))), e)
                ok = bool(m) and m["f"].endswith("ConstrainedFuzzyHashType::new") and not p.stores
                desc = sym.fmt(e)
        ctx.ob(r, ("generate::Generator::" + nm, "forwards"), ok, "outer %s is %s" % (nm, desc), cfg=F.key, where=b.where())
    fb = F.fn("generate::public::GeneratorType::finalize")
    ctx.instance(r)
    if fb is None:
        ctx.missing(r, "GeneratorType::finalize default", cfg=F.key)
    else:
        ps = cmpmodel.ret_paths(fb)
        e = n(ps[0].ret) if len(ps) == 1 else None
        m = match(("call", "generate::public::GeneratorType::finalize_with_options", (P(1), ("ref", ("call", V("d"), ())))), e) if e else None
        ctx.ob(r, ("GeneratorType::finalize", "default-options"), bool(m) and m["d"].endswith(("Default::default", "Default>::default")), "finalize() is %s" % (sym.fmt(e) if e else e), cfg=F.key, where=fb.where())
    db = [x for x in F.bodies if x.name == "default" and (x.d.get("impl") or "").startswith("<generate::GeneratorOptions as core::default::Default>")]
    if db:
        ps = cmpmodel.ret_paths(db[0])
        e = n(ps[0].ret) if len(ps) == 1 else None
        ctx.ob(r, ("GeneratorOptions::default", "new"), e == ("call", "generate::GeneratorOptions::new", ()), "GeneratorOptions::default is %s" % (sym.fmt(e) if e else e), cfg=F.key, trivial=True)
