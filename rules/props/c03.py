"""C03 -- hash is independent of how the input is chunked, finalized or cloned."""
from .. import sym, callgraph
from ..norm import n, P, C, V, ANY, match, find_all
from . import common, cmpmodel, witness, layout, panics

ID = "C03"
CONFIGS = {"quick": ["K0", "K7", "K8"], "thorough": ["K0", "K1", "K7", "K8", "K13", "K19"]}
META = {
    "explanation": (
        "Static analysis (types, MIR paths, call graph).  Decided at the type level: finalize/finalize_with_options/"
        "processed_len take &self in the trait and in both impls, every field type of both generator types is Freeze (no "
        "interior mutability) for all five instantiations, and nothing reachable from finalize_with_options writes through "
        "a raw pointer or casts *const to *mut -- so finalizing cannot disturb the generator; Clone for both generator "
        "types is the derived one over plain data (integers and integer arrays), so clones share no state.  As a necessary "
        "condition for chunking independence: every exit path of update() either returns from the tail-fill prologue having "
        "written the tail and its length, returns at the saturation guard, or passes the window loop and then a write that "
        "covers the tail; the wrappers forward arguments unchanged.  The tail arithmetic itself is decided per update() call by "
        "affine-window evaluation with a finite case split on the lengths involved (R-03.5, R-03.6): for len(D) = 0..8 and "
        "len(D) >= 9 every feasible loop-exit path leaves tail = last TAIL_SIZE bytes of old_tail ++ D, the loop body never "
        "writes the tail, and for tail_len = 0..4 the tail-fill prologue appends min(len, TAIL_SIZE - tail_len) bytes, "
        "stores the new tail_len and hands exactly the remaining bytes to the window loop.  The loop body is a step function of "
        "(carried state, byte): R-03.8 (the six salted increments and checksum.update(cur, prev) per window, window seeded "
        "from tail[0..4] and shifted by one byte per iteration), R-03.9 (the 1- and 3-byte checksum recurrences read only "
        "the carried checksum and their operands) and R-03.10 (inside update() the checksum is mutated only through "
        "InnerChecksum::update and the buckets only through increment -- no per-call re-seeding or bulk update).  This is the "
        "one-step case of chunking independence; the induction over histories is a paper argument, not machine-checked."
    ),
    "trusted_base": ["rustc nightly front end (types, Freeze query, derive expansion)", "Rust aliasing rules: no mutation through & without UnsafeCell or raw-pointer writes"],
    "assumptions": [],
    "not_decided": ["the induction from one update() call to arbitrary histories (paper argument)"],
}
TECHNIQUE = "type-level facts (receiver, Freeze, derived Clone), must-pass-through path rule, affine-window evaluation on a finite length case split, who-may-mutate rule on the carried state, compile-pass/compile-fail witness"


def run(ctx, FS):
    for key, F in FS.items():
        readonly(ctx, F)
        clones(ctx, F)
        tail(ctx, F)
        tail_windows(ctx, F)
        prologue_windows(ctx, F)
        # the amount counted for a piece does not depend on how the input was cut: it is the checked conversion of the
        # piece length (or the room left below MAX_LEN), and the iterated slice is the counted one (shared with C11)
        from . import c11
        c11.guards(ctx, F, "R-03.7")
        step_state(ctx, F)
        wrappers(ctx, F)
    witness.finalize_shared(ctx, "R-03.1")


def readonly(ctx, F):
    r = "R-03.1"
    ctx.rule(r, "finalize cannot disturb the generator: &self receivers, Freeze fields, no raw-pointer write reachable from finalize_with_options")
    # (i) receivers
    for nm in ("finalize_with_options", "finalize", "processed_len"):
        bodies = [b for b in F.bodies if b.name == nm and b.kind == "AssocFn" and ("generate::" in b.path)]
        ctx.instance(r, len(bodies))
        bad = []
        for b in bodies:
            ins = [F.ty(i) for i in b.d.get("inputs", [])]
            if not ins or ins[0]["k"] != "ref" or ins[0]["mut"]:
                bad.append("%s takes %s" % (b.path[-60:], ins[0]["s"] if ins else None))
        want = 2 if nm != "finalize" else 1
        ctx.ob(r, ("GeneratorType::" + nm, "receiver-&self"), not bad and len(bodies) >= want, "; ".join(bad) or "found %d bodies" % len(bodies), cfg=F.key)
    up = [b for b in F.bodies if b.name == "update" and b.kind == "AssocFn" and "generate::" in b.path]
    okm = len(up) >= 2 and all(F.ty(b.d["inputs"][0])["k"] == "ref" and F.ty(b.d["inputs"][0])["mut"] for b in up)
    ctx.ob(r, ("GeneratorType::update", "receiver-&mut-self"), okm, "update does not take &mut self everywhere", cfg=F.key, trivial=True)
    # (ii) Freeze
    gens = [s for s in F.d["seeds"] if s["s"].startswith(("generate::Generator<", "generate::inner::Generator<"))]
    ctx.instance(r, len(gens))
    nf = [s["s"] for s in gens if not s["freeze"]]
    ctx.ob(r, ("Generator types", "Freeze"), not nf and len(gens) == 10, "generator instantiations that are not Freeze: %s (found %d of 10)" % (nf, len(gens)), cfg=F.key)
    # (iii) raw writes reachable from finalize_with_options
    G = callgraph.CallGraph(F)
    roots = [b.path for b in F.bodies if b.name in ("finalize_with_options", "finalize", "processed_len") and "generate::" in b.path]
    reach = G.reach(roots)
    bad = []
    for p in sorted(reach):
        b = G.nodes[p]
        for blk in b.blocks:
            for s in blk["stmts"]:
                d = s.get("dst")
                if d and "p" in d and "*" in d["p"]:
                    t = b.local_ty(d["l"])
                    if t["k"] == "ptr":
                        bad.append("%s writes through a raw pointer" % p[-60:])
                if s.get("rv") == "cast" and s["kind"] in ("PtrToPtr", "Transmute"):
                    tt = F.ty(s["ty"])
                    if tt["k"] == "ptr" and tt["mut"]:
                        bad.append("%s casts to a *mut pointer" % p[-60:])
            t = blk["term"]
            if t["t"] == "call":
                cp = t["callee"].get("path") or ""
                if cp.startswith(("core::ptr::write", "core::ptr::mut_ptr", "core::intrinsics::write", "core::intrinsics::copy", "core::ptr::copy", "core::cell::", "core::sync::atomic")) \
                        or "_storeu_" in cp or "_store_" in cp:
                    bad.append("%s calls %s" % (p[-60:], cp))
    ctx.instance(r, len(reach))
    ctx.ob(r, ("finalize_with_options", "no-raw-write-reachable"), not bad, "; ".join(sorted(set(bad))[:3]), cfg=F.key, detail={"functions_reachable": len(reach)})


def clones(ctx, F):
    r = "R-03.2"
    ctx.rule(r, "clones are independent: Clone is the derived impl and every field is plain data (no reference, pointer or handle type)")
    for prefix in ("generate::inner::Generator<", "generate::Generator<"):
        ims = [im for im in F.impls if im.get("trait") == "core::clone::Clone" and F.tys(im["self_ty"]).startswith(prefix)]
        ctx.instance(r)
        ctx.ob(r, (prefix.rstrip("<"), "Clone-derived"), len(ims) == 1 and ims[0]["derived"] and ims[0]["builtin_derived"],
               "Clone for %s is not the built-in derive (%s)" % (prefix, [(im["derived"], im["builtin_derived"]) for im in ims]), cfg=F.key)
    # plain data: walk seed field types
    seeds = {s["s"]: s for s in F.d["seeds"]}
    bad = []
    n_leaf = 0

    def walk(tid, depth=0):
        nonlocal n_leaf
        t = F.ty(tid)
        k = t["k"]
        if k == "prim":
            n_leaf += 1
            return
        if k == "array":
            walk(t["elem"], depth + 1)
            return
        if k == "tuple":
            for e in t["elems"]:
                walk(e, depth + 1)
            return
        if k == "adt" and t["s"] in seeds and depth < 8:
            for v in seeds[t["s"]].get("variants", []):
                for f in v["fields"]:
                    walk(f["ty"], depth + 1)
            return
        bad.append(t["s"])

    gens = [s for s in F.d["seeds"] if s["s"].startswith(("generate::Generator<", "generate::inner::Generator<"))]
    for s in gens:
        walk(s["ty"])
    ctx.instance(r, len(gens))
    ctx.ob(r, ("Generator types", "plain-data-fields"), not bad and n_leaf > 0, "generator state contains non-plain-data types: %s" % sorted(set(bad))[:4], cfg=F.key, detail={"leaf_fields": n_leaf})


def tail(ctx, F):
    r = "R-03.3"
    ctx.rule(r, "every exit of update() carries the tail: prologue exit writes tail+tail_len; saturation exit consumes nothing; otherwise the window loop is followed by a write covering the tail", "N")
    gf = common.generator_fields(F)
    bs = F.method("update", "generate::inner::Generator<")
    ctx.instance(r)
    if len(bs) != 1 or not gf:
        ctx.missing(r, "inner Generator::update", cfg=F.key)
        return
    b = bs[0]
    S = sym.Sym(b)
    paths = S.paths()
    TAIL = ("field", ("deref", P(1)), gf["tail"])
    TLEN = ("field", ("deref", P(1)), gf["tail_len"])
    LEN = ("field", ("deref", P(1)), gf["len"])
    rets = [p for p in paths if p.end == "return"]
    loops = [p for p in paths if p.end == "loop"]
    bad = []
    kinds = {"prologue": 0, "saturated": 0, "loop+tail": 0}
    hdrs = {p.blocks[-1] for p in loops}

    def tail_writes(p, after_bb_index=0):
        out = []
        for c in p.calls:
            if p.blocks.index(c[0]) < after_bb_index:
                continue
            nm = c[1].rsplit("::", 1)[-1]
            if nm in ("copy_from_slice", "copy_within") and c[2]:
                a0 = n(c[2][0])
                if find_all(a0, lambda x: x == TAIL):
                    out.append((nm, a0))
            elif nm in ("copy_nonoverlapping", "copy") and len(c[2]) == 3:
                a1 = n(c[2][1])
                if find_all(a1, lambda x: x == TAIL):
                    out.append((nm, a1))
        for (bb, pl, v) in p.stores:
            if p.blocks.index(bb) >= after_bb_index and n(pl) == TAIL:
                out.append(("array-store", TAIL))
        return out

    for p in rets:
        hit_hdr = [i for i, bb in enumerate(p.blocks) if bb in hdrs]
        wrote_len = [s for s in p.stores if n(s[1]) == LEN]
        wrote_tlen = [s for s in p.stores if n(s[1]) == TLEN]
        if hit_hdr:
            tw = tail_writes(p, hit_hdr[0])
            # which bytes are written is R-03.5's business; here: some bulk write into the tail follows the loop
            if not tw:
                bad.append("a path through the window loop returns without rewriting the tail (tail writes after the loop: %s)" % [nm for nm, _ in tw])
            else:
                kinds["loop+tail"] += 1
        elif wrote_len:
            bad.append("a path updates the length counter but never reaches the window loop")
        elif wrote_tlen:
            tw = tail_writes(p)
            if not tw:
                bad.append("prologue exit updates tail_len without writing the tail")
            else:
                kinds["prologue"] += 1
        else:
            # nothing consumed: must be the saturation guard or an empty prologue
            sat = any(n(d)[0] == "bin" and find_all(n(d), lambda x: x[0] == "cpath" and x[1].endswith("::MAX_LEN")) for (_, d, _, _) in p.conds)
            if sat:
                kinds["saturated"] += 1
            else:
                bad.append("a path returns without consuming input and without the saturation test")
    ctx.instance(r, len(rets))
    ctx.ob(r, ("Generator::update", "tail-carried-on-every-exit"), not bad and all(kinds.values()) and bool(loops),
           "; ".join(sorted(set(bad))[:3]) or "path kinds %s, loop paths %d" % (kinds, len(loops)), cfg=F.key, where=b.where(), detail=kinds)
    # the loop is seeded from tail[0..4] (window locals) -- see C01 R-01.3; the loop iterates over the slice that was counted -- see C11 R-11.3


SLICE_LEN = "core::slice::<impl [T]>::len"
ITER_ADAPTERS = ("slice::<impl [T]>::iter", "Iterator::copied", "Iterator::cloned", "IntoIterator::into_iter")


def _mut_ref_to(raw, target):
    """does the raw (un-normalised) expression hand out `&mut P` with P inside `target` (normalisation erases mutability);
    a `&mut` that only feeds a length query (`len(..)`, `is_empty(..)`) is a read, not a hand-out"""
    def strip(e):
        if not isinstance(e, tuple):
            return e
        if e and e[0] == "call" and isinstance(e[1], int) and e[2].endswith(("::len", "::is_empty")):
            return ("const", 0)
        if e and e[0] == "len":
            return ("const", 0)
        return tuple(strip(x) for x in e)
    return bool(find_all(strip(raw), lambda x: x[0] == "ref" and len(x) == 3 and x[1] is True and find_all(n(x[2]), lambda y: y == target)))


def _iter_source(e):
    while e[0] == "call" and len(e[2]) == 1 and e[1].endswith(ITER_ADAPTERS):
        e = e[2][0]
    return e


def _peel(e):
    while True:
        if e[0] == "ref":
            e = e[-1]
        elif e[0] == "cast":
            e = e[3]
        elif e[0] == "call" and len(e[2]) == 1 and e[1].endswith(("::as_mut_slice", "::as_slice", "::as_mut", "::as_ref")):
            e = e[2][0]
        else:
            return e


def _subst(e, D, TAIL, T, extra=None):
    """replace the iterated slice by the opaque atom D, len(tail) by its constant and the `extra` sub-expressions by theirs."""
    if e == D:
        return ("param", "D")
    if extra and isinstance(e, tuple) and e in extra:
        return extra[e]
    if isinstance(e, tuple):
        if len(e) == 3 and e[0] == "call" and e[1] == SLICE_LEN and len(e[2]) == 1 and _peel(e[2][0]) == TAIL:
            return C(T)
        return tuple(_subst(x, D, TAIL, T, extra) for x in e)
    return e


_FOLD = {"TAIL": None, "T": None}


def _fold_lens(e):
    """len(<window of the tail>) and len(<window of D>) as end - start"""
    TAIL, T = _FOLD["TAIL"], _FOLD["T"]
    if not isinstance(e, tuple) or TAIL is None:
        return e
    if len(e) == 3 and e[0] == "call" and e[1] == SLICE_LEN and len(e[2]) == 1:
        x = e[2][0]
        for base, full in ((TAIL, C(T)), (("param", "D"), None)):
            w = layout.window(x, base) or layout.window(_peel(x), base)
            if w is not None and (x != base):
                hi = w[1] if w[1] is not None else (full if full is not None else ("call", SLICE_LEN, (base,)))
                return ("bin", "Sub", _fold_lens(hi), _fold_lens(w[0]))
    return tuple(_fold_lens(y) if isinstance(y, tuple) else y for y in e)


def _lin(e, env):
    e = _fold_lens(e)
    saved, panics.SYMLEN[0] = panics.SYMLEN[0], None
    try:
        c, d = panics.lin(e, env)
    finally:
        panics.SYMLEN[0] = saved
    LD = ("call", SLICE_LEN, (("param", "D"),))
    if any(k != LD for k in d):
        return None
    return (d.get(LD, 0), c)  # a*L + c


def _ptr(e):
    """(base slice expression, element offset) of a raw element pointer expression."""
    e0 = e
    off = C(0)
    while True:
        if e[0] == "cast":
            e = e[3]
        elif e[0] == "call" and len(e[2]) == 2 and e[1].endswith(("::add", "::offset", "::wrapping_add")):
            off = layout.add(off, e[2][1])
            e = e[2][0]
        elif e[0] == "call" and len(e[2]) == 1 and e[1].endswith(("::as_ptr", "::as_mut_ptr")):
            return (e[2][0], off)
        else:
            return None


def _register_stores(S, b, hdrs, paths, TAIL, T):
    """{block: reason or None} for whole-array stores `tail = [r0, .., r(T-1)]` after the window loop whose operands are the
    loop's window registers: walking from the loop header, the stored values are locals r_j that every loop cycle shifts by one
    (r_j' = r_(j+1), r_(T-1)' = the item just consumed) and that hold tail[j] when the loop is entered; such a store leaves the last T bytes of
    old_tail ++ D[0..k] after k iterations (None = verified; otherwise why not)."""
    out = {}
    for h in hdrs:
        try:
            hp = S.paths(entry=h)
        except sym.PathLimit:
            continue
        cyc = [q for q in hp if q.end == "loop" and q.blocks[-1] == h]
        exits = [q for q in hp if q.end == "return"]
        entries = [q for q in S.paths(stop_at={h}) if q.end == "stop"]
        for q in exits:
            for (bb, pl, v) in q.stores:
                if n(pl) != TAIL:
                    continue
                why = None
                regs = [x[1] if x[0] == "local" else None for x in v[2]] if v[0] == "agg" and len(v[2]) == T else None
                if not regs or None in regs or len(set(regs)) != T:
                    why = "stored value %s is not an array of %d distinct loop-carried locals" % (sym.fmt(n(v))[:100], T)
                if why is None:
                    if not cyc:
                        why = "no loop cycle found"
                    for c_ in cyc:
                        nxt = [x for x in c_.calls if x[1].endswith("::next")]
                        if len(nxt) != 1:
                            why = "loop cycle with %d next() calls" % len(nxt)
                            break
                        item = ("field", ("variant", n(("call", nxt[0][0], nxt[0][1], nxt[0][2])), "Some"), 0)
                        items = (item, ("load", ("deref", item)))
                        for j, r_ in enumerate(regs):
                            got = n(c_.env["locals"].get(r_, ("local", r_)))
                            if j < T - 1 and got != ("local", regs[j + 1]):
                                why = "register %d is not shifted from register %d by a loop cycle (becomes %s)" % (j, j + 1, sym.fmt(got)[:60])
                            if j == T - 1 and got not in items:
                                why = "the last register does not take the consumed item (becomes %s)" % sym.fmt(got)[:60]
                if why is None:
                    if not entries:
                        why = "no path reaches the loop header"
                    for e_ in entries:
                        # the registers are loaded from the tail after the last write into it
                        for j, r_ in enumerate(regs):
                            got = e_.env["locals"].get(r_)
                            g = n(got) if got is not None else None
                            okv = g in (("load", ("index", TAIL, C(j))), ("index", ("load", TAIL), C(j)), ("cindex", ("load", TAIL), j, False))
                            if not okv:
                                why = "register %d enters the loop as %s, not tail[%d]" % (j, sym.fmt(g)[:60] if g else None, j)
                            elif got[0] == "load" and len(got) > 2 and isinstance(got[2], int):
                                ver = got[2]
                                later = [m_ for m_ in e_.env["mem"][ver:] if find_all(n(m_[0]), lambda y: y == TAIL)]
                                if later:
                                    why = "the tail is written after register %d was loaded from it" % j
                prev = out.get(bb, "unset")
                out[bb] = why if prev in ("unset", None) else prev
    return out


_REGS = [{}]


def _tail_ops(p, start_index, D, TAIL, T, env, end_index=1 << 30, extra=None):
    """ordered tail-writing operations on path p from block position start_index on:
    ('D', lo, hi, delta) : tail[j] = D[j + delta] for j in [lo, hi);  ('old', lo, hi, delta): tail[j] = tail_before[j + delta];
    ('?', description) for a construct that mentions the tail mutably and is not understood.  lo/hi/delta are (a, c) = a*len(D) + c."""
    DP = ("param", "D")
    ops = []
    order = {bb: i for i, bb in enumerate(p.blocks)}

    def win(e, base):
        w = layout.window(e, base)
        if w is None:
            pe = _peel(e)
            w = layout.window(pe, base) if pe != e else None
        return w

    def L(e):
        return _lin(e, env)

    for c in p.calls:
        if not (start_index <= order.get(c[0], -1) < end_index):
            continue
        nm = c[1].rsplit("::", 1)[-1]
        args = [_subst(n(a), D, TAIL, T, extra) for a in c[2]]
        mentions = any(find_all(a, lambda x: x == TAIL) for a in args)
        if not mentions:
            continue
        if nm == "copy_from_slice" and len(args) == 2:
            dw = win(args[0], TAIL) or win(_peel(args[0]), TAIL)
            if dw is None and _peel(args[0]) == TAIL:
                dw = (C(0), None)
            sw = win(args[1], DP)
            if dw is None or sw is None:
                if find_all(args[0], lambda x: x == TAIL):
                    ops.append(("?", "copy_from_slice(%s, %s)" % (sym.fmt(args[0]), sym.fmt(args[1]))))
                continue
            dlo, dhi = L(dw[0]), (L(dw[1]) if dw[1] is not None else (0, T))
            slo, shi = L(sw[0]), (L(sw[1]) if sw[1] is not None else (1, 0))
            if None in (dlo, dhi, slo, shi):
                ops.append(("?", "copy_from_slice with non-affine bounds: %s <- %s" % (sym.fmt(args[0]), sym.fmt(args[1]))))
                continue
            ops.append(("D", dlo, dhi, (slo[0] - dlo[0], slo[1] - dlo[1]), (shi[0] - slo[0], shi[1] - slo[1])))
        elif nm == "copy_within" and len(args) == 3 and _peel(args[0]) == TAIL:
            r = args[1]
            dst = L(args[2])
            if r[0] != "agg" or dst is None:
                ops.append(("?", "copy_within(%s)" % sym.fmt(r)))
                continue
            kind = r[1].rsplit("::", 1)[-1]
            if kind == "RangeFrom":
                a, b = L(r[2][0]), (0, T)
            elif kind == "Range":
                a, b = L(r[2][0]), L(r[2][1])
            elif kind == "RangeTo":
                a, b = (0, 0), L(r[2][0])
            else:
                a = b = None
            if a is None or b is None:
                ops.append(("?", "copy_within(%s)" % sym.fmt(r)))
                continue
            ln = (b[0] - a[0], b[1] - a[1])
            ops.append(("old", dst, (dst[0] + ln[0], dst[1] + ln[1]), (a[0] - dst[0], a[1] - dst[1]), ln))
        elif nm in ("copy_nonoverlapping", "copy") and len(args) == 3:
            sp, dp = _ptr(args[0]), _ptr(args[1])
            cnt = L(args[2])
            if sp is None or dp is None or cnt is None:
                ops.append(("?", "%s(%s, %s, %s)" % (nm, sym.fmt(args[0]), sym.fmt(args[1]), sym.fmt(args[2]))))
                continue
            dw = win(dp[0], TAIL) or ((C(0), None) if _peel(dp[0]) == TAIL else None)
            sw = win(sp[0], DP)
            if dw is None or sw is None:
                ops.append(("?", "%s(%s, %s, ..)" % (nm, sym.fmt(args[0]), sym.fmt(args[1]))))
                continue
            dlo, slo = L(layout.add(dw[0], dp[1])), L(layout.add(sw[0], sp[1]))
            if dlo is None or slo is None:
                ops.append(("?", "%s with non-affine offsets" % nm))
                continue
            ops.append(("D", dlo, (dlo[0] + cnt[0], dlo[1] + cnt[1]), (slo[0] - dlo[0], slo[1] - dlo[1]), cnt))
        elif nm in ("len", "index", "index_mut", "as_ptr", "as_mut_ptr", "as_mut_slice", "as_slice", "add", "deref", "deref_mut", "likely", "unlikely", "is_empty",
                    "split_at", "split_at_mut", "get", "get_mut", "first", "last", "iter"):
            continue  # pure view functions: what is written through their results is seen at the writing call / store
        else:
            # any other callee that receives the tail mutably
            if any(_mut_ref_to(a, TAIL) for a in c[2]):
                ops.append(("?", "%s(%s)" % (c[1], ", ".join(sym.fmt(a) for a in args))[:200]))
    for (bb, pl, v) in p.stores:
        if not (start_index <= order.get(bb, -1) < end_index):
            continue
        npl = n(pl)
        if npl != TAIL and find_all(npl, lambda x: x == TAIL):
            ops.append(("?", "element store %s := %s" % (sym.fmt(npl), sym.fmt(_subst(n(v), D, TAIL, T))[:120])))
        elif npl == TAIL and bb in _REGS[0]:
            if _REGS[0][bb] is None:
                ops.append(("regs",))
            else:
                ops.append(("?", "whole-array store: %s" % _REGS[0][bb]))
        elif npl == TAIL:
            ops.append(("?", "whole-array store %s" % sym.fmt(_subst(n(v), D, TAIL, T))[:160]))
    return ops


CASES = list(range(0, 9)) + [None]  # len(D) = 0..8 exactly, or len(D) >= 9 (symbolic)
SYM_FROM = 9


def _val(f, k):
    """value of affine form (a, c) when len(D) = k; for the symbolic case return the form itself."""
    return f[0] * k + f[1] if k is not None else f


def _feasible(p, D, TAIL, T, env, k, extra=None):
    for (bb, d, taken, vals) in p.conds:
        e = _subst(n(d), D, TAIL, T, extra)
        if e[0] != "bin" or e[1] not in ("Lt", "Le", "Eq", "Ne"):
            continue
        a, b = _lin(e[2], env), _lin(e[3], env)
        if a is None or b is None:
            continue
        df = (b[0] - a[0], b[1] - a[1])  # rhs - lhs
        if k is not None:
            v = df[0] * k + df[1]
            lo = hi = v
        else:
            # len(D) >= SYM_FROM
            v0 = df[0] * SYM_FROM + df[1]
            lo, hi = (v0, None) if df[0] > 0 else ((None, v0) if df[0] < 0 else (v0, v0))
        if e[1] == "Lt":
            truth = True if (lo is not None and lo > 0) else (False if (hi is not None and hi <= 0) else None)
        elif e[1] == "Le":
            truth = True if (lo is not None and lo >= 0) else (False if (hi is not None and hi < 0) else None)
        elif e[1] == "Eq":
            truth = True if (lo == hi == 0) else (False if ((lo is not None and lo > 0) or (hi is not None and hi < 0)) else None)
        else:
            truth = False if (lo == hi == 0) else (True if ((lo is not None and lo > 0) or (hi is not None and hi < 0)) else None)
        if truth is None:
            continue
        if vals == [0]:
            path_truth = (taken == "otherwise")
        elif taken == "otherwise":
            continue
        else:
            path_truth = bool(taken)
        if path_truth != truth:
            return False
    return True


def _simulate(ops, T, k):
    """final tail cells after ops when len(D) = k (or symbolic): list of ('old', i) / ('D', a, c) (element a*len(D)+c of D);
    returns (cells, None) or (None, reason) -- reason 'panic' when a window is out of range / lengths differ (R-11.4's business),
    or a description when the case cannot be evaluated."""
    cells = [("old", j) for j in range(T)]
    for op in ops:
        if op[0] == "?":
            return None, "not understood: " + op[1]
        if op[0] == "regs":
            # the window registers after k loop cycles: the last T elements of old_tail ++ D[0..k]
            if k is not None:
                seq = [("old", j) for j in range(T)] + [("D", 0, i) for i in range(k)]
                cells = seq[-T:]
            else:
                cells = [("D", 1, j - T) for j in range(T)]
            continue
        kind, lo, hi, delta, ln = op
        if k is not None:
            lo_v, hi_v, ln_v = _val(lo, k), _val(hi, k), _val(ln, k)
        else:
            if lo[0] != 0 or hi[0] != 0:
                return None, "tail window bounds depend on len(D) on a path feasible for arbitrarily long input"
            lo_v, hi_v = lo[1], hi[1]
            ln_v = None if ln[0] != 0 else ln[1]
        if lo_v < 0 or hi_v > T or lo_v > hi_v:
            return None, "panic"
        if ln_v is not None and ln_v != hi_v - lo_v:
            return None, "panic"
        if ln_v is None and kind == "D":
            # source length grows with len(D) but the destination is constant: copy_from_slice would panic
            return None, "panic"
        before = list(cells)
        for j in range(lo_v, hi_v):
            if kind == "D":
                if k is not None:
                    sidx = j + _val(delta, k)
                    if sidx < 0 or sidx >= k:
                        return None, "panic"
                    cells[j] = ("D", 0, sidx)
                else:
                    cells[j] = ("D", delta[0], j + delta[1])
            else:
                if k is not None:
                    sidx = j + _val(delta, k)
                else:
                    if delta[0] != 0:
                        return None, "shift distance depends on len(D) on a path feasible for arbitrarily long input"
                    sidx = j + delta[1]
                if sidx < 0 or sidx >= T:
                    return None, "panic"
                cells[j] = before[sidx]
    return cells, None


def _expected(T, k):
    out = []
    for j in range(T):
        if k is not None:
            out.append(("old", k + j) if k + j < T else ("D", 0, k + j - T))
        else:
            out.append(("D", 1, j - T))
    return out


def tail_windows(ctx, F):
    r = "R-03.5"
    ctx.rule(r, "after the window loop over slice D the tail holds the last TAIL_SIZE bytes of old_tail ++ D: the tail writes on every loop-exit path are "
                "evaluated as affine windows for len(D) = 0..8 and len(D) >= 9 (cases the path's own length tests exclude are skipped; "
                "cases in which a write would panic are R-11.4's); the loop body itself never writes the tail", "N")
    gf = common.generator_fields(F)
    bs = F.method("update", "generate::inner::Generator<")
    envs = layout.variant_envs(F)
    ctx.instance(r)
    if len(bs) != 1 or not gf or not envs:
        ctx.missing(r, "inner Generator::update / variant constants", cfg=F.key)
        return
    b = bs[0]
    S = sym.Sym(b)
    paths = S.paths()
    TAIL = ("field", ("deref", P(1)), gf["tail"])
    rets = [p for p in paths if p.end == "return"]
    loops = [p for p in paths if p.end == "loop"]
    hdrs = {p.blocks[-1] for p in loops}
    # TAIL_SIZE, the same for every variant
    tvals = set()
    for name, env in envs:
        v = layout.ceval(("cpath", "generate::inner::Generator::<SIZE_CKSUM, SIZE_BODY, SIZE_BUCKETS, SIZE_IN_BYTES, SIZE_IN_STR_BYTES>::TAIL_SIZE"), env)
        tvals.add(v)
    if len(tvals) != 1 or None in tvals:
        ctx.missing(r, "Generator::TAIL_SIZE value (got %s)" % sorted(map(str, tvals)), cfg=F.key)
        return
    T = tvals.pop()
    _FOLD["TAIL"], _FOLD["T"] = TAIL, T
    env = envs[0][1]
    bad = []
    covered = {}
    checked = 0
    _REGS[0] = _register_stores(S, b, hdrs, paths, TAIL, T)
    for p in rets:
        hit = [i for i, bb in enumerate(p.blocks) if bb in hdrs]
        if not hit:
            continue
        order = {bb: i for i, bb in enumerate(p.blocks)}
        its = [c for c in p.calls if c[1].endswith("into_iter") and order.get(c[0], 1 << 30) <= hit[0]]
        if not its:
            bad.append("no into_iter call before the window loop")
            continue
        D = _iter_source(n(its[-1][2][0]))
        ops = _tail_ops(p, hit[0], D, TAIL, T, env)
        any_ok = False
        for k in CASES:
            label = "len=%d" % k if k is not None else "len>=%d" % SYM_FROM
            if not _feasible(p, D, TAIL, T, env, k):
                continue
            cells, why = _simulate(ops, T, k)
            if cells is None:
                if why == "panic":
                    continue
                bad.append("[%s] %s" % (label, why))
                continue
            exp = _expected(T, k)
            checked += 1
            if cells != exp:
                def show(cs):
                    return "[" + ", ".join("old[%d]" % c[1] if c[0] == "old" else ("D[%s%+d]" % ("len" if c[1] else "", c[2]) if c[1] else "D[%d]" % c[2]) for c in cs) + "]"
                bad.append("[%s] iterating %s leaves tail = %s; reference %s" % (label, sym.fmt(D)[:80], show(cells), show(exp)))
            else:
                any_ok = True
                covered[label] = covered.get(label, 0) + 1
        if not any_ok and not bad:
            bad.append("a loop-exit path has no length case in which its tail writes are valid (ops: %s)" % [o[0] for o in ops])
    want = ["len=%d" % k for k in range(0, 9)] + ["len>=%d" % SYM_FROM]
    miss = [w for w in want if not covered.get(w)]
    ctx.instance(r, checked)
    ctx.ob(r, ("Generator::update", "tail-source-windows"), not bad and not miss and checked > 0,
           "; ".join(sorted(set(bad))[:3]) or "length cases with no verified loop-exit path: %s" % miss, cfg=F.key, where=b.where(),
           detail={"cases_verified": covered, "TAIL_SIZE": T})
    # the loop body does not touch self.tail
    lb = []
    for p in loops:
        hdr = p.blocks[-1]
        first = p.blocks.index(hdr)
        order = {}
        for i, bb in enumerate(p.blocks):
            order.setdefault(bb, i)
        for (bb, pl, v) in p.stores:
            if order.get(bb, -1) >= first and find_all(n(pl), lambda x: x == TAIL):
                lb.append("store to %s inside the window loop" % sym.fmt(n(pl)))
        for c in p.calls:
            if order.get(c[0], -1) >= first and any(_mut_ref_to(a, TAIL) for a in c[2]):
                lb.append("%s receives &mut tail inside the window loop" % c[1])
    ctx.ob(r, ("Generator::update", "loop-body-leaves-tail-alone"), not lb and bool(loops), "; ".join(sorted(set(lb))[:3]) or "no loop paths", cfg=F.key, where=b.where())


def prologue_windows(ctx, F, r="R-03.6"):
    ctx.rule(r, "the tail-fill prologue appends: for tail_len = 0..TAIL_SIZE-1 and len(data) = 0..8 / >= 9, every feasible path writes "
                "tail[tail_len + k] = data[k] for k < n = min(len(data), TAIL_SIZE - tail_len), stores tail_len + n, returns early only when "
                "all of data was consumed, and otherwise continues with a slice starting at data[n]; with a full tail the slice starts at data[0]", "N")
    gf = common.generator_fields(F)
    bs = F.method("update", "generate::inner::Generator<")
    envs = layout.variant_envs(F)
    ctx.instance(r)
    if len(bs) != 1 or not gf or not envs:
        ctx.missing(r, "inner Generator::update / variant constants", cfg=F.key)
        return
    b = bs[0]
    S = sym.Sym(b)
    paths = S.paths()
    TAIL = ("field", ("deref", P(1)), gf["tail"])
    TLEN = ("field", ("deref", P(1)), gf["tail_len"])
    env = envs[0][1]
    T = layout.ceval(("cpath", "generate::inner::Generator::<SIZE_CKSUM, SIZE_BODY, SIZE_BUCKETS, SIZE_IN_BYTES, SIZE_IN_STR_BYTES>::TAIL_SIZE"), env)
    if T is None:
        ctx.missing(r, "Generator::TAIL_SIZE value", cfg=F.key)
        return
    loops = [p for p in paths if p.end == "loop"]
    hdrs = {p.blocks[-1] for p in loops}
    _FOLD["TAIL"], _FOLD["T"] = TAIL, T
    DATA = P(2)
    DP = ("param", "D")
    bad = []
    verified = {}
    n_checked = 0
    for p in paths:
        if p.end not in ("return", "loop"):
            continue
        order = {}
        for i, bb in enumerate(p.blocks):
            order.setdefault(bb, i)
        hit = [i for i, bb in enumerate(p.blocks) if bb in hdrs]
        end = hit[0] if hit else 1 << 30
        if p.end == "loop" and len(hit) > 1:
            # a loop path visits the header twice (entry, back edge); the prologue lies before the first visit
            pass
        its = [c for c in p.calls if c[1].endswith("into_iter") and order.get(c[0], 1 << 30) <= end] if hit else []
        Dexpr = _iter_source(n(its[-1][2][0])) if its else None
        tstores = [(bb, n(v)) for (bb, pl, v) in p.stores if n(pl) == TLEN]
        for tl in range(0, T + 1):
            extra = {("load", TLEN): C(tl)}
            for k in CASES:
                label = "tail_len=%d,len=%s" % (tl, k if k is not None else ">=%d" % SYM_FROM)
                if not _feasible(p, DATA, TAIL, T, env, k, extra):
                    continue
                ops = _tail_ops(p, 0, DATA, TAIL, T, env, end_index=end, extra=extra)
                cells, why = _simulate(ops, T, k)
                if cells is None:
                    if why != "panic":
                        bad.append("[%s] %s" % (label, why))
                    continue
                nn = (min(k, T - tl) if k is not None else T - tl) if tl < T else 0
                n_checked += 1
                ok = True
                for j in range(T):
                    if j < tl:
                        want = ("old", j)
                    elif j < tl + nn:
                        want = ("D", 0, j - tl)
                    else:
                        continue
                    if cells[j] != want:
                        ok = False
                        bad.append("[%s] prologue leaves tail[%d] = %s; reference %s" % (label, j, cells[j], want))
                # tail_len afterwards
                if tstores:
                    v = _lin(_subst(tstores[-1][1], DATA, TAIL, T, extra), env)
                    val = None if v is None else (v[0] * k + v[1] if k is not None else (v[1] if v[0] == 0 else None))
                    if val != tl + nn:
                        ok = False
                        bad.append("[%s] tail_len becomes %s; reference %d" % (label, val if val is not None else sym.fmt(tstores[-1][1]), tl + nn))
                elif nn != 0:
                    ok = False
                    bad.append("[%s] %d byte(s) appended to the tail but tail_len is not updated" % (label, nn))
                # what is consumed next
                consumed_all = (k is not None and nn == k)
                if Dexpr is not None:
                    w = layout.window(_subst(Dexpr, DATA, TAIL, T, extra), DP)
                    st = _lin(w[0], env) if w else None
                    stv = None if st is None else (st[0] * k + st[1] if k is not None else (st[1] if st[0] == 0 else None))
                    if stv != nn:
                        ok = False
                        bad.append("[%s] the window loop starts at data[%s]; reference data[%d]" % (label, stv if stv is not None else sym.fmt(Dexpr)[:80], nn))
                elif p.end == "return" and not consumed_all:
                    # returning without reaching the loop: fine only at the saturation guard
                    sat = any(find_all(n(d), lambda x: x[0] == "cpath" and x[1].endswith("::MAX_LEN")) for (_, d, _, _) in p.conds)
                    if not sat:
                        ok = False
                        bad.append("[%s] returns after consuming %d of the input bytes without reaching the window loop" % (label, nn))
                if ok:
                    verified[label] = verified.get(label, 0) + 1
    want = ["tail_len=%d,len=%s" % (tl, k if k is not None else ">=%d" % SYM_FROM) for tl in range(0, T + 1) for k in CASES]
    miss = [w for w in want if not verified.get(w)]
    ctx.instance(r, n_checked)
    ctx.ob(r, ("Generator::update", "prologue-windows"), not bad and not miss and n_checked > 0,
           "; ".join(sorted(set(bad))[:3]) or "cases with no verified path: %s" % miss[:6], cfg=F.key, where=b.where(),
           detail={"cases": len(want), "path_case_pairs_verified": sum(verified.values())})


def step_state(ctx, F):
    """update(a ++ b) == update(a); update(b) needs the loop body to be a step function of (carried state, byte): the checksum and
    the buckets may only be advanced per byte by their own step functions (whose recurrences read nothing but the carried
    state and their operands), never re-seeded or bulk-updated per call."""
    from . import c01
    c01.window(ctx, F, "R-03.8")
    c01.checksum_rec(ctx, F, "R-03.9")
    r = "R-03.10"
    ctx.rule(r, "who may mutate the carried state inside update(): `checksum` only through InnerChecksum::update, `buckets` only through increment, both inside the window loop; `len`/`tail_len`/`tail` by direct stores of update() itself", "N")
    gf = common.generator_fields(F)
    bs = F.method("update", "generate::inner::Generator<")
    ctx.instance(r)
    if len(bs) != 1 or not gf:
        ctx.missing(r, "inner Generator::update", cfg=F.key)
        return
    b = bs[0]
    S = sym.Sym(b)
    paths = S.paths()
    hdrs = {p.blocks[-1] for p in paths if p.end == "loop"}
    allp = list(paths)
    for h in hdrs:
        try:
            allp += S.paths(entry=h)
        except sym.PathLimit:
            pass
    CK = ("field", ("deref", P(1)), gf["checksum"])
    BK = ("field", ("deref", P(1)), gf["buckets"])
    allowed = {"checksum": ("InnerChecksum::update",), "buckets": ("::increment",)}
    bad = set()
    seen = {"checksum": 0, "buckets": 0}
    for p in allp:
        for (bb, path, args, c) in p.calls:
            for nm, fld in (("checksum", CK), ("buckets", BK)):
                for a in args:
                    if _mut_ref_to(a, fld):
                        if path.endswith(allowed[nm]):
                            seen[nm] += 1
                        else:
                            bad.add("%s receives &mut self.%s" % (path.rsplit("::", 2)[-2] + "::" + path.rsplit("::", 1)[-1] if path.count("::") > 1 else path, nm))
        for (bb, pl, v) in p.stores:
            npl = n(pl)
            for nm, fld in (("checksum", CK), ("buckets", BK)):
                if find_all(npl, lambda y: y == fld):
                    bad.add("direct store into self.%s (%s)" % (nm, sym.fmt(npl)[:60]))
    ctx.ob(r, ("Generator::update", "state-mutators"), not bad and all(seen.values()), "; ".join(sorted(bad)[:3]) or "step calls seen %s" % seen, cfg=F.key, where=b.where())


def wrappers(ctx, F):
    r = "R-03.4"
    ctx.rule(r, "generate::Generator<T> forwards update/processed_len/finalize_with_options to self.inner unchanged (only map(T::new) on the result)")
    inner = ("ref", ("field", ("deref", P(1)), 0))
    want = {
        "update": ("call", "generate::public::GeneratorType::update", (inner, P(2))),
        "processed_len": ("call", "generate::public::GeneratorType::processed_len", (inner,)),
    }
    for nm in ("update", "processed_len", "finalize_with_options"):
        bs = F.method(nm, "generate::Generator<", trait="generate::public::GeneratorType")
        ctx.instance(r)
        if len(bs) != 1:
            ctx.missing(r, "outer Generator::" + nm, cfg=F.key)
            continue
        b = bs[0]
        ps = [p for p in sym.Sym(b).paths() if p.end == "return"]
        ok = False
        desc = None
        if len(ps) == 1:
            p = ps[0]
            if nm == "update":
                calls = [n(("call", c[0], c[1], c[2])) for c in p.calls]
                ok = calls == [want["update"]] and not p.stores
                desc = [sym.fmt(c) for c in calls]
            elif nm == "processed_len":
                e = n(p.ret)
                ok = e == want[nm] and not p.stores
                desc = sym.fmt(e)
            else:
                e = n(p.ret)
                m = match(("call", "core::result::Result::<T, E>::map", (("call", "generate::public::GeneratorType::finalize_with_options", (inner, P(2))), ("fn", V("f")))), e)
                ok = bool(m) and m["f"].endswith("ConstrainedFuzzyHashType::new") and not p.stores
                desc = sym.fmt(e)
        ctx.ob(r, ("generate::Generator::" + nm, "forwards"), ok, "outer %s is %s" % (nm, desc), cfg=F.key, where=b.where())
    fb = F.fn("generate::public::GeneratorType::finalize")
    ctx.instance(r)
    if fb is None:
        ctx.missing(r, "GeneratorType::finalize default", cfg=F.key)
    else:
        ps = cmpmodel.ret_paths(fb)
        e = n(ps[0].ret) if len(ps) == 1 else None
        m = match(("call", "generate::public::GeneratorType::finalize_with_options", (P(1), ("ref", ("call", V("d"), ())))), e) if e else None
        ctx.ob(r, ("GeneratorType::finalize", "default-options"), bool(m) and m["d"].endswith(("Default::default", "Default>::default")), "finalize() is %s" % (sym.fmt(e) if e else e), cfg=F.key, where=fb.where())
    db = [x for x in F.bodies if x.name == "default" and (x.d.get("impl") or "").startswith("<generate::GeneratorOptions as core::default::Default>")]
    if db:
        ps = cmpmodel.ret_paths(db[0])
        e = n(ps[0].ret) if len(ps) == 1 else None
        ctx.ob(r, ("GeneratorOptions::default", "new"), e == ("call", "generate::GeneratorOptions::new", ()), "GeneratorOptions::default is %s" % (sym.fmt(e) if e else e), cfg=F.key, trivial=True)
