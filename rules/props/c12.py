"""C12 -- stream and file helpers hash exactly the bytes the reader delivered."""
import re
from .. import sym
from ..norm import n, P, C, V, ANY, match, find_all
from . import cmpmodel, layout

ID = "C12"
CONFIGS = {"quick": ["K0"], "thorough": ["K0", "K8", "K15"]}
META = {
    "explanation": (
        "Static analysis (MIR control-flow paths) of the ~15-line read loop shared by hash_stream*/hash_file*.  "
        "Decided on every cycle of the loop: exactly one Read::read on the caller's reader into the whole scratch "
        "buffer; on Ok(n), n != 0, exactly one update() of the same generator with buffer[0..n] for that n before "
        "the next read; the loop is left only by n == 0 (to a single finalize whose result is returned, generator "
        "errors mapped by From) or by an error exit; an Err whose kind() is Interrupted goes back to read without "
        "touching the generator; every other Err leaves the function as GeneratorOrIOError::IOError(e) with the "
        "same e; no error edge reaches finalize/Ok.  The wrappers create a fresh generator, forward the caller's "
        "reader / open the path (open error -> IOError)."
    ),
    "trusted_base": ["rustc nightly front end", "std::io::Read implementations of the standard library, std::fs::File",
                     "the generator itself (C03: chunking independence)"],
    "assumptions": ["`?` desugaring: Try::branch / FromResidual::from_residual on Result map Err(e) to Err(From::from(e))"],
    "not_decided": ["behaviour of the operating system / File"],
}
TECHNIQUE = 'read-loop protocol rule over the CFG cycles (exact length, same buffer, exits, Interrupted retry), abstract evaluation of the error exit value, wrapper shape rules'
READ = "std::io::Read::read"


def run(ctx, FS):
    for key, F in FS.items():
        if "easy-functions" not in F.features or "std" not in F.features:
            continue
        loop_protocol(ctx, F)
        wrappers(ctx, F)


def is_read(e):
    return e[0] == "call" and e[1] == READ


def loop_protocol(ctx, F, r="R-12.1"):
    ctx.rule(r, "read-loop protocol: one read into the whole buffer; Ok(n>0) -> update(buffer[0..n]); exit only on n==0 or error; "
                "Interrupted retried; other errors -> IOError(e); single finalize")
    bs = [b for b in F.bodies if b.kind == "Fn" and any(engine_path(t) == READ for _, t in b.calls())]
    ctx.instance(r)
    if len(bs) != 1:
        ctx.missing(r, "exactly one function calling <R as Read>::read (found %s)" % [b.path for b in bs], cfg=F.key)
        return
    b = bs[0]
    S = sym.Sym(b)
    first = S.paths()
    loops = [p for p in first if p.end == "loop"]
    if not loops:
        ctx.missing(r, "read loop in %s" % b.path, cfg=F.key)
        return
    hdr = loops[0].blocks[-1]
    pre = [p for p in S.paths(stop_at={hdr}) if p.end == "stop"]
    # (f) scratch buffer
    buf_local = None
    size_ok = False
    if len(pre) == 1:
        for (bb, path, args, c) in pre[0].calls:
            if path == "alloc::vec::from_elem" and len(args) == 2:
                sz = n(args[1])
                size_ok = n(args[0]) == C(0) and sz[0] == "const" and sz[1] > 0
                size = sz[1] if sz[0] == "const" else None
        for l, v in pre[0].env["locals"].items():
            if v[0] == "call" and v[2] == "alloc::vec::from_elem":
                buf_local = l
    bsz = F.const_int("generate_easy_std::BUFFER_SIZE")
    ctx.ob(r, (b.name, "buffer"), size_ok and buf_local is not None and bsz == 1048576 == size,
           "scratch buffer is not vec![0u8; BUFFER_SIZE] with a non-zero constant size (BUFFER_SIZE=%r)" % bsz, cfg=F.key, where=b.where())
    step = S.paths(entry=hdr)
    ctx.instance(r, len(step))
    gen, reader = P(1), P(2)
    buf = ("lv", buf_local)
    bad = []
    have_retry = False
    have_err_exit = False
    have_eof = False
    have_update = False
    for p in step:
        if p.end in ("unreachable", "diverge"):
            # a panicking cycle (slice index on a reader that over-reports, a debug assertion) produces no hash and no
            # error value: it is C17's business, not part of the read/update/finalize protocol
            continue
        reads = [c for c in p.calls if c[1] == READ]
        if len(reads) != 1:
            bad.append("a loop cycle performs %d reads" % len(reads))
            continue
        rd = reads[0]
        a = [n(x) for x in rd[2]]
        whole = a[1] in (("call", "<alloc::vec::Vec<T, A> as core::ops::DerefMut>::deref_mut", (("ref", buf),)),
                         ("ref", buf))
        if a[0] != reader or not whole:
            bad.append("read(%s, %s) is not read(reader, &mut whole buffer)" % (sym.fmt(a[0]), sym.fmt(a[1])))
        rcall = n(("call", rd[0], rd[1], rd[2]))
        # classify by the outcome of the read result
        outcome = None
        nval = None
        err = None
        for (bb, d, taken, vals) in p.conds:
            if taken == "otherwise":
                continue
            name = S.variant(d, taken)
            e = n(d)
            if e == ("discr", rcall):
                outcome = name  # Ok / Err
            elif e == ("discr", ("call", "<core::result::Result<T, E> as core::ops::Try>::branch", (rcall,))):
                outcome = {"Continue": "Ok", "Break": "Err"}.get(name)
        if outcome == "Ok":
            pay = [("field", ("variant", rcall, "Ok"), 0),
                   ("field", ("variant", ("call", "<core::result::Result<T, E> as core::ops::Try>::branch", (rcall,)), "Continue"), 0)]
            zero = None
            for (bb, d, taken, vals) in p.conds:
                e = n(d)
                if e[0] == "bin" and e[1] == "Eq" and C(0) in (e[2], e[3]) and (e[2] in pay or e[3] in pay):
                    zero = (taken == "otherwise") if vals == [0] else bool(taken)
                elif e in pay and vals == [0]:
                    # `Ok(0) => ..` as a literal pattern: a switch on the payload itself
                    zero = taken != "otherwise"
            ups = [c for c in p.calls if c[1].endswith("GeneratorType::update")]
            fins = [c for c in p.calls if c[1].endswith("GeneratorType::finalize") or c[1].endswith("GeneratorType::finalize_with_options")]
            if zero is None:
                bad.append("Ok(n) path does not test n == 0")
            elif zero:
                have_eof = True
                if ups:
                    bad.append("update() called after a zero-length read")
                if len(fins) != 1 or n(fins[0][2][0]) != gen:
                    bad.append("end of stream is not followed by exactly one finalize() of the same generator")
                if p.end == "return":
                    ret = n(p.ret)
                    fin = n(("call", fins[0][0], fins[0][1], fins[0][2])) if fins else None
                    ok_ret = fin is not None and (
                        match(("agg", "adt:core::result::Result::Ok", (V("x"),)), ret) is not None and bool(find_all(ret, lambda x: x == fin))
                        or (ret[0] == "call" and bool(find_all(ret, lambda x: x == fin))))
                    if not ok_ret:
                        bad.append("finalize-result: value returned after finalize is %s" % sym.fmt(ret))
                elif p.end == "loop":
                    bad.append("n == 0 does not leave the loop")
            else:
                if p.end != "loop":
                    bad.append("Ok(n>0) path does not return to the read (%s)" % p.end)
                if fins:
                    bad.append("finalize() inside the loop")
                if len(ups) != 1:
                    bad.append("Ok(n>0) path calls update() %d times" % len(ups))
                else:
                    have_update = True
                    ua = [n(x) for x in ups[0][2]]
                    # the slice handed to update() is buffer[0..n] in any spelling (0..n, ..n, a temporary)
                    w = layout.window(ua[1], buf)
                    okw = w is not None and w[0] == C(0) and w[1] in pay
                    if ua[0] != gen or not okw:
                        bad.append("update-argument: update(%s, %s) is not update(generator, &buffer[0..n]) for the n just read" % (sym.fmt(ua[0]), sym.fmt(ua[1])))
        elif outcome == "Err":
            gcalls = [c for c in p.calls if "GeneratorType::" in c[1]]
            if gcalls:
                bad.append("error-edge-touches-generator: (%s)" % gcalls[0][1])
            epay = [("field", ("variant", rcall, "Err"), 0),
                    ("field", ("variant", ("call", "<core::result::Result<T, E> as core::ops::Try>::branch", (rcall,)), "Break"), 0)]
            # Interrupted test
            intr = None
            for (bb, d, taken, vals) in p.conds:
                e = n(d)
                truth = (taken == "otherwise") if vals == [0] else (bool(taken) if taken != "otherwise" else None)
                if e[0] == "call" and e[1].endswith("PartialEq>::eq") and "ErrorKind" in e[1]:
                    ks = [x for x in e[2] if x[0] == "ref"]
                    kinds = [x[1] for x in ks]
                    is_kind = any(k[0] == "call" and k[1] == "std::io::Error::kind" for k in kinds)
                    is_intr = any(k[0] == "agg" and k[1].endswith("ErrorKind::Interrupted") for k in kinds)
                    if is_kind and is_intr:
                        intr = truth
                elif e[0] == "discr" and e[1][0] == "call" and e[1][1] == "std::io::Error::kind":
                    if taken != "otherwise" and S.variant(d, taken) == "Interrupted":
                        intr = True
                    elif taken == "otherwise" and "Interrupted" in [S.variant(d, v) for v in vals]:
                        intr = False
            if p.end == "loop":
                if intr is True:
                    have_retry = True
                else:
                    bad.append("an error edge returns to the read without being ErrorKind::Interrupted")
            elif p.end == "return":
                if intr is True:
                    bad.append("ErrorKind::Interrupted leaves the function")
                ret = n(p.ret)
                okr = False
                for ep in epay:
                    for w in (("agg", "adt:core::result::Result::Err", (("call", "<T as core::convert::Into<U>>::into", (ep,)),)),
                              ("agg", "adt:core::result::Result::Err", (("call", "core::convert::From::from", (ep,)),)),
                              ("agg", "adt:core::result::Result::Err", (("agg", "adt:errors::GeneratorOrIOError::IOError", (ep,)),)),
                              ("call", "<core::result::Result<T, F> as core::ops::FromResidual<core::result::Result<core::convert::Infallible, E>>>::from_residual",
                               (("field", ("variant", ("call", "<core::result::Result<T, E> as core::ops::Try>::branch", (rcall,)), "Break"), 0),))):
                        if ret == w:
                            okr = True
                    if not okr:
                        # any other spelling: the returned value evaluated with the reader's error as an opaque object
                        from .. import evalx
                        try:
                            got = evalx.ev(S, F, p.ret, {"symbolic": True, "subst": {ep: ("obj", "e")}})
                        except (evalx.Unknown, evalx.Panics):
                            got = None
                        if got == ("Err", ("adt", "errors::GeneratorOrIOError::IOError", ("obj", "e"))):
                            okr = True
                if okr:
                    have_err_exit = True
                else:
                    bad.append("error-exit-value: error exit returns %s; reference Err(IOError(e)) with the reader's e" % sym.fmt(ret))
            else:
                bad.append("error edge ends in %s" % p.end)
        else:
            if p.end not in ("diverge",):
                bad.append("loop cycle does not branch on the read result")
    if not have_retry:
        bad.append("no edge retries the read on ErrorKind::Interrupted (a transient interruption aborts the hash)")
    if not have_err_exit:
        bad.append("no error exit")
    if not have_eof:
        bad.append("no end-of-stream exit")
    if not have_update:
        bad.append("no update on delivered bytes")
    for i, m in enumerate(sorted(set(bad))):
        # key: the message up to its first embedded expression (stable across renumbered locals)
        slug = m.split(": ")[0] if ": " in m[:40] else re.split(r" \(| is | returns ", m)[0].strip()[:60]
        ctx.ob(r, (b.name, "protocol", slug), False, m, cfg=F.key, where=b.where())
    if not bad:
        ctx.ob(r, (b.name, "protocol"), True, "", cfg=F.key, where=b.where(), detail={"cycle_paths": len(step)})
    # From impls
    for src, variant in (("std::io::Error", "IOError"), ("errors::GeneratorError", "GeneratorError")):
        fb = [x for x in F.bodies if x.name == "from" and (x.d.get("impl") or "").startswith("<errors::GeneratorOrIOError as core::convert::From<%s>>" % src)]
        ctx.instance(r)
        if len(fb) != 1:
            ctx.missing(r, "From<%s> for GeneratorOrIOError" % src, cfg=F.key)
            continue
        ps = cmpmodel.ret_paths(fb[0])
        e = n(ps[0].ret) if len(ps) == 1 else None
        ctx.ob(r, ("From<%s>" % src, "variant"), e == ("agg", "adt:errors::GeneratorOrIOError::" + variant, (P(1),)),
               "From<%s> builds %s; reference GeneratorOrIOError::%s(value)" % (src, sym.fmt(e) if e else e, variant), cfg=F.key, where=fb[0].where())


def engine_path(t):
    c = t["callee"]
    return c.get("path")


def wrappers(ctx, F):
    r = "R-12.2"
    ctx.rule(r, "wrappers: fresh generator + caller's reader; File::open(path) error -> IOError; hash_stream/hash_file instantiate Tlsh")
    common_fn = [b for b in F.bodies if b.kind == "Fn" and any(engine_path(t) == READ for _, t in b.calls())]
    if len(common_fn) != 1:
        return
    CF = common_fn[0].path
    NEW = "generate::Generator::<T>::new"
    b = F.fn("generate_easy_std::hash_stream_for")
    ctx.instance(r)
    if b is None:
        ctx.missing(r, "hash_stream_for", cfg=F.key)
    else:
        ps = cmpmodel.ret_paths(b)
        e = n(ps[0].ret) if len(ps) == 1 else None
        m = match(("call", CF, (("ref", V("g")), P(1))), e) if e else None
        ok = False
        if m and m["g"][0] == "lv":
            ds = b.defs().get(m["g"][1], [])
            ok = len(ds) == 1 and ds[0][1] == "term" and ds[0][2]["callee"].get("path") == NEW
        ctx.ob(r, ("hash_stream_for", "fresh-generator+reader"), ok, "hash_stream_for is %s" % (sym.fmt(e) if e else e), cfg=F.key, where=b.where())
    b = F.fn("generate_easy_std::hash_file_for")
    ctx.instance(r)
    if b is None:
        ctx.missing(r, "hash_file_for", cfg=F.key)
    else:
        S = sym.Sym(b)
        rets = [p for p in S.paths() if p.end == "return"]
        openc = ("call", "std::fs::File::open", (P(1),))
        br = ("call", "<core::result::Result<T, E> as core::ops::Try>::branch", (openc,))
        ok_paths = 0
        err_paths = 0
        for p in rets:
            e = n(p.ret)
            errp = ("field", ("variant", openc, "Err"), 0)
            if e == ("call", "<core::result::Result<T, F> as core::ops::FromResidual<core::result::Result<core::convert::Infallible, E>>>::from_residual",
                     (("field", ("variant", br, "Break"), 0),)) or e in (
                    ("agg", "adt:core::result::Result::Err", (("agg", "adt:errors::GeneratorOrIOError::IOError", (errp,)),)),
                    ("agg", "adt:core::result::Result::Err", (("call", "core::convert::From::from", (errp,)),)),
                    ("agg", "adt:core::result::Result::Err", (("call", "<T as core::convert::Into<U>>::into", (errp,)),))):
                # `?` on File::open, or the same written as a match: the open error becomes IOError
                err_paths += 1
                continue
            m = match(("call", CF, (("ref", V("g")), ("ref", V("f")))), e)
            if m and m["g"][0] == "lv" and m["f"][0] == "lv":
                ds = b.defs().get(m["g"][1], [])
                fresh = len(ds) == 1 and ds[0][1] == "term" and (ds[0][2]["callee"].get("path") or "").endswith("Generator::<T>::new")
                fv = p.env["locals"].get(m["f"][1])
                # the file local was mutated by the &mut borrow; its previous value is the Continue payload of open()
                is_file = fv is not None and bool(find_all(n(fv) if fv[0] != "mutated" else n(fv[3]) if len(fv) > 3 and fv[3] else ("x",), lambda x: x in (("field", ("variant", br, "Continue"), 0), ("field", ("variant", openc, "Ok"), 0))))
                if fresh and is_file:
                    ok_paths += 1
        ctx.ob(r, ("hash_file_for", "open-then-common"), ok_paths == 1 and err_paths == 1 and len(rets) == 2,
               "hash_file_for does not have the shape File::open(path)? ; hash_stream_common(&mut Generator::new(), &mut file) (ok paths %d, error paths %d, returns %d)" % (ok_paths, err_paths, len(rets)),
               cfg=F.key, where=b.where())
    for nm, tgt in (("hash_stream", "generate_easy_std::hash_stream_for"), ("hash_file", "generate_easy_std::hash_file_for")):
        b = F.fn("generate_easy_std::" + nm)
        ctx.instance(r)
        if b is None:
            ctx.missing(r, nm, cfg=F.key)
            continue
        ps = cmpmodel.ret_paths(b)
        e = n(ps[0].ret) if len(ps) == 1 else None
        ok = e == ("call", tgt, (P(1),))
        targs = None
        if ok:
            c = [t for _, t in b.calls()][0]["callee"]
            targs = F.tys(c["args"][0]["ty"]) if c["args"] and c["args"][0].get("k") == "ty" else None
            ok = targs == "hash::FuzzyHash<1, 128>"
        ctx.ob(r, (nm, "instantiates-Tlsh"), ok, "%s is %s with type argument %s; reference %s::<Tlsh, _>(arg)" % (nm, sym.fmt(e) if e else e, targs, tgt), cfg=F.key, where=b.where())
    # hash_buf_for: new -> update(buffer) -> finalize
    b = F.fn("generate_easy::hash_buf_for")
    ctx.instance(r)
    if b is None:
        ctx.missing(r, "hash_buf_for", cfg=F.key)
    else:
        ps = [p for p in sym.Sym(b).paths() if p.end == "return"]
        ok = False
        if len(ps) == 1:
            cs = [(c[1], [n(a) for a in c[2]]) for c in ps[0].calls]
            names = [c[0].rsplit("::", 1)[-1] for c in cs]
            ok = names == ["new", "update", "finalize"] and cs[1][1][1] == P(1) and cs[1][1][0] == cs[2][1][0] and cs[1][1][0][0] == "ref"
        ctx.ob(r, ("hash_buf_for", "new-update-finalize"), ok, "hash_buf_for is not Generator::new(); update(buffer); finalize()", cfg=F.key, where=b.where())
