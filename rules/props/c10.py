"""C10 -- published length limits are enforced; permissive options only widen acceptance."""
from .. import sym
from ..norm import n, P, C, V, match, find_all, binop
from . import common, cmpmodel

ID = "C10"
CONFIGS = {"quick": ["K0"], "thorough": ["K0", "K1", "K7"]}
META = {
    "explanation": (
        "Static analysis (MIR + constant evaluator) by decision-table extraction: finalize_with_options, "
        "DataLengthValidity::new/is_err/is_err_on only COMPARE their inputs (enum discriminants, flag tests, "
        "comparisons against constants), so their acyclic paths are enumerated and tabulated over the finite domain "
        "of 32 option settings x 4 validity classes x 2 x 2 data outcomes (512 rows).  On that table it is decided "
        "that the data-length error is returned exactly when the published classification is an error for the mode "
        "and small inputs are not allowed, that too-large is never waived, that moving to any more permissive option "
        "setting never turns Ok into Err and never changes the Ok value expression, that `quarter` implies `half`, "
        "and that dummy quartiles are confined to the q3==0 outcome.  Option values are shown by taint not to flow "
        "into the hash computation.  Published constants are compared by value for all five variants."
    ),
    "trusted_base": ["rustc nightly front end and constant evaluator", "bitflags-generated contains/intersects/set/bitor semantics"],
    "assumptions": ["x86_64 target"],
    "not_decided": [],
}
TECHNIQUE = 'constant value rules, 512-row decision table of finalize (flag non-interference and polarity), who-reads-which-flag rules'


def run(ctx, FS):
    for key, F in FS.items():
        consts(ctx, F)
        classification(ctx, F)
        gate_and_options(ctx, F)


def consts(ctx, F):
    r = "R-10.1"
    ctx.rule(r, "published limits by value: (MIN, MIN_CONSERVATIVE) = (10,10)/(50,128)/(50,128), MAX = 4224281216; generator constants equal them for all five variants")
    lp = F.impl_consts("length::LengthProcessingInfo<", "length::ConstrainedLengthProcessingInfo")
    want = {"length::LengthProcessingInfo<48>": (10, 10), "length::LengthProcessingInfo<128>": (50, 128), "length::LengthProcessingInfo<256>": (50, 128)}
    got = {k: (v.get("MIN"), v.get("MIN_CONSERVATIVE")) for k, v in lp.items()}
    ctx.instance(r, len(lp))
    ctx.ob(r, ("LengthProcessingInfo", "MIN/MIN_CONSERVATIVE"), got == want, "limits per bucket count %s; reference %s" % (got, want), cfg=F.key)
    ctx.ob(r, ("LengthProcessingInfo", "MAX"), all(v.get("MAX") == 4224281216 for v in lp.values()) and len(lp) == 3,
           "MAX per bucket count %s" % {k: v.get("MAX") for k, v in lp.items()}, cfg=F.key)
    for prefix, nm in (("generate::inner::Generator<", "inner"), ("generate::Generator<", "outer")):
        g = F.impl_consts(prefix, "generate::public::GeneratorType")
        ctx.instance(r, len(g))
        bad = {}
        for k, v in g.items():
            nb = None
            for name, (ck, body, buckets, nbytes, nstr) in common.VARIANTS.items():
                if k in ("generate::inner::Generator<%d, %d, %d, %d, %d>" % (ck, body, buckets, nbytes, nstr),
                         "generate::Generator<hash::FuzzyHash<%d, %d>>" % (ck, buckets)):
                    nb = buckets
            w = want.get("length::LengthProcessingInfo<%s>" % nb)
            if w is None or (v.get("MIN"), v.get("MIN_CONSERVATIVE")) != w or v.get("MAX") != 4224281216:
                bad[k] = v
        ctx.ob(r, ("GeneratorType consts", nm), not bad and len(g) == 5,
               "%s generator constants differ from the published limits (or fewer than 5 variants: %d): %s" % (nm, len(g), bad), cfg=F.key)
    ctx.floor(r, 13, "limit constant instances")


def _classification_semantics(F, b):
    from .. import evalx
    evalx.set_target(F)
    lp = F.impl_consts("length::LengthProcessingInfo<", "length::ConstrainedLengthProcessingInfo")
    S = sym.Sym(b)
    paths = S.paths()
    # the function must depend on len only through comparisons with constants
    for p in paths:
        for (_, d, _, _) in p.conds:
            e = n(d)
            if not (e[0] == "bin" and e[1] in ("Lt", "Le", "Eq", "Ne") and P(1) in (e[2], e[3]) and (e[2][0] in ("cpath", "const") or e[3][0] in ("cpath", "const"))):
                return "branches on %s" % sym.fmt(e)[:80]
    for key, cv in sorted(lp.items()):
        mn, mc, mx = cv.get("MIN"), cv.get("MIN_CONSERVATIVE"), cv.get("MAX")
        if None in (mn, mc, mx):
            return "limit constants of %s unknown" % key
        nb = int(key.split("<")[1].rstrip(">"))
        pts = sorted({0, 1, 0xFFFFFFFF} | {c + d for c in (mn, mc, mx) for d in (-1, 0, 1) if 0 <= c + d <= 0xFFFFFFFF})
        for ln in pts:
            asg = {"symbolic": True, "params": {1: ln}, "cparams": {"SIZE_BUCKETS": nb}, "cpath_values": {"MIN": mn, "MIN_CONSERVATIVE": mc, "MAX": mx}}
            try:
                got = evalx.run(S, F, paths, asg)
            except (evalx.Unknown, evalx.Panics) as ex:
                return "cannot evaluate: %s" % ex
            want = "TooSmall" if ln < mn else ("ValidWhenOptimistic" if ln < mc else ("Valid" if ln <= mx else "TooLarge"))
            if got != ("adt", "length::DataLengthValidity::" + want):
                return "%d buckets, len %d: %s; reference %s" % (nb, ln, got, want)
    return None


def classification(ctx, F):
    r = "R-10.2"
    ctx.rule(r, "DataLengthValidity::new is the decision list <MIN TooSmall, <MIN_CONSERVATIVE ValidWhenOptimistic, <=MAX Valid, else TooLarge; is_err/is_err_on tables")
    b = F.fn("length::DataLengthValidity::new")
    ctx.instance(r)
    if b is None:
        ctx.missing(r, "DataLengthValidity::new", cfg=F.key)
        return
    LP = "length::ConstrainedLengthProcessingInfo::"
    c_min = ("bin", "Lt", P(1), ("cpath", LP + "MIN"))
    c_minc = ("bin", "Lt", P(1), ("cpath", LP + "MIN_CONSERVATIVE"))
    c_max = ("bin", "Le", P(1), ("cpath", LP + "MAX"))
    var = lambda v: ("agg", "adt:length::DataLengthValidity::" + v, ())
    want = sorted(repr(x) for x in [
        ([(c_min, True)], var("TooSmall")),
        ([(c_min, False), (c_minc, True)], var("ValidWhenOptimistic")),
        ([(c_min, False), (c_minc, False), (c_max, True)], var("Valid")),
        ([(c_min, False), (c_minc, False), (c_max, False)], var("TooLarge")),
    ])
    got = sorted(repr(x) for x in cmpmodel.decision(b))
    why = None
    if got != want:
        # any other spelling: the function only compares len with constants, so it is decided by evaluating it at every
        # boundary of those constants (c-1, c, c+1) plus the ends of the u32 range, for each bucket count
        why = _classification_semantics(F, b)
    ctx.ob(r, ("DataLengthValidity::new", "decision-list"), why is None,
           "DataLengthValidity::new is not <MIN TooSmall, <MIN_CONSERVATIVE ValidWhenOptimistic, <=MAX Valid, else TooLarge: %s" % why, cfg=F.key, where=b.where())
    # constants are read from LengthProcessingInfo<SIZE_BUCKETS>
    selfs = set()

    def scan(o):
        c = (o or {}).get("const") if isinstance(o, dict) else None
        if c and c.get("k") == "uneval":
            selfs.add(tuple(F.tys(a["ty"]) if a.get("k") == "ty" else str(a.get("n") or a.get("v")) for a in c["args"]))

    for blk in b.blocks:
        for s in blk["stmts"]:
            for k in ("a", "b", "op"):
                scan(s.get(k))
            for o in s.get("ops") or []:
                scan(o)
        t_ = blk["term"]
        for o in (t_.get("args") or []):
            scan(o)
        scan(t_.get("discr"))
    ctx.ob(r, ("DataLengthValidity::new", "constants-of-SIZE_BUCKETS"), selfs == {("length::LengthProcessingInfo<SIZE_BUCKETS>",)},
           "limit constants are taken from %s; reference LengthProcessingInfo<SIZE_BUCKETS>" % sorted(selfs), cfg=F.key, trivial=True)
    tab, err = common.enum_decision(F, "length::DataLengthValidity::is_err_on", {1: "length::DataLengthValidity", 2: "length::DataLengthProcessingMode"})
    ctx.instance(r)
    if tab is None:
        ctx.missing(r, "is_err_on decision table: %s" % err, cfg=F.key)
    else:
        got = {k: (v[1][1] if v[0] == "return" and v[1] and v[1][0] == "const" else v) for k, v in tab.items()}
        want = {}
        for v in ("TooSmall", "ValidWhenOptimistic", "Valid", "TooLarge"):
            for m in ("Optimistic", "Conservative"):
                want[(v, m)] = int(v in ("TooSmall", "TooLarge") or (v == "ValidWhenOptimistic" and m == "Conservative"))
        ctx.ob(r, ("DataLengthValidity::is_err_on", "table"), got == want, "is_err_on table %s; published %s" % (got, want), cfg=F.key)
        ctx.rules[r]["exhaustive"] = True
    tab, err = common.enum_decision(F, "length::DataLengthValidity::is_err", {1: "length::DataLengthValidity"})
    ctx.instance(r)
    if tab is None:
        ctx.missing(r, "is_err decision table: %s" % err, cfg=F.key)
    else:
        got = {k[0]: (v[1][1] if v[0] == "return" and v[1] and v[1][0] == "const" else v) for k, v in tab.items()}
        want = {"TooSmall": 1, "ValidWhenOptimistic": 0, "Valid": 0, "TooLarge": 1}
        ctx.ob(r, ("DataLengthValidity::is_err", "table"), got == want, "is_err table %s; published %s" % (got, want), cfg=F.key)
    dm = [im for im in F.impls if im.get("trait") == "core::default::Default" and F.tys(im["self_ty"]) == "length::DataLengthProcessingMode"]
    # default mode is Optimistic (derive(Default) with #[default]): read the derived body
    db = [x for x in F.bodies if x.name == "default" and x.d.get("impl") == (dm[0]["path"] if dm else None)]
    if db:
        ps = cmpmodel.ret_paths(db[0])
        e = n(ps[0].ret) if len(ps) == 1 else None
        ctx.ob(r, ("DataLengthProcessingMode::default", "Optimistic"), e == ("agg", "adt:length::DataLengthProcessingMode::Optimistic", ()),
               "default mode is %s" % (sym.fmt(e) if e else e), cfg=F.key, trivial=True)


def gate_and_options(ctx, F):
    r3, r4, r5 = "R-10.3", "R-10.4", "R-10.5"
    ctx.rule(r3, "length gate: Err(TooLarge) iff classification TooLarge; Err(TooSmall) iff error for the mode, not TooLarge, small inputs not allowed")
    ctx.rule(r4, "option non-interference: options only reach flag tests; more permissive options never turn Ok into Err nor change the Ok value; quarter implies half")
    ctx.rule(r5, "dummy quartiles only under the q3 == 0 outcome")
    M, err = common.finalize_model(F)
    if M is None:
        ctx.missing(r3, err, cfg=F.key)
        return
    evaluated = common.finalize_table_evaluated(F, M)[0] is not None
    if M.unknown and not evaluated:
        ctx.missing(r4, "unrecognised branch condition in finalize_with_options: %s" % M.unknown[:2], cfg=F.key)
        return
    b = M.body
    # shape of the gate operands
    gates = [e for p in M.paths if p["end"] == "return" for e in p["events"] if e[0] == "len_gate"]
    want_len = ("call", "core::option::Option::<T>::unwrap_or", (("call", V("pl"), (P(1),)), C(0xFFFFFFFF)))
    okg = bool(gates) or evaluated  # with the evaluated table the gate's operands are part of what the table decides
    for g in ([] if evaluated else gates):
        e = g[2]
        m = match(("call", "length::DataLengthValidity::is_err_on", (("ref", V("v")), ("load", ("field", ("deref", P(2)), M.of["mode"])))), e)
        okg = okg and m is not None
    ctx.instance(r3, len(gates))
    ctx.ob(r3, ("finalize", "gate-operands"), okg, "length gate is not is_err_on(&validity, options.length_mode)", cfg=F.key, where=b.where())
    vcall = [c for p in M.paths if p["end"] == "return" for c in p["p"].calls if c[1] == "length::DataLengthValidity::new"]
    okv = bool(vcall) and all(match(want_len, n(c[2][0])) is not None for c in vcall)
    sizes = {tuple(str(a.get("n") or a.get("v")) for a in c[3]["args"]) for c in vcall}
    ctx.ob(r3, ("finalize", "validity-of-fed-length"), okv and sizes == {("SIZE_BUCKETS",)},
           "validity is not DataLengthValidity::new::<SIZE_BUCKETS>(processed_len().unwrap_or(u32::MAX)) (generic args %s)" % sorted(sizes), cfg=F.key, where=b.where())
    rows, err = common.finalize_table(F, M)
    if rows is None:
        ctx.missing(r3, "finalize decision table: %s" % err, cfg=F.key)
        return
    ctx.instance(r3, len(rows))
    ctx.instance(r4, len(rows))
    ctx.rules[r3]["exhaustive"] = True
    ctx.rules[r4]["exhaustive"] = True
    bad3 = []
    for o, d, res in rows:
        too_large = d["validity"] == "TooLarge"
        want_small = d["gate"] and not too_large and not o["small"]
        if (res == ("Err", "TooLargeInput")) != too_large:
            bad3.append((o, d, res))
        elif (res == ("Err", "TooSmallInput")) != want_small:
            bad3.append((o, d, res))
    ctx.ob(r3, ("finalize", "length-gate-table"), not bad3,
           "length gate table deviates (options, data outcomes -> result): %s" % [(o, d, r[:2] if r[0] == "Err" else r[0]) for o, d, r in bad3[:3]],
           cfg=F.key, where=b.where(), detail={"rows": len(rows)})
    # monotonicity
    index = {}
    for o, d, res in rows:
        index[(tuple(sorted(o.items())), tuple(sorted(d.items())))] = res
    bad4 = []
    import itertools
    perm_keys = ("small", "half", "quarter")
    for o, d, res in rows:
        if res[0] != "Ok":
            continue
        for o2, d2, res2 in rows:
            if o2["pure"] != o["pure"] or d2["validity"] != d["validity"] or d2["Z"] != d["Z"] or d2["H"] != d["H"]:
                continue
            if not all(o2[k] >= o[k] for k in perm_keys) or not (o2["cons"] <= o["cons"]):
                continue
            if res2[0] != "Ok" or res2[1] != res[1]:
                bad4.append((o, o2, d, res2[:2] if res2[0] == "Err" else "different Ok value"))
    ctx.ob(r4, ("finalize", "monotone-in-options"), not bad4,
           "a more permissive option setting changes an accepted result: %s" % bad4[:2], cfg=F.key, where=b.where())
    bad_q = []
    for o, d, res in rows:
        if o["quarter"] and not o["half"]:
            o2 = dict(o, half=1)
            res2 = index[(tuple(sorted(o2.items())), tuple(sorted(d.items())))]
            if res2 != res:
                bad_q.append((o, d))
    ctx.ob(r4, ("finalize", "quarter-implies-half"), not bad_q, "with `quarter` set the result depends on `half`: %s" % bad_q[:2], cfg=F.key, where=b.where())
    # too large never waivable
    waived = [(o, d) for o, d, res in rows if d["validity"] == "TooLarge" and res != ("Err", "TooLargeInput")]
    ctx.ob(r4, ("finalize", "too-large-unwaivable"), not waived, "too-large input accepted under %s" % waived[:2], cfg=F.key, where=b.where())
    # taint: option parameter only in flag tests / gate
    leaks = []
    allowed = ("::contains", "::intersects", "::bitor", "DataLengthValidity::is_err_on")
    for p in M.paths:
        if p["end"] != "return":
            continue
        for (bb, path, args, c) in p["p"].calls:
            if path.endswith(allowed):
                continue
            for a in args:
                if find_all(n(a), lambda x: x == P(2)):
                    leaks.append("call %s(%s)" % (path, sym.fmt(a)))
        for (bb, pl, v) in p["p"].stores:
            if find_all(n(v), lambda x: x == P(2)):
                leaks.append("store %s" % sym.fmt(v))
        if p["res"][0] == "Ok" and find_all(p["res"][1], lambda x: x == P(2)):
            leaks.append("Ok value")
        for e in p["events"]:
            if e[0] in ("zero_test", "lt_const") and find_all(e[2], lambda x: x == P(2)):
                leaks.append("data test")
    ctx.ob(r4, ("finalize", "options-do-not-reach-hash"), not leaks, "option values flow into %s" % sorted(set(leaks))[:3], cfg=F.key, where=b.where())
    # R-10.5
    bad5 = []
    n_dummy = 0
    for o, d, res in rows:
        if res[0] == "Ok":
            dummy = not find_all(res[1], lambda x: x[0] == "call" and x[1].endswith("select_nth_unstable"))
            n_dummy += dummy
            if dummy != d["Z"]:
                bad5.append((o, d))
    ctx.instance(r5, n_dummy)
    ctx.ob(r5, ("finalize", "dummy-quartiles-confined"), not bad5 and n_dummy > 0,
           "dummy quartiles are used outside the q3==0 outcome (or never): %s" % bad5[:2], cfg=F.key, where=b.where())
    # setters write the flag they are named after and nothing else (distinct masks)
    st = common.option_setters(F) or {}
    masks = [v for k, v in st.items()]
    ctx.ob(r4, ("GeneratorOptions", "setter-masks-distinct"), len(set(masks)) == len(masks) == 4 and all(bin(m).count("1") == 1 for _, m in masks),
           "option setters use masks %s" % st, cfg=F.key)
    lm = [x for x in F.bodies if x.name == "length_processing_mode" and x.d.get("impl") == "generate::GeneratorOptions"]
    if lm:
        ps = cmpmodel.ret_paths(lm[0])
        ok = len(ps) == 1 and [(n(pl), n(v)) for _, pl, v in ps[0].stores] == [(("field", ("deref", P(1)), M.of["mode"]), P(2))]
        ctx.ob(r4, ("GeneratorOptions::length_processing_mode", "stores-mode"), ok, "length_processing_mode does not store its argument into the mode field", cfg=F.key)
    nw = F.fn("generate::GeneratorOptions::new")
    if nw is not None:
        ps = cmpmodel.ret_paths(nw)
        e = n(ps[0].ret) if len(ps) == 1 else None
        ok = e is not None and e[0] == "agg" and all(x[0] == "call" and (x[1].endswith("::empty") or x[1].endswith(("Default::default", "Default>::default"))) for x in e[2])
        ctx.ob(r4, ("GeneratorOptions::new", "all-clear"), ok, "GeneratorOptions::new() is %s; reference default mode + empty flag sets" % (sym.fmt(e) if e else e), cfg=F.key)
