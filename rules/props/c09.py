"""C09 -- length code is a monotone bucketing of the input length, consistent with range()."""
from .. import engine, sym, tables
from ..norm import n, P, C, V, ANY, match, call, binop, idx, table
from . import common, cmpmodel

ID = "C09"
CONFIGS = {"quick": ["K0", "K21"], "thorough": ["K0", "K1", "K9", "K17", "K19", "K21"]}
META = {
    "explanation": (
        "Static analysis (MIR + constant evaluator).  The 170-entry length table is compared by value with the "
        "reference, re-derived exactly for codes 0..21, and checked to be strictly increasing (hence codes are "
        "monotone and ranges tile 0..=MAX without gap or overlap).  The leading-zero bracket table is checked, by "
        "interval reasoning over the 170 boundaries, to bracket the global rank of EVERY 32-bit length in each of "
        "the 32 leading-zero classes, so the restricted binary search returns the global answer for all 2^32 inputs "
        "without enumerating them.  The encoder/range/is_valid skeletons (which slice, which arm, which constant, "
        "the +1) are checked as shapes."
    ),
    "trusted_base": ["rustc nightly front end and constant evaluator", "core::slice::binary_search contract (Ok(i)/Err(i) = index of first element >= key for distinct sorted elements)",
                     "spec/topval.json"],
    "assumptions": ["analysed targets: x86_64 (leading-zeros bracketed search) and riscv64 without Zbb (plain binary search over the whole table); aarch64 and i686 in the thorough tier"],
    "not_decided": [],
}
TECHNIQUE = 'table value rules against the reference, exhaustive evaluation of range()/is_valid/TryFrom over all codes and bracket boundaries, encoder skeleton path rules per target'
TOP = table("length::TOP_VALUE_BY_ENCODING")
IDX = table("length::ENCODED_INDICES_BY_LEADING_ZEROS")


def run(ctx, FS):
    for key, F in FS.items():
        r = "R-09.1"
        ctx.rule(r, "length table == reference, strictly increasing, 170 entries, MAX == T[169] == 4224281216")
        T = tables.topval_table(ctx, r, F)
        ctx.rules[r]["exhaustive"] = True
        r = "R-09.2"
        ctx.rule(r, "clz bracket table: for every leading-zero class the slice T[I[c+1]..I[c]] brackets the global rank of every length in the class")
        bracketed = "length::ENCODED_INDICES_BY_LEADING_ZEROS" in F.consts
        if bracketed:
            tables.clz_table(ctx, r, F, T)
        else:
            # architectures without a cheap leading_zeros (e.g. riscv64 without Zbb): no bracket table, whole-table search (R-09.3)
            ctx.instance(r)
            ctx.ob(r, ("clz-table", "absent-on-this-architecture"), engine.target_of(F.key).split("-")[0] not in ("x86_64", "i686", "aarch64", "arm", "wasm32"),
                   "the leading-zeros bracket table is not compiled for target %s, which the source lists as having it" % engine.target_of(F.key), cfg=F.key)
        ctx.rules[r]["exhaustive"] = True
        r = "R-09.3"
        ctx.rule(r, "encoder skeleton: 0 -> Some(0); len > MAX -> None; search T[I[clz+1]..I[clz]]; both arms bottom+i; TryFrom maps None to LengthIsTooLarge", "N")
        encoder(ctx, r, F, T)
        r = "R-09.4"
        ctx.rule(r, "is_valid <=> value < 170; range: None iff value >= 170, 0..=T[0] for 0, T[v-1]+1..=T[v] otherwise")
        range_rule(ctx, r, F)
        r = "R-09.5"
        ctx.rule(r, "a finalized hash carries LengthEncoding::new(processed_len().unwrap_or(u32::MAX))", "N")
        common.finalize_length_source(ctx, F, r)
        # ... and that number is what update() counted: checked conversion of each piece length, saturating at MAX_LEN (shared with C11)
        from . import c11
        c11.guards(ctx, F, "R-09.6")
        # the stream / file helpers feed every delivered byte (else their hashes carry the code of a prefix): C12's read-loop protocol
        if F.fn("generate_easy_std::hash_stream_common") is not None:
            from . import c12
            c12.loop_protocol(ctx, F, "R-09.7")


def encoder(ctx, r, F, T):
    b = F.fn("length::FuzzyHashLengthEncoding::new")
    ctx.instance(r)
    if b is None:
        ctx.missing(r, "FuzzyHashLengthEncoding::new", cfg=F.key)
        return
    why = _encoder_semantics(F, b)
    if why is None or not why.startswith("cannot evaluate"):
        # decided by exact evaluation of the encoder at every boundary of its brackets (any spelling of the search)
        ctx.ob(r, ("LengthEncoding::new", "zero-arm"), why is None, why or "", cfg=F.key, where=b.where(), detail={"engine": "evaluation"})
        ctx.ob(r, ("LengthEncoding::new", "too-large-arm"), why is None, why or "", cfg=F.key, where=b.where())
        mx = F.const_int("length::MAX")
        ctx.ob(r, ("LengthEncoding::new", "MAX-constant"), mx == 4224281216, "length::MAX=%r" % mx, cfg=F.key, trivial=True)
        ctx.ob(r, ("LengthEncoding::new", "search-arms"), why is None,
               "the encoder does not return the smallest code whose top value is >= len: %s" % why, cfg=F.key, where=b.where())
        _try_from_rule(ctx, r, F)
        return
    paths = sym.Sym(b).paths()
    rets = [p for p in paths if p.end == "return"]
    clz = call("core::num::<impl u32>::leading_zeros", P(1))
    bottom = idx(IDX, binop("Add", clz, C(1)))
    top = idx(IDX, clz)
    zero_c = binop("Eq", C(0), P(1))
    big_c = ("bin", "Lt", C(4224281216), P(1))
    bracketed = "length::ENCODED_INDICES_BY_LEADING_ZEROS" in F.consts
    if bracketed:
        slice_ = ("call", "core::array::<impl core::ops::Index<I> for [T; N]>::index",
                  (("ref", TOP), ("agg", "adt:core::ops::Range::Range", (bottom, top))))
    else:
        slice_ = ("call", "core::array::<impl [T; N]>::as_slice", (("ref", TOP),))
    bs = ("call", "core::slice::<impl [T]>::binary_search", (slice_, ("ref", P(1))))
    some = lambda v: ("agg", "adt:core::option::Option::Some", (("agg", "adt:length::FuzzyHashLengthEncoding::FuzzyHashLengthEncoding", (v,)),))
    want = {
        "zero": ([(zero_c, True)], some(C(0))),
        "too-large": ([(zero_c, False), (big_c, True)], ("agg", "adt:core::option::Option::None", ())),
    }
    got = {}
    arms = []
    def _unraw(e):
        # Self::from_raw(v) is the struct literal Self { lvalue: v } (R-06.2 checks from_raw itself)
        if isinstance(e, tuple):
            if len(e) == 3 and e[0] == "call" and e[1] == "length::FuzzyHashLengthEncoding::from_raw" and len(e[2]) == 1:
                return ("agg", "adt:length::FuzzyHashLengthEncoding::FuzzyHashLengthEncoding", (_unraw(e[2][0]),))
            return tuple(_unraw(x) if isinstance(x, tuple) else x for x in e)
        return e

    for p in rets:
        cs = [(n(d), (taken == "otherwise") if vals == [0] else taken) for (_, d, taken, vals) in p.conds]
        ret = _unraw(n(p.ret))
        # the two guards are mutually exclusive (MAX > 0), so their order does not matter
        guards_ = [c for c in cs if c[0] in (zero_c, big_c)]
        if (zero_c, True) in cs and all(c in ((zero_c, True), (big_c, False)) for c in cs):
            got["zero"] = ret == want["zero"][1]
        elif (big_c, True) in cs and all(c in ((big_c, True), (zero_c, False)) for c in cs):
            got["too-large"] = ret == want["too-large"][1]
        else:
            if sorted(map(repr, guards_)) != sorted(map(repr, [(zero_c, False), (big_c, False)])):
                got["arms-unguarded"] = True
            arms.append(([c for c in cs if c[0] not in (zero_c, big_c)], ret))
    ctx.ob(r, ("LengthEncoding::new", "zero-arm"), got.get("zero") is True, "len == 0 does not return Some(code 0)", cfg=F.key, where=b.where())
    ctx.ob(r, ("LengthEncoding::new", "too-large-arm"), got.get("too-large") is True,
           "`len > MAX -> None` (strict, MAX=4224281216) is missing", cfg=F.key, where=b.where())
    mx = F.const_int("length::MAX")
    ctx.ob(r, ("LengthEncoding::new", "MAX-constant"), mx == 4224281216 and (T is None or T[-1] == mx), "length::MAX=%r" % mx, cfg=F.key, trivial=True)
    # the two search arms
    ok = len(arms) == 2 and not got.get("arms-unguarded")
    msgs = [] if not got.get("arms-unguarded") else ["a search arm is not guarded by both len != 0 and len <= MAX"]
    seen = set()
    for cs, ret in arms:
        core = [c for c in cs if c[0][0] == "discr"]
        if len(core) != 1 or core[0][0] != ("discr", bs):
            ok = False
            msgs.append("search is %s" % ([sym.fmt(c[0]) for c in core]))
            continue
        arm = {0: "Ok", 1: "Err"}.get(core[0][1])
        seen.add(arm)
        found = ("field", ("variant", bs, arm), 0)
        want_ret = some(binop("Add", bottom, found) if bracketed else found)
        if ret != want_ret:
            ok = False
            msgs.append("arm %s returns %s" % (arm, sym.fmt(ret)))
    if seen != {"Ok", "Err"}:
        ok = False
    ctx.ob(r, ("LengthEncoding::new", "search-arms"), ok,
           ("the clz-restricted search does not have the reference shape bottom + binary_search(T[I[clz+1]..I[clz]], len) on both arms: %s" if bracketed else
            "the whole-table search does not have the reference shape binary_search(T, len) -> i on both arms: %s") % msgs,
           cfg=F.key, where=b.where())
    _try_from_rule(ctx, r, F)


def range_rule(ctx, r, F):
    b = F.fn("length::FuzzyHashLengthEncoding::is_valid")
    ctx.instance(r)
    lv = ("load", ("field", ("deref", P(1)), 0))
    if b is None:
        ctx.missing(r, "is_valid", cfg=F.key)
    else:
        ps = cmpmodel.ret_paths(b)
        got = n(ps[0].ret) if len(ps) == 1 else None
        ok_ = got == ("bin", "Lt", lv, C(170))
        why_ = "is_valid is %s" % (sym.fmt(got) if got else got)
        if not ok_:
            # any other spelling: the predicate evaluated on all 256 codes
            from .. import evalx
            from .c17 import table_values
            evalx.set_target(F)
            S_ = sym.Sym(b)
            try:
                wrong = []
                for v_ in range(256):
                    r_ = evalx.run(S_, F, S_.paths(), {"symbolic": True, "params": {1: ("obj", "self")}, "fields": {("fld", ("obj", "self"), 0): v_}}, lambda t_: table_values(F, t_))
                    if r_ != int(v_ < 170):
                        wrong.append(v_)
                ok_ = not wrong
                why_ = "is_valid is wrong for codes %s" % wrong[:5]
            except (evalx.Unknown, evalx.Panics) as ex:
                why_ += " (cannot evaluate: %s)" % ex
        ctx.ob(r, ("LengthEncoding::is_valid", "lt-170"), ok_, "%s; reference value < 170" % why_, cfg=F.key, where=b.where())
    b = F.fn("length::FuzzyHashLengthEncoding::range")
    ctx.instance(r)
    if b is None:
        ctx.missing(r, "range", cfg=F.key)
        return
    RI = "core::ops::RangeInclusive::<Idx>::new"
    some = lambda v: ("agg", "adt:core::option::Option::Some", (v,))
    zero = binop("Eq", C(0), lv)
    big = ("bin", "Le", C(170), lv)
    want = sorted(repr(x) for x in [
        ([(zero, True)], some(call(RI, C(0), idx(TOP, C(0))))),
        ([(zero, False), (big, True)], ("agg", "adt:core::option::Option::None", ())),
        ([(zero, False), (big, False)], some(call(RI, binop("Add", C(1), idx(TOP, ("bin", "Sub", lv, C(1)))), idx(TOP, lv)))),
    ])
    got = sorted(repr(x) for x in cmpmodel.decision(b))
    why = None
    if got != want:
        # any other spelling: decide range() on all 256 codes
        why = _range_semantics(F, b)
    ctx.ob(r, ("LengthEncoding::range", "shape"), why is None,
           "range() is not (0 -> 0..=T[0]; v>=170 -> None; else T[v-1]+1..=T[v]) on all 256 codes: %s" % why, cfg=F.key, where=b.where())


def _encoder_semantics(F, b):
    """None if FuzzyHashLengthEncoding::new(len) == Some(smallest i with TOP[i] >= len) for len <= MAX and None above, evaluated
    exactly (evalx; tables from the compiler's constant evaluation; binary_search / partition_point / leading_zeros computed) at
    len in {0, 1, T[i]-1, T[i], T[i]+1 for every table entry, MAX+1, 2^31, 2^32-1}: the encoder compares len only with table
    entries and powers of two, so it is constant between these points.  Else a description."""
    from .. import evalx
    from .c17 import table_values
    T = table_values(F, "length::TOP_VALUE_BY_ENCODING")
    if not T:
        return "cannot evaluate: TOP_VALUE_BY_ENCODING"
    S = sym.Sym(b)
    try:
        paths = S.paths()
    except sym.PathLimit:
        return "cannot evaluate: too many paths"
    if any(p.end == "loop" for p in paths):
        return "cannot evaluate: loop"
    evalx.set_target(F)
    cache = {}

    def tabs(path):
        if path not in cache:
            cache[path] = table_values(F, path)
        return cache[path]

    def tview(v):
        if isinstance(v, tuple) and v[:1] == ("tab",):
            arr = tabs(v[1])
            return (v[1], 0, len(arr)) if arr else None
        if isinstance(v, tuple) and v[:1] == ("tabview",):
            return v[1:]
        return None

    def index(v, r_):
        tv = tview(v)
        if tv is None:
            raise evalx.Unknown("index of %r" % (v,))
        if isinstance(r_, int):
            arr = tabs(tv[0])
            if not (0 <= r_ < tv[2] - tv[1]):
                raise evalx.Panics("index %d out of range" % r_)
            return arr[tv[1] + r_]
        if isinstance(r_, tuple) and r_[:1] == ("adt",) and r_[1].endswith("Range::Range") and all(isinstance(x, int) for x in r_[2:]):
            lo, hi = r_[2], r_[3]
            if not (0 <= lo <= hi <= tv[2] - tv[1]):
                raise evalx.Panics("range %d..%d out of range" % (lo, hi))
            return ("tabview", tv[0], tv[1] + lo, tv[1] + hi)
        raise evalx.Unknown("index by %r" % (r_,))

    def bsearch(v, key):
        tv = tview(v)
        if tv is None or not isinstance(key, int):
            raise evalx.Unknown("binary_search(%r, %r)" % (v, key))
        arr = tabs(tv[0])[tv[1]:tv[2]]
        import bisect
        i_ = bisect.bisect_left(arr, key)
        return ("Ok", i_) if i_ < len(arr) and arr[i_] == key else ("Err", i_)
    for ln in sorted({0, 1, 2, T[-1] + 1, 1 << 31, (1 << 32) - 1} | {t + d for t in T for d in (-1, 0, 1) if 0 <= t + d < (1 << 32)}):
        def ppoint(v, cl, ln=ln):
            tv = tview(v)
            if tv is None or not (isinstance(cl, tuple) and cl[:1] == ("closure",)):
                raise evalx.Unknown("partition_point(%r)" % (v,))
            cb_ = F.fn(cl[1])
            S3 = sym.Sym(cb_)
            arr = tabs(tv[0])[tv[1]:tv[2]]
            k_ = 0
            for x_ in arr:
                if not evalx.run(S3, F, S3.paths(), {"symbolic": True, "params": {1: cl[2], 2: x_}}, tabs):
                    break
                k_ += 1
            return k_
        asg = {"symbolic": True, "params": {1: ln},
               "calls": {"::index": index, "core::slice::<impl [T]>::binary_search": bsearch, "core::slice::<impl [T]>::partition_point": ppoint,
                         "::as_slice": lambda v: v,
                         "core::num::<impl u32>::leading_zeros": lambda x: 32 - x.bit_length() if isinstance(x, int) else (_ for _ in ()).throw(evalx.Unknown("leading_zeros")),
                         "core::slice::<impl [T]>::len": lambda v: (tview(v)[2] - tview(v)[1]) if tview(v) else (_ for _ in ()).throw(evalx.Unknown("len"))}}
        try:
            got = evalx.run(S, F, paths, asg, tabs)
        except evalx.Panics as ex:
            return "new(%d) panics (%s)" % (ln, ex)
        except evalx.Unknown as ex:
            return "cannot evaluate: %s" % ex
        import bisect
        want = ("None",) if ln > T[-1] else bisect.bisect_left(T, ln)
        code = None
        if isinstance(got, tuple) and got[:1] == ("Some",) and isinstance(got[1], tuple) and got[1][:1] == ("adt",) and len(got[1]) == 3:
            code = got[1][2]
        if want == ("None",):
            if got != ("None",):
                return "new(%d) returns %r; reference None (len > MAX)" % (ln, got)
        elif code != want:
            return "new(%d) returns %r; reference Some(code %d)" % (ln, got, want)
    return None


def _try_from_rule(ctx, r, F):
    tb = [x for x in F.bodies if x.name == "try_from" and x.d.get("impl", "").startswith("<length::FuzzyHashLengthEncoding as")]
    ctx.instance(r)
    if len(tb) != 1:
        ctx.missing(r, "TryFrom<u32> for FuzzyHashLengthEncoding", cfg=F.key)
    else:
        ps = cmpmodel.ret_paths(tb[0])
        got = n(ps[0].ret) if len(ps) == 1 else None
        want = ("call", "core::option::Option::<T>::ok_or", (("call", "length::FuzzyHashLengthEncoding::new", (P(1),)), ("agg", "adt:errors::ParseError::LengthIsTooLarge", ())))
        okm = got == want
        if not okm:
            # any other spelling: new(len) = Some(v) -> Ok(v); None -> Err(LengthIsTooLarge)
            from .. import evalx
            S2 = sym.Sym(tb[0])
            okm = True
            for res, wantv in ((("Some", "V"), ("Ok", "V")), (("None",), ("Err", ("adt", "errors::ParseError::LengthIsTooLarge")))):
                try:
                    gv = evalx.run(S2, F, S2.paths(), {"symbolic": True, "params": {1: "LEN"}, "no_inline": True,
                                                        "calls": {"length::FuzzyHashLengthEncoding::new": lambda a, res=res: res}})
                except (evalx.Unknown, evalx.Panics):
                    gv = None
                if gv != wantv:
                    okm = False
        ctx.ob(r, ("TryFrom<u32>", "maps-none"), okm, "TryFrom<u32> is %s; reference new(len).ok_or(LengthIsTooLarge)" % (sym.fmt(got) if got else got), cfg=F.key, where=tb[0].where())


def _range_semantics(F, b):
    from .. import evalx
    evalx.set_target(F)
    T = F.const_array("length::TOP_VALUE_BY_ENCODING", 4)
    if not T:
        return "length table not found"
    tabs = lambda path: T if path == "length::TOP_VALUE_BY_ENCODING" else None
    S = sym.Sym(b)
    paths = S.paths()
    for v in range(256):
        asg = {"symbolic": True, "params": {1: ("obj", "self")}, "fields": {("fld", ("obj", "self"), 0): v}}
        try:
            got = evalx.run(S, F, paths, asg, tabs)
        except evalx.Panics as ex:
            got = "panic (%s)" % ex
        except evalx.Unknown as ex:
            return "cannot evaluate: %s" % ex
        if v >= len(T):
            want = [("None",)]
        else:
            lo, hi = (0 if v == 0 else T[v - 1] + 1), T[v]
            want = [("Some", ("app", "core::ops::RangeInclusive::<Idx>::new", (lo, hi))), ("Some", ("adt", "core::ops::RangeInclusive", lo, hi, 0))]
        if got not in want:
            return "range() of code %d is %s; reference %s" % (v, got, want[0])
    return None
