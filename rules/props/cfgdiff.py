"""Structural comparison of function bodies across build configurations."""
import hashlib
import json


def body_sig(F, b):
    """Hash of the MIR of b with type ids replaced by type strings and source locations dropped."""
    def norm(x):
        if isinstance(x, dict):
            out = {}
            for k, v in x.items():
                if k in ("loc", "fn_loc"):
                    continue
                if k in ("ty", "discr_ty", "elem", "to", "self_ty", "impl_self", "fty") and isinstance(v, int):
                    out[k] = F.tys(v)
                else:
                    out[k] = norm(v)
            return out
        if isinstance(x, list):
            return [norm(v) for v in x]
        return x
    if b.mir is None:
        return None
    m = {"blocks": norm(b.mir["blocks"]), "locals": [F.tys(l["ty"]) for l in b.mir["locals"]], "args": b.mir["arg_count"],
         "promoted": norm(b.d.get("promoted") or [])}
    return hashlib.sha256(json.dumps(m, sort_keys=True).encode()).hexdigest()[:16]


def sigs(F):
    out = {}
    for b in F.bodies:
        if b.kind in ("Fn", "AssocFn", "Closure"):
            out.setdefault(b.path, []).append(body_sig(F, b))
    return {k: tuple(sorted(v)) for k, v in out.items()}
