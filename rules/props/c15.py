"""C15 -- strict parser rejects exactly impossible hashes; generated hashes always pass."""
from .. import sym, tables
from ..norm import n, P, C, V, ANY, match, find_all, binop
from . import layout, common, cmpmodel, c05, c09

ID = "C15"
CONFIGS = {"quick": ["K0", "K7", "K9", "K11"], "thorough": ["K0", "K7", "K9", "K11", "K12", "K16", "K1", "K2", "K19", "K21"]}
META = {
    "explanation": (
        "Static analysis (MIR paths, resolved callees per instantiation, constant evaluator).  In the strict "
        "configuration every Ok path of from_str_bytes and of TryFrom<&[u8;N]> passes the true edge of is_valid() on the "
        "just-decoded checksum and on the just-decoded length code (must-pass-through, receivers = the values that become "
        "the Ok fields), the false edges return InvalidChecksum / LengthIsTooLarge, and after erasing those two gates the "
        "strict and lenient path tables coincide (so nothing else is newly rejected and accepted inputs yield the lenient "
        "value); the lenient configuration contains neither gate.  The validity predicates are `code < 170` and, resolved "
        "per variant, `checksum <= 48` for (1 byte, 48 buckets) and constant true otherwise.  The generator cannot emit an "
        "invalid part: the 48-bucket checksum byte is always an element of the 48-fold table (max 48 by value), the length "
        "code is bottom+i <= 169 by the bracket table, and finalize copies the checksum unchanged.  R-15.4 (who may construct): "
        "the raw constructors of the hash, the checksum part and the length part are not reachable from outside the crate and "
        "are used only by the two gated parsers, the part decoders and the generator (or private helpers all of whose callers "
        "are those) -- so no other entry point, e.g. a serde visitor, can build a hash around the strict gates."
        "  The strict gates of both parsers are decided by abstract evaluation (rmodel, DESIGN 9.5) over all validity/outcome combinations, with the path rules above as fallback."
    ),
    "trusted_base": ["rustc nightly front end, Instance resolution and constant evaluator", "core::slice::binary_search returns an index <= slice length"],
    "assumptions": [],
    "not_decided": [],
}
TECHNIQUE = 'abstract evaluation of the strict gates in both parsers (all validity/outcome combinations), exhaustive evaluation of the validity predicates, who-may-construct rule over the call graph, generator value-range rules'
PE = c05.PE


def run(ctx, FS):
    r1, r2, r3 = "R-15.1", "R-15.2", "R-15.3"
    ctx.rule(r1, "strict = lenient + two validity gates on every Ok path (text and binary); gates return InvalidChecksum / LengthIsTooLarge; lenient has neither")
    ctx.rule(r2, "validity predicates: length code < 170; checksum <= 48 only for (1-byte, 48 buckets), constant true otherwise")
    ctx.rule(r3, "the generator can only emit a valid checksum and a length code <= 169")
    sig = {}
    for key, F in FS.items():
        strict = "strict-parser" in F.features
        sig[key] = text_gates(ctx, r1, F, strict)
        binary_gates(ctx, r1, F, strict)
        predicates(ctx, r2, F)
        generator(ctx, r3, F)
        constructors(ctx, F)
    lenient = [k for k in sig if sig[k] is not None and "strict-parser" not in FS[k].features and "serde" not in FS[k].features]
    stricts = [k for k in sig if sig[k] is not None and "strict-parser" in FS[k].features]
    for ks in stricts:
        for kl in lenient[:1]:
            same = sig[ks] == sig[kl]
            ctx.ob(r1, ("from_str_bytes", "strict-minus-gates==lenient"), same,
                   "after erasing the validity gates the strict (%s) and lenient (%s) parsers differ: %s" % (ks, kl, sorted(set(sig[ks]) ^ set(sig[kl]))[:3]), cfg=ks)


# who may build a hash (or a checksum / length part) without going through the validity gates: frozen from the pinned tree,
# one reason per entry.  Keys are matched on the path with generic arguments removed.
UNCHECKED = {
    "hash::inner::FuzzyHash::from_raw": {
        "generate::inner::Generator::finalize_with_options": "parts come from the generator (R-15.3: always valid)",
        "hash::inner::FuzzyHash::try_from": "binary parser; its strict gates on the decoded parts are R-15.1",
        "hash::inner::FuzzyHash::from_str_bytes": "text parser; its strict gates on the decoded parts are R-15.1",
    },
    "length::FuzzyHashLengthEncoding::from_raw": {
        "hash::inner::FuzzyHash::try_from": "binary parser; its strict gate on the decoded value is R-15.1",
        "length::FuzzyHashLengthEncoding::from_str_bytes": "text part decoder; the caller's strict gate on the decoded value is R-15.1",
        "length::FuzzyHashLengthEncoding::new": "the encoder itself: R-09.2/R-15.3 decide that the code it produces is <= 169",
    },
    "hash::checksum::FuzzyHashChecksumData::from_raw": {
        "hash::inner::FuzzyHash::try_from": "binary parser; its strict gate on the decoded value is R-15.1",
        "hash::checksum::FuzzyHashChecksumData::new": "the all-zero initial checksum (0 <= 48: valid in every variant)",
    },
}
LITERALS = {
    "hash::inner::FuzzyHash": {"hash::inner::FuzzyHash::try_from", "hash::inner::FuzzyHash::from_str_bytes", "hash::inner::FuzzyHash::from_raw"},
    "length::FuzzyHashLengthEncoding": {"length::FuzzyHashLengthEncoding::from_raw", "length::FuzzyHashLengthEncoding::new",
                                        "length::FuzzyHashLengthEncoding::from_str_bytes"},
    "hash::checksum::FuzzyHashChecksumData": {"hash::checksum::FuzzyHashChecksumData::from_raw", "hash::checksum::FuzzyHashChecksumData::from_str_bytes",
                                              "hash::checksum::FuzzyHashChecksumData::new"},
}


def _plain(path):
    """path with generic argument lists, `<T as Trait>` wrappers and closure suffixes removed: the defining item"""
    import re
    p = path
    while True:
        q = re.sub(r"::\{closure#\d+\}$", "", p)
        if q == p:
            break
        p = q
    m = re.match(r"^<(.+) as (.+)>::(\w+)$", p)
    if m:
        p = m.group(1) + "::" + m.group(3)
    out, depth = [], 0
    for ch in p:
        if ch == "<":
            depth += 1
        elif ch == ">":
            depth -= 1
        elif depth == 0:
            out.append(ch)
    return "".join(out).replace("::::", "::")


def constructors(ctx, F):
    r = "R-15.4"
    ctx.rule(r, "who may build a hash, a checksum part or a length part from unchecked raw values: only the two parsers (whose strict gates R-15.1 decides), "
                "the part decoders they call, and the generator; the raw constructors are not reachable from outside the crate -- so no other entry point "
                "(a serde visitor, a helper) can bypass the strict gates")
    from .. import callgraph
    G = callgraph.CallGraph(F)
    seen = 0
    for tgt, allowed in UNCHECKED.items():
        nodes = [p for p in G.nodes if _plain(p) == tgt]
        ctx.instance(r)
        if not nodes:
            ctx.missing(r, "raw constructor %s" % tgt, cfg=F.key)
            continue
        for p in nodes:
            bd = G.nodes[p]
            ctx.ob(r, (tgt, "not-exported"), not bd.d.get("reachable"), "%s is reachable from outside the crate (effective visibility)" % tgt, cfg=F.key, where=bd.where())
        users = sorted({_plain(s_) for s_, ds in G.edges.items() if any(d in ds for d in nodes)} - {tgt})
        seen += len(users)

        def ok(u, depth=0, stack=()):
            # an allowed user, or a private helper all of whose callers are (transitively) allowed users
            if u in allowed:
                return True
            if depth > 4 or u in stack:
                return False
            unodes = [p_ for p_ in G.nodes if _plain(p_) == u]
            if not unodes or any(G.nodes[p_].d.get("reachable") or " as " in p_ for p_ in unodes):
                return False  # exported, or a trait method (callable through the trait from anywhere)
            callers = {_plain(s_) for s_, ds in G.edges.items() if any(d in ds for d in unodes)} - {u}
            return bool(callers) and all(ok(c_, depth + 1, stack + (u,)) for c_ in callers)
        extra = [u for u in users if not ok(u)]
        ctx.ob(r, (tgt, "users"), not extra, "%s is also used by %s; reference users %s" % (tgt, extra, sorted(allowed)), cfg=F.key, detail={"users": users})
    for adt, allowed in LITERALS.items():
        users = set()
        for b in F.bodies:
            if not b.mir:
                continue
            for blk in b.blocks:
                for s_ in blk["stmts"]:
                    if s_.get("rv") == "agg" and s_.get("agg") == "adt" and s_.get("path") == adt:
                        users.add(_plain(b.path))
        ctx.instance(r)
        seen += len(users)
        extra = sorted(users - allowed)
        ctx.ob(r, (adt, "struct-literal-sites"), not extra and bool(users), "%s { .. } is built in %s; reference only %s" % (adt, extra or "no function", sorted(allowed)), cfg=F.key, detail={"sites": sorted(users)})
    ctx.floor(r, 6, "users of the raw constructors + struct-literal sites")


def text_gates(ctx, r, F, strict):
    RM = layout.text_reader_evaluated(F)
    if RM is not None:
        # decided by abstract evaluation of the parser: accepted exactly when the lenient conditions hold and (strict) both decoded
        # parts are valid; InvalidChecksum / LengthIsTooLarge only when they apply, and exactly that error when it is the only reason
        ctx.instance(r, RM["evaluations"])
        ctx.ob(r, ("from_str_bytes", "strict-gates" if strict else "lenient-has-no-gate"), not RM["bad"], "; ".join(RM["bad"][:3]), cfg=F.key,
               where=RM["body"].where(), detail={"evaluations": RM["evaluations"], "engine": "evaluation"})
        return ["decided by evaluation"]
    R, err = layout.text_reader(F)
    ctx.instance(r)
    if R is None:
        ctx.missing(r, err, cfg=F.key)
        return None
    hf = common.hash_fields(F)
    bad = []
    nok = 0
    gates_seen = 0
    sig = []
    for rec in R["paths"]:
        ret = rec["ret"]
        gates = [ev for ev in rec["events"] if ev[0] == "is_valid"]
        gates_seen += len(gates)
        # signature without gates, for the strict/lenient comparison
        if not (ret in (PE("InvalidChecksum"), PE("LengthIsTooLarge"))):
            sig.append(repr((rec["requested"], [(t[0], t[1], t[2]) for t in rec["len_tests"]], rec["prefix_test"][1] if rec["prefix_test"] else None,
                             [(ev[1], ev[2]) for ev in rec["events"] if ev[0] == "decode"], ret)))
        if not strict:
            continue
        if ret[0] == "agg" and ret[1].endswith("Result::Ok"):
            nok += 1
            okv = ret[2][0]
            want = {"checksum": "hash::checksum::FuzzyHashChecksum::is_valid", "lvalue": "length::FuzzyHashLengthEncoding::is_valid"}
            for fld, fn in want.items():
                g = [ev for ev in gates if ev[1] == fn]
                if len(g) != 1 or g[0][2] is not True:
                    bad.append("Ok path does not pass the true edge of %s exactly once" % fn.rsplit("::", 2)[-2])
                    continue
                recv = g[0][3]
                recv = recv[1] if recv[0] == "ref" else recv
                if okv[0] != "agg" or okv[2][hf[fld]] != recv:
                    bad.append("%s gate tests %s but the Ok value's %s is %s" % (fld, sym.fmt(recv)[:60], fld, sym.fmt(okv[2][hf[fld]])[:60]))
        elif ret == PE("InvalidChecksum"):
            g = gates[-1] if gates else None
            if not g or g[1] != "hash::checksum::FuzzyHashChecksum::is_valid" or g[2] is not False:
                bad.append("InvalidChecksum is not returned from the false edge of checksum.is_valid()")
        elif ret == PE("LengthIsTooLarge"):
            g = gates[-1] if gates else None
            if not g or g[1] != "length::FuzzyHashLengthEncoding::is_valid" or g[2] is not False:
                bad.append("LengthIsTooLarge is not returned from the false edge of lvalue.is_valid()")
    if strict:
        ctx.ob(r, ("from_str_bytes", "strict-gates"), not bad and nok > 0, "; ".join(sorted(set(bad))[:3]) or "no Ok path", cfg=F.key, where=R["body"].where(), detail={"ok_paths": nok})
    else:
        ctx.ob(r, ("from_str_bytes", "lenient-has-no-gate"), gates_seen == 0, "lenient parser calls is_valid %d times" % gates_seen, cfg=F.key, where=R["body"].where())
    return sorted(sig)


def binary_gates(ctx, r, F, strict):
    RB = layout.binary_reader_evaluated(F)
    if RB is not None:
        ctx.instance(r, RB["evaluations"])
        ctx.ob(r, ("TryFrom<&[u8; N]>", "strict-gates" if strict else "lenient-has-no-gate"), not RB["bad"], "; ".join(RB["bad"][:3]), cfg=F.key,
               where=RB["body"].where(), detail={"evaluations": RB["evaluations"], "engine": "evaluation"})
        return
    arr, slc = layout.binary_reader(F)
    ctx.instance(r)
    if arr is None:
        ctx.missing(r, "TryFrom<&[u8; N]> for inner FuzzyHash", cfg=F.key)
        return
    hf = common.hash_fields(F)
    S = sym.Sym(arr)
    bad = []
    ngates = 0
    nok = 0
    for p in S.paths():
        if p.end != "return":
            continue
        ret = n(p.ret)
        gates = []
        for (bb, d, taken, vals) in p.conds:
            e = n(d)
            if e[0] == "call" and e[1].endswith("::is_valid"):
                gates.append((e[1], (taken == "otherwise") if vals == [0] else bool(taken), e[2][0]))
        ngates += len(gates)
        if not strict:
            continue
        if ret[1].endswith("Result::Ok"):
            nok += 1
            okv = ret[2][0]
            for fld, fn in (("checksum", "hash::checksum::FuzzyHashChecksum::is_valid"), ("lvalue", "length::FuzzyHashLengthEncoding::is_valid")):
                g = [x for x in gates if x[0] == fn]
                if len(g) != 1 or g[0][1] is not True:
                    bad.append("Ok path does not pass %s" % fn)
                    continue
                recv = g[0][2][1] if g[0][2][0] == "ref" else g[0][2]
                if okv[2][hf[fld]] != recv:
                    bad.append("%s gate receiver differs from the Ok field" % fld)
        elif ret == PE("InvalidChecksum"):
            if not gates or gates[-1][0] != "hash::checksum::FuzzyHashChecksum::is_valid" or gates[-1][1]:
                bad.append("InvalidChecksum not from checksum gate")
        elif ret == PE("LengthIsTooLarge"):
            if not gates or gates[-1][0] != "length::FuzzyHashLengthEncoding::is_valid" or gates[-1][1]:
                bad.append("LengthIsTooLarge not from length gate")
        else:
            bad.append("unexpected return %s" % sym.fmt(ret)[:60])
    if strict:
        ctx.ob(r, ("TryFrom<&[u8; N]>", "strict-gates"), not bad and nok == 1, "; ".join(sorted(set(bad))[:3]) or "Ok paths: %d" % nok, cfg=F.key, where=arr.where())
    else:
        ctx.ob(r, ("TryFrom<&[u8; N]>", "lenient-has-no-gate"), ngates == 0, "lenient array conversion calls is_valid %d times" % ngates, cfg=F.key, where=arr.where())


def predicates(ctx, r, F):
    c09.range_rule(ctx, r, F)
    # checksum validity per variant
    got = {}
    for b in F.method("is_valid", "hash::checksum::FuzzyHashChecksumData<", trait="hash::checksum::FuzzyHashChecksum"):
        st = F.tys(b.impl_info()["self_ty"])
        ck = st.split("<")[1].split(",")[0]
        ps = cmpmodel.ret_paths(b)
        e = n(ps[0].ret) if len(ps) == 1 else None
        if ck == "3":
            for m in b.d.get("mono") or [{"self": st}]:
                got[m["self"]] = "true" if e == C(1) else sym.fmt(e) if e else None
            continue
        want = ("call", "hash::checksum::inner::OneByteChecksumChecker::is_valid", (("load", ("index", ("field", ("deref", P(1)), 0), C(0))),))
        for m in b.d.get("mono") or []:
            res = [c["resolved"]["path"] for c in m["calls"]]
            if e != want:
                got[m["self"]] = "unexpected shape %s" % (sym.fmt(e) if e else e)
                continue
            tgt = res[0] if res else "hash::checksum::inner::OneByteChecksumChecker::is_valid"
            tb = F.fn(tgt)
            if tb is None:
                got[m["self"]] = "unresolved " + tgt
                continue
            tp = cmpmodel.ret_paths(tb)
            te = n(tp[0].ret) if len(tp) == 1 else None
            got[m["self"]] = "true" if te == C(1) else ("<=%d" % te[3][1] if te and te[0] == "bin" and te[1] == "Le" and te[2] == P(1) and te[3][0] == "const" else sym.fmt(te) if te else None)
    want = {"hash::checksum::FuzzyHashChecksumData<1, 48>": "<=48", "hash::checksum::FuzzyHashChecksumData<1, 128>": "true", "hash::checksum::FuzzyHashChecksumData<1, 256>": "true",
            "hash::checksum::FuzzyHashChecksumData<3, 128>": "true", "hash::checksum::FuzzyHashChecksumData<3, 256>": "true"}
    ctx.instance(r, len(got))
    ctx.ob(r, ("FuzzyHashChecksum::is_valid", "per-variant"), got == want, "checksum validity per variant %s; reference %s" % (got, want), cfg=F.key)


def generator(ctx, r, F):
    t48 = F.const_array("pearson::SUBST_TABLE_48", 1)
    ctx.instance(r)
    ctx.ob(r, ("SUBST_TABLE_48", "max<=48"), t48 is not None and max(t48) == 48, "max(SUBST_TABLE_48) = %s" % (max(t48) if t48 else None), cfg=F.key)
    # 1-byte checksum update stores a b_mapping result; for 48 buckets b_mapping ends in final_48 -> element of T48
    ok = False
    for b in F.method("update", "hash::checksum::FuzzyHashChecksumData<1", trait="hash::checksum::inner::InnerChecksum"):
        ps = cmpmodel.ret_paths(b)
        if len(ps) == 1 and len(ps[0].stores) == 1:
            v = n(ps[0].stores[0][2])
            ok = v[0] == "call" and v[1] == "buckets::constrained::FuzzyHashBucketMapper::b_mapping"
            # resolved per variant
            for m in b.d.get("mono") or []:
                if m["self"].endswith("<1, 48>"):
                    res = [c["resolved"]["path"] for c in m["calls"]]
                    ok = ok and any("FuzzyHashBucketsInfo<NUM_BUCKETS_SHORT>" in x or "FuzzyHashBucketsInfo<48>" in x for x in res)
    ctx.ob(r, ("InnerChecksum::update<1,48>", "value-from-48-fold-table"), ok, "the 48-bucket 1-byte checksum is not the result of the 48-bucket b_mapping", cfg=F.key)
    b48 = [x for x in F.method("b_mapping", "buckets::constrained::FuzzyHashBucketsInfo<48>")]
    e = None
    if b48:
        ps = cmpmodel.ret_paths(b48[0])
        e = n(ps[0].ret) if len(ps) == 1 else None
    ctx.ob(r, ("FuzzyHashBucketsInfo<48>::b_mapping", "ends-in-final_48"), e is not None and e[0] == "call" and e[1] == "pearson::tlsh_b_mapping_48",
           "48-bucket mapping is %s" % (sym.fmt(e) if e else e), cfg=F.key)
    f48 = F.fn("pearson::tlsh_b_mapping_48")
    e2 = None
    if f48 is not None:
        ps = cmpmodel.ret_paths(f48)
        e2 = n(ps[0].ret) if len(ps) == 1 else None
    ctx.ob(r, ("tlsh_b_mapping_48", "outermost-final_48"), e2 is not None and e2[0] == "call" and e2[1] == "pearson::final_48", "tlsh_b_mapping_48 is %s" % (sym.fmt(e2) if e2 else e2), cfg=F.key)
    fin = F.fn("pearson::final_48")
    e3 = None
    if fin is not None:
        ps = cmpmodel.ret_paths(fin)
        e3 = n(ps[0].ret) if len(ps) == 1 else None
    ctx.ob(r, ("final_48", "element-of-T48"), e3 is not None and e3[0] == "index" and e3[1] == ("table", "pearson::SUBST_TABLE_48"), "final_48 is %s" % (sym.fmt(e3) if e3 else e3), cfg=F.key)
    # length code <= 169
    I = F.const_array("length::ENCODED_INDICES_BY_LEADING_ZEROS", F.usize_bytes)
    T = F.const_array("length::TOP_VALUE_BY_ENCODING", 4)
    if "length::ENCODED_INDICES_BY_LEADING_ZEROS" in F.consts:
        okI = I is not None and T is not None and len(I) == 33 and I[0] == len(T) == 170 and all(I[c] <= 169 for c in range(1, 32))
    else:
        # whole-table search (targets without the bracket table): the rank of len <= MAX == T[169] in a 170-entry table is <= 169
        okI = T is not None and len(T) == 170 and F.const_int("length::MAX") == T[169] and all(T[i] < T[i + 1] for i in range(169))
    ctx.ob(r, ("length code", "<=169"), okI, "bracket table does not bound the code by 169 (I[0]=%s, max I[1..31]=%s)" % (I[0] if I else None, max(I[1:32]) if I else None), cfg=F.key)
    # finalize copies checksum unchanged: Ok value arg 2 == load(self.checksum)
    M, err = common.finalize_model(F)
    if M is None:
        ctx.missing(r, err, cfg=F.key)
        return
    oks = [p for p in M.paths if p["end"] == "return" and p["res"][0] == "Ok"]
    okc = bool(oks) and all(n(p["res"][1])[2][1] == ("load", ("field", ("deref", P(1)), M.gf["checksum"])) for p in oks)
    ctx.ob(r, ("finalize", "checksum-copied-unchanged"), okc, "finalize does not copy self.checksum unchanged into the hash", cfg=F.key, where=M.body.where())
