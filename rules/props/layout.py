"""Slice-window analysis of the (de)serialisation functions of hash::inner::FuzzyHash.

Every read/write on the caller's slice is reduced to a window [start, end) whose bounds are
expressions over the const generic parameters; they are evaluated (constant folding only) for
the five hash variants."""
from .. import sym
from ..norm import n, P, C, V, ANY, match, find_all
from . import common

INDEX_FNS = ("::index", "::index_mut")
# slice methods that only return views / facts of their receiver (they write nothing)
PURE_VIEW_FNS = ("::len", "::split_at", "::split_at_mut", "::is_empty", "::as_ptr", "::get", "::get_mut", "::first", "::last", "::iter")


def variant_envs(F):
    """[(name, env)] with const-parameter and associated-constant values per variant."""
    ic = F.impl_consts("hash::inner::FuzzyHash<", "hash::public::FuzzyHashType")
    out = []
    for name, (ck, body, buckets, nbytes, nstr) in common.VARIANTS.items():
        key = "hash::inner::FuzzyHash<%d, %d, %d, %d, %d>" % (ck, body, buckets, nbytes, nstr)
        consts = ic.get(key)
        if consts is None:
            return None
        env = {"SIZE_CKSUM": ck, "SIZE_BODY": body, "SIZE_BUCKETS": buckets, "SIZE_IN_BYTES": nbytes, "SIZE_IN_STR_BYTES": nstr, "__variant__": name}
        for k, v in consts.items():
            env["assoc:" + k] = v
            env["assoc:hash::public::FuzzyHashType::" + k] = v
        # associated constants of the helper types this variant instantiates (full trait-item paths)
        for prefix, trait, selfs in (
            ("hash::body::FuzzyHashBodyData<", "hash::body::FuzzyHashBody", "hash::body::FuzzyHashBodyData<%d>" % body),
            ("hash::checksum::FuzzyHashChecksumData<", "hash::checksum::FuzzyHashChecksum", "hash::checksum::FuzzyHashChecksumData<%d, %d>" % (ck, buckets)),
            ("buckets::constrained::FuzzyHashBucketsInfo<", "buckets::constrained::FuzzyHashBucketMapper", "buckets::constrained::FuzzyHashBucketsInfo<%d>" % buckets),
            ("length::LengthProcessingInfo<", "length::ConstrainedLengthProcessingInfo", "length::LengthProcessingInfo<%d>" % buckets),
            ("generate::inner::Generator<", None, "generate::inner::Generator<%d, %d, %d, %d, %d>" % (ck, body, buckets, nbytes, nstr)),
            ("generate::inner::Generator<", "generate::public::GeneratorType", "generate::inner::Generator<%d, %d, %d, %d, %d>" % (ck, body, buckets, nbytes, nstr)),
        ):
            cs = F.impl_consts(prefix, trait).get(selfs) or {}
            for k, v in cs.items():
                if v is None:
                    continue
                if trait:
                    env["assoc:%s::%s" % (trait, k)] = v
                env.setdefault("assoc:" + k, v) if trait else env.__setitem__("assoc:" + k, v)
        out.append((name, env))
    return out


def ceval(e, env):
    if e is None:
        return None
    k = e[0]
    if k == "const":
        return e[1]
    if k == "perenv":
        return e[1].get(env.get("__variant__"))  # a per-variant number produced by the evaluation-based writer model
    if k == "cparam":
        return env.get(e[1])
    if k == "cpath":
        v = env.get("assoc:" + e[1])
        if v is None:
            v = env.get("assoc:" + e[1].rsplit("::", 1)[-1])
        return v
    if k == "bin":
        a, b = ceval(e[2], env), ceval(e[3], env)
        if a is None or b is None:
            return None
        op = e[1]
        if op == "Add":
            return a + b
        if op == "Sub":
            return a - b
        if op == "Mul":
            return a * b
        if op == "Div":
            return a // b if b else None
        if op == "Rem":
            return a % b if b else None
        if op == "Shr":
            return a >> b if 0 <= b < 128 else None
        if op == "Shl":
            return a << b if 0 <= b < 128 else None
        if op == "BitAnd":
            return a & b
    if k == "cast":
        return ceval(e[3], env)
    return None


def add(a, b):
    if a[0] == "const" and b[0] == "const":
        return C(a[1] + b[1])
    if a == C(0):
        return b
    if b == C(0):
        return a
    return ("bin", "Add", a, b)


def window(e, base):
    """(start, end) of slice expression `e` relative to parameter `base`; end None = to the end of
    the base slice; returns None if `e` is not derived from `base` by (re)slicing."""
    if e == base:
        return (C(0), None)
    if e[0] in ("ref", "deref"):
        return window(e[1], base)
    if e[0] == "call" and e[1].endswith(INDEX_FNS) and len(e[2]) == 2:
        w = window(e[2][0], base)
        if w is None:
            return None
        s0, e0 = w
        r = e[2][1]
        if r[0] != "agg":
            return None
        kind = r[1].rsplit("::", 1)[-1]
        if kind == "Range":
            return (add(s0, r[2][0]), add(s0, r[2][1]))
        if kind == "RangeFrom":
            return (add(s0, r[2][0]), e0)
        if kind == "RangeTo":
            return (s0, add(s0, r[2][0]))
        if kind == "RangeFull":
            return (s0, e0)
        return None
    if e[0] == "field" and e[2] == 0 and e[1][0] == "variant" and e[1][2] == "Some" and e[1][1][0] == "call" \
            and e[1][1][1].endswith(("::get", "::get_mut")) and len(e[1][1][2]) == 2 and e[1][1][2][1][0] == "agg":
        # the Some payload of x.get(a..b) / x.get_mut(a..b) is x[a..b]
        return window(("call", "core::slice::index::<impl core::ops::Index<I> for [T]>::index", e[1][1][2]), base)
    if e[0] == "field" and e[2] in (0, 1) and e[1][0] == "call" and e[1][1].endswith(("::split_at", "::split_at_mut")) and len(e[1][2]) == 2:
        # x.split_at(k) = (x[..k], x[k..])
        w = window(e[1][2][0], base)
        if w is None:
            return None
        mid = add(w[0], e[1][2][1])
        return (w[0], mid) if e[2] == 0 else (mid, w[1])
    if e[0] == "call" and e[1].endswith("::from_slice") and len(e[2]) == 1:
        return window(e[2][0], base)
    if e[0] == "call" and (e[1].endswith("::as_mut_slice") or e[1].endswith("::as_slice")) and len(e[2]) == 1:
        return window(e[2][0], base)
    return None


def feasible(S, p, enum_params):
    """Prune paths that test the same fieldless-enum parameter inconsistently
    (a `match` on the discriminant and a derived `==` against a constant variant)."""
    known = {}  # expr -> variant name
    for (bb, d, taken, vals) in p.conds:
        e = n(d)
        if e[0] == "discr" and taken != "otherwise":
            nm = S.variant(d, taken)
            if nm is not None:
                if e[1] in known and known[e[1]] != nm:
                    return False
                known[e[1]] = nm
    for (bb, d, taken, vals) in p.conds:
        e = n(d)
        if e[0] == "call" and e[1].endswith(("PartialEq>::eq", "PartialEq>::ne")) and len(e[2]) == 2:
            a, b = e[2]
            a = a[1] if a[0] == "ref" else a
            b = b[1] if b[0] == "ref" else b
            for x, y in ((a, b), (b, a)):
                if y[0] == "agg" and y[1].startswith("adt:") and not y[2] and x in known:
                    same = known[x] == y[1].rsplit("::", 1)[-1]
                    truth = (taken == "otherwise") if vals == [0] else bool(taken)
                    if e[1].endswith("::ne"):
                        same = not same
                    if same != truth:
                        return False
    return True


def mode_from_eq(F, p, param, enum_path="hash::HexStringPrefix"):
    """Variant of the fieldless-enum parameter `param` that path p is specialised to by derived `==`/`!=` tests against constant
    variants (None if p does not decide it)."""
    names = None
    for a in F.d["adts"]:
        if a["path"] == enum_path:
            names = [v["name"] for v in a["variants"]]
    if not names:
        return None
    possible = set(names)
    for (bb, d, taken, vals) in p.conds:
        e = n(d)
        if e[0] == "call" and e[1].endswith(("PartialEq>::eq", "PartialEq>::ne")) and len(e[2]) == 2:
            a, b = e[2]
            a = a[1] if a[0] == "ref" else a
            b = b[1] if b[0] == "ref" else b
            for x, y in ((a, b), (b, a)):
                if x == param and y[0] == "agg" and y[1].startswith("adt:" + enum_path) and not y[2]:
                    v = y[1].rsplit("::", 1)[-1]
                    truth = (taken == "otherwise") if vals == [0] else bool(taken)
                    if e[1].endswith("::ne"):
                        truth = not truth
                    possible &= {v} if truth else (set(names) - {v})
    if not possible:
        return INFEASIBLE  # the path tests the parameter contradictorily
    return sorted(possible)[0] if len(possible) == 1 else None


INFEASIBLE = "<infeasible>"


# ---------------------------------------------------------------- writers


def writer_paths(F, name):
    bs = F.method(name, "hash::inner::FuzzyHash<")
    if len(bs) != 1:
        return None, None, "inner FuzzyHash::%s not found (%d)" % (name, len(bs))
    b = bs[0]
    S = sym.Sym(b)
    return b, S, None


def src_field(e, hf):
    """Which field of *self (param 1) the expression reads: name or None."""
    found = find_all(e, lambda x: x[0] == "field" and x[1] == ("deref", P(1)))
    names = {k for k, v in hf.items() for f in found if f[2] == v}
    return sorted(names)[0] if len(names) == 1 else None


_WCACHE = {}


def _evaluated(F, which):
    """the evaluation-based writer model (wmodel) when it can evaluate the function completely, else None"""
    key = (id(F), which)
    if key not in _WCACHE:
        from . import wmodel
        try:
            W, err = (wmodel.text_writer if which == "text" else wmodel.binary_writer)(F)
        except (RecursionError, TypeError, IndexError, KeyError, ValueError, AttributeError) as ex:
            W, err = None, "model unavailable (%s)" % type(ex).__name__
        _WCACHE[key] = (W, err)
        _WCACHE[(id(F), which, "keep")] = F  # keep F alive so that id() stays unique
    return _WCACHE[key][0]


def text_reader_evaluated(F):
    """the evaluation-based model of from_str_bytes (rmodel) or None when the parser cannot be evaluated completely"""
    key = (id(F), "rtext")
    if key not in _WCACHE:
        from . import rmodel
        try:
            R, err = rmodel.text_reader(F)
        except (RecursionError, TypeError, IndexError, KeyError, ValueError, AttributeError) as ex:
            R, err = None, "model unavailable (%s)" % type(ex).__name__
        _WCACHE[key] = (R, err)
        _WCACHE[(id(F), "rtext", "keep")] = F
    return _WCACHE[key][0]


def binary_reader_evaluated(F):
    key = (id(F), "rbin")
    if key not in _WCACHE:
        from . import rmodel
        try:
            R, err = rmodel.binary_reader(F)
        except (RecursionError, TypeError, IndexError, KeyError, ValueError, AttributeError) as ex:
            R, err = None, "model unavailable (%s)" % type(ex).__name__
        _WCACHE[key] = (R, err)
        _WCACHE[(id(F), "rbin", "keep")] = F
    return _WCACHE[key][0]


def text_writer(F):
    """Writer model of store_into_str_bytes: by abstract evaluation when the function can be evaluated completely (wmodel), else by
    the write idioms below."""
    W = _evaluated(F, "text")
    if W is not None:
        return W, None
    return text_writer_idioms(F)


def binary_writer(F):
    W = _evaluated(F, "binary")
    if W is not None:
        return W, None
    return binary_writer_idioms(F)


def text_writer_idioms(F):
    """{prefix variant: {'gate': expr, 'ret': expr, 'writes': [(start, end_or_None, kind, src, len_expr)]}}"""
    b, S, err = writer_paths(F, "store_into_str_bytes")
    if b is None:
        return None, err
    hf = common.hash_fields(F)
    out = {"body": b, "modes": {}, "errs": {}}
    for p in S.paths():
        if p.end != "return" or not feasible(S, p, None):
            continue
        mode = None
        gate = None
        for (bb, d, taken, vals) in p.conds:
            e = n(d)
            if e == ("discr", P(3)) and taken != "otherwise":
                mode = S.variant(d, taken)
            m = match(("bin", "Lt", ("call", "core::slice::<impl [T]>::len", (P(2),)), V("k")), e)
            if m:
                gate = (m["k"], (taken == "otherwise") if vals == [0] else bool(taken))
        if mode is None:
            mode = mode_from_eq(F, p, P(3))
        elif mode_from_eq(F, p, P(3)) not in (None, mode):
            continue  # `match` arm and `==` test disagree: infeasible
        if mode == INFEASIBLE:
            continue
        ret = n(p.ret)
        if ret[0] == "agg" and ret[1].endswith("Result::Err"):
            out["errs"][mode] = {"gate": gate, "ret": ret, "writes": len(p.stores) + len([c for c in p.calls if "encode" in c[1] or "copy_from_slice" in c[1]])}
            continue
        writes = []
        unknown = []
        for (bb, path, args, c) in p.calls:
            a = [n(x) for x in args]
            if path == "core::slice::<impl [T]>::copy_from_slice":
                w = window(a[0], P(2))
                if w is None:
                    continue
                src = a[1]
                lit = src[1][1] if src[0] == "ref" and src[1][0] == "bytes" else None
                writes.append((w[0], w[1], "literal:%s" % lit if lit else "copy", src_field(src, hf), None))
            elif path.endswith("hex_str::encode_rev_array"):
                w = window(a[0], P(2))
                writes.append((w[0] if w else None, w[1] if w else None, "rev_array", src_field(a[1], hf), _array_len(F, c, 1)))
            elif path.endswith("hex_str::encode_array"):
                w = window(a[0], P(2))
                writes.append((w[0] if w else None, w[1] if w else None, "plain_array", src_field(a[1], hf), _array_len(F, c, 1)))
            elif path.endswith("hex_str::encode_rev_1"):
                w = window(a[0], P(2))
                writes.append((w[0] if w else None, w[1] if w else None, "rev_1", src_field(a[1], hf), None))
            elif path == "hex_simd::encode":
                w = window(a[1], P(2))
                case = a[2][1].rsplit("::", 1)[-1] if a[2][0] == "agg" else None
                writes.append((w[0] if w else None, w[1] if w else None, "hex_simd:%s" % case, src_field(a[0], hf), None))
            else:
                # any other callee receiving (a view of) the output buffer mutably
                for x in a:
                    if window(x, P(2)) is not None and not path.endswith(INDEX_FNS + PURE_VIEW_FNS + ("::from_slice",)):
                        unknown.append(path)
        for (bb, pl, v) in p.stores:
            pe = n(pl)
            m = match(("index", ("deref", V("view")), V("i")), pe)
            w_ = None
            if m:
                w_ = (C(0), None) if m["view"] == P(2) else window(m["view"], P(2))
            if m and w_ is not None:
                at = add(w_[0], m["i"])
                nv = n(v)
                if nv[0] == "const" and isinstance(nv[1], int) and 0 <= nv[1] < 256:
                    writes.append((at, add(at, C(1)), "literal:%02x" % nv[1], None, None))  # a constant byte (e.g. b'T')
                else:
                    writes.append((at, add(at, C(1)), "byte", src_field(nv, hf), None))
            elif find_all(pe, lambda x: x == P(2)):
                unknown.append("store " + sym.fmt(pe))
        rec_ = {"gate": gate, "ret": ret, "writes": writes, "unknown": unknown, "path": p, "alts": []}
        if mode in out["modes"]:
            out["modes"][mode]["alts"].append(rec_)  # several Ok paths for one prefix mode: each is checked
        else:
            out["modes"][mode] = rec_
    # an error return taken before the prefix is examined applies to every prefix mode
    if None in out["errs"] and out["modes"] and None not in out["modes"]:
        shared = out["errs"].pop(None)
        for m_ in out["modes"]:
            out["errs"].setdefault(m_, shared)
    return out, None


def _array_len(F, callee, arg_index):
    """const generic N of encode_*_array::<N> (first generic arg)."""
    for a in callee.get("args", []):
        if a.get("k") in ("cparam", "val", "uneval"):
            if a["k"] == "cparam":
                return ("cparam", a["n"])
            if a["k"] == "val":
                return C(a["v"])
    return None


def binary_writer_idioms(F):
    b, S, err = writer_paths(F, "store_into_bytes")
    if b is None:
        return None, err
    hf = common.hash_fields(F)
    out = {"body": b, "ok": None, "err": None}
    for p in S.paths():
        if p.end != "return":
            continue
        gate = None
        for (bb, d, taken, vals) in p.conds:
            m = match(("bin", "Lt", ("call", "core::slice::<impl [T]>::len", (P(2),)), V("k")), n(d))
            if m:
                gate = (m["k"], (taken == "otherwise") if vals == [0] else bool(taken))
            # the same gate spelled `out.get_mut(..K)`: None exactly when out.len() < K
            mg = match(("discr", ("call", V("g"), (P(2), ("agg", "adt:core::ops::RangeTo::RangeTo", (V("k"),))))), n(d))
            if mg and mg["g"].endswith(("::get_mut", "::get")) and taken != "otherwise":
                vn = S.variant(d, taken)
                if vn in ("Some", "None"):
                    gate = (mg["k"], vn == "None")
        ret = n(p.ret)
        writes = []
        unknown = []
        for (bb, path, args, c) in p.calls:
            a = [n(x) for x in args]
            if path == "core::slice::<impl [T]>::copy_from_slice":
                w = window(a[0], P(2))
                if w is not None:
                    writes.append((w[0], w[1], "copy", src_field(a[1], hf), None))
            else:
                for x in a:
                    if window(x, P(2)) is not None and not path.endswith(INDEX_FNS + PURE_VIEW_FNS):
                        unknown.append(path)
        for (bb, pl, v) in p.stores:
            pe = n(pl)
            m = match(("index", ("deref", V("view")), V("i")), pe)
            w_ = None
            if m:
                # an element store through the buffer itself or through a view of it (out[..N].split_at_mut(k).0[i] = ..)
                w_ = (C(0), None) if m["view"] == P(2) else window(m["view"], P(2))
            if m and w_ is not None:
                at = add(w_[0], m["i"])
                writes.append((at, add(at, C(1)), "byte", src_field(n(v), hf), None))
            elif find_all(pe, lambda x: x == P(2)):
                unknown.append("store " + sym.fmt(pe))
        rec = {"gate": gate, "ret": ret, "writes": writes, "unknown": unknown, "path": p, "alts": []}
        kind_ = "err" if ret[0] == "agg" and ret[1].endswith("Result::Err") else "ok"
        if out.get(kind_) is not None:
            out[kind_]["alts"].append(rec)  # several paths of one kind: each is checked
        else:
            out[kind_] = rec
    return out, None


# ---------------------------------------------------------------- readers

DECODERS = {
    "hash::checksum::FuzzyHashChecksumData::<SIZE_CKSUM, SIZE_BUCKETS>::from_str_bytes": "checksum",
    "length::FuzzyHashLengthEncoding::from_str_bytes": "lvalue",
    "hash::qratios::FuzzyHashQRatios::from_str_bytes": "qratios",
    "hash::body::FuzzyHashBodyData::<SIZE_BODY>::from_str_bytes": "body",
}


def text_reader(F):
    """Classify every feasible returning path of inner from_str_bytes."""
    bs = F.method("from_str_bytes", "hash::inner::FuzzyHash<")
    if len(bs) != 1:
        return None, "inner FuzzyHash::from_str_bytes not found"
    b = bs[0]
    S = sym.Sym(b)
    hf = common.hash_fields(F)
    LEN = ("call", "core::slice::<impl [T]>::len", (P(1),))
    out = {"body": b, "paths": [], "S": S}
    for p in S.paths():
        if p.end != "return":
            if p.end == "diverge":
                out.setdefault("diverging", []).append(p)
            continue
        rec = {"requested": None, "mode": None, "len_tests": [], "prefix_test": None, "events": [], "ret": n(p.ret), "p": p}
        for (bb, d, taken, vals) in p.conds:
            e = n(d)
            truth = (taken == "otherwise") if vals == [0] else (bool(taken) if taken != "otherwise" else None)
            nm = S.variant_taken(d, taken, vals)
            if e == ("discr", P(2)):
                rec["requested"] = nm  # None / Some
            elif e == ("discr", ("field", ("variant", P(2), "Some"), 0)):
                rec["requested"] = "Some(%s)" % nm
                rec["mode"] = nm
            elif e[0] == "bin" and e[1] in ("Eq", "Ne") and LEN in (e[2], e[3]):
                k = e[3] if e[2] == LEN else e[2]
                rec["len_tests"].append((e[1], k, truth, bb))
            elif e[0] == "call" and e[1].endswith(("::ne", "::eq")) and len(e[2]) == 2:
                rec["prefix_test"] = (e, truth, bb)
            elif e[0] == "discr" and e[1][0] == "call" and e[1][1].endswith("Try>::branch"):
                inner = e[1][2][0]
                which = DECODERS.get(inner[1]) if inner[0] == "call" else None
                rec["events"].append(("decode", which, nm, inner, bb))
            elif e[0] == "call" and e[1].endswith("::is_valid"):
                rec["events"].append(("is_valid", e[1], truth, e[2][0], bb))
            else:
                rec["events"].append(("unknown", sym.fmt(e), truth, None, bb))
        out["paths"].append(rec)
    return out, None


def binary_reader(F):
    """Paths of TryFrom<&[u8; N]> and TryFrom<&[u8]> for the inner hash."""
    arr = None
    slc = None
    for b in F.method("try_from", "hash::inner::FuzzyHash<"):
        ins = [F.tys(i) for i in b.d.get("inputs", [])]
        if ins and ins[0].startswith("&[u8; "):
            arr = b
        elif ins and ins[0] == "&[u8]":
            slc = b
    return arr, slc
