"""Reader models by abstract evaluation (the counterpart of wmodel): the text parser `from_str_bytes` and the binary parsers are
evaluated exactly on abstract inputs -- the input an opaque buffer of a concrete length, the part decoders / validity predicates /
prefix comparison abstract outcomes chosen by an assignment -- and the outcome is compared with what the properties state:

  * wrong length            -> Err(InvalidStringLength), whatever else is wrong with the input, and nothing panics;
  * right length            -> Ok exactly when the prefix (if any) is "T1", every part decoder succeeds and (strict parser) the
                               decoded checksum and length code are valid; the Ok value holds each decoder's result in its own field;
  * an error that is reported applies to the input (InvalidPrefix only with a bad prefix, InvalidCharacter only when a decoder
    failed, InvalidChecksum / LengthIsTooLarge only when that decoded part is invalid), and an input rejected for exactly one of the
    two strict reasons reports that reason;
  * every part decoder is handed exactly its reference window of the input.

The order in which independent checks are made is not prescribed (the properties do not prescribe it).  Anything the evaluator cannot
evaluate makes the model unavailable (the caller falls back to the idiom rules); it is never accepted."""
import itertools

from .. import sym, evalx
from ..norm import n
from . import common, layout
from .wmodel import View, Elem, _handlers

PE = "errors::ParseError::"
PARTS = ("checksum", "lvalue", "qratios", "body")


def _ref_windows(env, mode):
    o = 2 if mode == "WithVersion" else 0
    ck, body = env["SIZE_CKSUM"], env["SIZE_BODY"]
    return {"checksum": (o, o + 2 * ck), "lvalue": (o + 2 * ck, o + 2 * ck + 2), "qratios": (o + 2 * ck + 2, o + 2 * ck + 4),
            "body": (o + 2 * ck + 4, o + 2 * ck + 4 + 2 * body)}


def _text_asg(env, L, req, a, log):
    """assignment: a = {'prefix': bool, 'dec': {part: bool}, 'valid': {'checksum': bool, 'lvalue': bool}}"""
    cv = {k.split(":", 1)[1].rsplit("::", 1)[-1]: v for k, v in env.items() if k.startswith("assoc:")}
    cps = {k: v for k, v in env.items() if not k.startswith("assoc:") and isinstance(v, int)}
    calls = dict(_handlers(L))
    need = {"checksum": 2 * env["SIZE_CKSUM"], "lvalue": 2, "qratios": 2, "body": 2 * env["SIZE_BODY"]}

    def decoder(part):
        def f(v):
            if not isinstance(v, View) or v.base != "in":
                raise evalx.Unknown("%s decoder applied to %r" % (part, v))
            log.append(("decode", part, v.lo, v.hi))
            if v.hi - v.lo != need[part]:
                return ("Err", ("adt", PE + "InvalidStringLength"))
            return ("Ok", ("obj", part)) if a["dec"][part] else ("Err", ("adt", PE + "InvalidCharacter"))
        return f
    for path, part in layout.DECODERS.items():
        calls[path] = decoder(part)

    def is_valid(x):
        if x == ("obj", "checksum"):
            return int(a["valid"]["checksum"])
        if x == ("obj", "lvalue"):
            return int(a["valid"]["lvalue"])
        raise evalx.Unknown("is_valid of %r" % (x,))
    calls["::is_valid"] = is_valid

    def is_t1(v, lit):
        if isinstance(v, View) and v.base == "in" and isinstance(lit, tuple) and lit[0] == "bytes":
            log.append(("prefix", v.lo, v.hi, lit[1]))
            if (v.lo, v.hi, lit[1]) != (0, 2, "5431"):
                raise evalx.Unknown("comparison of input bytes %d..%d with %s" % (v.lo, v.hi, lit[1]))
            return bool(a["prefix"])
        return None

    def eq(x, y):
        r = is_t1(x, y)
        if r is None:
            r = is_t1(y, x)
        if r is None:
            raise evalx.Unknown("comparison of %r and %r" % (x, y))
        return int(r)
    calls["PartialEq<&B> for &A>::eq"] = eq
    calls["PartialEq<&B> for &A>::ne"] = lambda x, y: 1 - eq(x, y)
    calls["PartialEq<[U]> for [T]>::eq"] = eq
    calls["PartialEq<[U]> for [T]>::ne"] = lambda x, y: 1 - eq(x, y)
    calls["PartialEq<[U; N]> for [T]>::eq"] = eq
    calls["PartialEq<[U; N]> for [T]>::ne"] = lambda x, y: 1 - eq(x, y)

    def strip_prefix(v, lit):
        r = is_t1(View(v.base, v.lo, min(v.hi, v.lo + 2)) if isinstance(v, View) else v, lit)
        if r is None or not isinstance(v, View):
            raise evalx.Unknown("strip_prefix(%r, %r)" % (v, lit))
        if v.hi - v.lo < 2:
            return ("None",)
        return ("Some", View(v.base, v.lo + 2, v.hi)) if r else ("None",)
    calls["core::slice::<impl [T]>::strip_prefix"] = strip_prefix

    def starts_with(v, lit):
        r = is_t1(View(v.base, v.lo, min(v.hi, v.lo + 2)) if isinstance(v, View) else v, lit)
        if r is None:
            raise evalx.Unknown("starts_with(%r, %r)" % (v, lit))
        return int(bool(r) and v.hi - v.lo >= 2)
    calls["core::slice::<impl [T]>::starts_with"] = starts_with
    pv = ("None",) if req is None else ("Some", ("adt", "hash::HexStringPrefix::" + req))
    return {"symbolic": True, "params": {1: View("in", 0, L), 2: pv}, "cparams": cps, "cpath_values": cv, "calls": calls}


def _classify(ret):
    if isinstance(ret, tuple) and ret and ret[0] == "Err" and isinstance(ret[1], tuple) and ret[1][:1] == ("adt",) and ret[1][1].startswith(PE):
        return "Err", ret[1][1][len(PE):]
    if isinstance(ret, tuple) and ret and ret[0] == "Ok":
        return "Ok", ret[1]
    return "other", ret


def text_reader(F):
    """None (+reason) if the parser cannot be evaluated; else {'bad': [descriptions], 'evaluations': n, 'strict': bool}"""
    bs = F.method("from_str_bytes", "hash::inner::FuzzyHash<")
    if len(bs) != 1:
        return None, "inner FuzzyHash::from_str_bytes not found"
    b = bs[0]
    envs = layout.variant_envs(F)
    hf = common.hash_fields(F)
    if not envs or not hf:
        return None, "variant constants / hash fields"
    strict = "strict-parser" in F.features
    S = sym.Sym(b)
    try:
        paths = S.paths()
    except sym.PathLimit:
        return None, "path explosion"
    if any(p.end == "loop" for p in paths):
        return None, "from_str_bytes contains a loop"
    evalx.set_target(F)
    bad = []
    nev = 0

    def run(env, L, req, a):
        log = []
        try:
            ret = evalx.run(S, F, paths, _text_asg(env, L, req, a, log))
        except evalx.Panics as ex:
            return ("panic", str(ex)), log
        return _classify(ret), log

    all_ok = {"prefix": True, "dec": {p: True for p in PARTS}, "valid": {"checksum": True, "lvalue": True}}
    all_bad = {"prefix": False, "dec": {p: False for p in PARTS}, "valid": {"checksum": False, "lvalue": False}}
    try:
        for vname, env in envs:
            KE, KW = env["assoc:LEN_IN_STR_EXCEPT_PREFIX"], env["assoc:LEN_IN_STR"]
            lens = {"Empty": KE, "WithVersion": KW}
            for req in (None, "Empty", "WithVersion"):
                allowed = {KE, KW} if req is None else {lens[req]}
                # 1. the length gate, on a dense range of lengths, with everything else fine and with everything else wrong
                for L in list(range(0, KW + 300)) + [2 * KW + 7, (1 << 20) + 1]:
                    if L in allowed:
                        continue
                    for a in (all_ok, all_bad):
                        (k, v), log = run(env, L, req, a)
                        nev += 1
                        if (k, v) != ("Err", "InvalidStringLength") and len(bad) < 6:
                            bad.append("%s, requested prefix %s: an input of %d bytes (%s) gives %s; reference Err(InvalidStringLength)" % (
                                vname, req, L, "otherwise well-formed" if a is all_ok else "bad prefix and digits", (k, v) if k != "Ok" else "Ok"))
                # 2. right lengths: every combination of the abstract outcomes
                for L in sorted(allowed):
                    mode = "Empty" if L == KE else "WithVersion"
                    ref = _ref_windows(env, mode)
                    pfx_cases = (True, False) if mode == "WithVersion" else (True,)
                    # the checksum predicate can only fail on the (1-byte checksum, 48 buckets) variant (R-15.2 decides the predicates)
                    ck_can_fail = env["SIZE_CKSUM"] == 1 and env["SIZE_BUCKETS"] == 48
                    val_cases = [(vc_, vl_) for vc_ in ((True, False) if ck_can_fail else (True,)) for vl_ in (True, False)] if strict else [(True, True)]
                    for pfx in pfx_cases:
                        for dec in itertools.product((True, False), repeat=4):
                            for vc, vl in val_cases:
                                a = {"prefix": pfx, "dec": dict(zip(PARTS, dec)), "valid": {"checksum": vc, "lvalue": vl}}
                                (k, v), log = run(env, L, req, a)
                                nev += 1
                                d = a["dec"]
                                inval_c = strict and d["checksum"] and not vc
                                inval_l = strict and d["lvalue"] and not vl
                                # validity of a part that failed to decode is meaningless: well-formed needs decode and validity
                                well = pfx and all(dec) and (not strict or (vc and vl))
                                where = "%s, requested %s, %d bytes, prefix %s, decoders %s%s" % (
                                    vname, req, L, "ok" if pfx else "bad", {p: ("ok" if d[p] else "bad") for p in PARTS},
                                    ", checksum %s, length code %s" % ("valid" if vc else "invalid", "valid" if vl else "invalid") if strict else "")
                                msg = None
                                if k == "panic":
                                    msg = "panics (%s)" % v
                                elif k == "other":
                                    msg = "returns %r" % (v,)
                                elif k == "Ok":
                                    if not well:
                                        msg = "is accepted"
                                    else:
                                        vals = v[2:] if isinstance(v, tuple) and v[:1] == ("adt",) else None
                                        want = {hf[p]: ("obj", p) for p in PARTS}
                                        if vals is None or len(vals) != 4 or any(vals[i] != want[i] for i in want):
                                            msg = "Ok value %r does not hold each decoder's result in its own field" % (v,)
                                else:
                                    if well:
                                        msg = "is rejected with %s" % v
                                    elif v == "InvalidStringLength":
                                        msg = "reports a length error for an input of the right length"
                                    elif v == "InvalidPrefix" and pfx:
                                        msg = "reports InvalidPrefix although the prefix is T1"
                                    elif v == "InvalidCharacter" and all(dec):
                                        msg = "reports InvalidCharacter although every digit is hexadecimal"
                                    elif v == "InvalidChecksum" and not inval_c:
                                        msg = "reports InvalidChecksum although the checksum %s" % ("did not decode" if not d["checksum"] else "is valid")
                                    elif v == "LengthIsTooLarge" and not inval_l:
                                        msg = "reports LengthIsTooLarge although the length code %s" % ("did not decode" if not d["lvalue"] else "is valid")
                                    elif v not in ("InvalidPrefix", "InvalidCharacter", "InvalidChecksum", "LengthIsTooLarge"):
                                        msg = "reports %s" % v
                                    elif pfx and all(dec) and strict and (vc != vl):
                                        only = "InvalidChecksum" if not vc else "LengthIsTooLarge"
                                        if v != only:
                                            msg = "reports %s; the only thing wrong is %s" % (v, only)
                                if msg is None:
                                    # windows of the decoders that were called
                                    for ev_ in log:
                                        if ev_[0] == "decode" and (ev_[2], ev_[3]) != ref[ev_[1]]:
                                            msg = "hands bytes %d..%d to the %s decoder; reference %d..%d" % (ev_[2], ev_[3], ev_[1], ref[ev_[1]][0], ref[ev_[1]][1])
                                    if well and {e_[1] for e_ in log if e_[0] == "decode"} != set(PARTS):
                                        msg = "accepts without decoding every part (decoded: %s)" % sorted({e_[1] for e_ in log if e_[0] == "decode"})
                                    if mode == "WithVersion" and well and not any(e_[0] == "prefix" for e_ in log):
                                        msg = "accepts a prefixed input without comparing the prefix"
                                if msg and len(bad) < 6:
                                    bad.append("%s: %s" % (where, msg))
    except evalx.Unknown as ex:
        return None, "cannot evaluate from_str_bytes: %s" % ex
    return {"bad": bad, "evaluations": nev, "strict": strict, "body": b}, None


def _sources(v):
    """the input windows / bytes an abstract value was built from: set of ('win', lo, hi) / ('byte', off)"""
    out = set()

    def rec(x):
        if isinstance(x, View) and x.base == "in":
            out.add(("win", x.lo, x.hi))
        elif isinstance(x, Elem) and x.base == "in":
            out.add(("byte", x.at))
        elif isinstance(x, tuple):
            if len(x) == 3 and x[0] == "byte" and x[1] == "in":
                out.add(("byte", x[2]))
                return
            for y in x:
                rec(y)
    rec(v)
    return out


def binary_reader(F):
    """The array parser TryFrom<&[u8; N]> by abstract evaluation: (model, None) or (None, reason).  model['bad'] lists violations of:
    Ok exactly when (strict) the checksum and length parts are valid; InvalidChecksum / LengthIsTooLarge only when they apply and
    exactly that one when it is the only reason; the Ok value's fields are built from bytes [0,CK), [CK], [CK+1], [CK+2,N) of the input."""
    from . import panics
    arr, slc = layout.binary_reader(F)
    if arr is None:
        return None, "TryFrom<&[u8; N]> for inner FuzzyHash not found"
    envs = layout.variant_envs(F)
    hf = common.hash_fields(F)
    if not envs or not hf:
        return None, "variant constants / hash fields"
    strict = "strict-parser" in F.features
    S = sym.Sym(arr)
    try:
        paths = S.paths()
    except sym.PathLimit:
        return None, "path explosion"
    if any(p.end == "loop" for p in paths):
        return None, "the array parser contains a loop"
    evalx.set_target(F)
    bad = []
    nev = 0
    try:
        for vname, env in envs:
            N, CK = env["SIZE_IN_BYTES"], env["SIZE_CKSUM"]
            ref = {"checksum": {("win", 0, CK)}, "lvalue": {("byte", CK)}, "qratios": {("byte", CK + 1)}, "body": {("win", CK + 2, N)}}
            cv = {k.split(":", 1)[1].rsplit("::", 1)[-1]: v for k, v in env.items() if k.startswith("assoc:")}
            cps = {k: v for k, v in env.items() if not k.startswith("assoc:") and isinstance(v, int)}
            ck_can_fail = env["SIZE_CKSUM"] == 1 and env["SIZE_BUCKETS"] == 48  # R-15.2 decides the predicates themselves
            for vc, vl in ([(vc_, vl_) for vc_ in ((True, False) if ck_can_fail else (True,)) for vl_ in (True, False)] if strict else [(True, True)]):
                calls = dict(_handlers(N))

                def is_valid(x, vc=vc, vl=vl, ref=ref):
                    src = _sources(x)
                    if src == ref["checksum"]:
                        return int(vc)
                    if src == ref["lvalue"]:
                        return int(vl)
                    raise evalx.Unknown("is_valid of a value built from %s" % sorted(src))
                calls["::is_valid"] = is_valid

                def try_into(S_, bb, vals, cps=cps):
                    tgt = panics.try_into_target_len(F, S_.b, bb) if bb is not None else None
                    v = vals[0] if len(vals) == 1 else None
                    if tgt is None or not isinstance(v, View):
                        raise evalx.Unknown("try_into of %r" % (vals,))
                    tl = tgt[1] if tgt[0] == "val" else cps.get(tgt[1])
                    if tl is None:
                        raise evalx.Unknown("try_into target length %s" % (tgt,))
                    return ("Ok", ("arr", v)) if v.hi - v.lo == tl else ("Err", ("obj", "TryFromSliceError"))

                def load2(basev, iv):
                    if isinstance(basev, View) and isinstance(iv, int):
                        if not (0 <= iv < basev.hi - basev.lo):
                            raise evalx.Panics("index %d out of range of a %d-byte view" % (iv, basev.hi - basev.lo))
                        return ("byte", basev.base, basev.lo + iv)
                    return None
                asg = {"symbolic": True, "params": {1: View("in", 0, N)}, "cparams": cps, "cpath_values": cv, "calls": calls,
                       "xcalls": {"TryInto<U>>::try_into": try_into, "for &'a [T; N]>::try_from": try_into}, "load2": load2}
                nev += 1
                try:
                    k, v = _classify(evalx.run(S, F, paths, asg))
                except evalx.Panics as ex:
                    k, v = "panic", str(ex)
                where = "%s%s" % (vname, ", checksum %s, length code %s" % ("valid" if vc else "invalid", "valid" if vl else "invalid") if strict else "")
                well = vc and vl
                msg = None
                if k == "panic":
                    msg = "panics (%s)" % v
                elif k == "other":
                    msg = "returns %r" % (v,)
                elif k == "Ok":
                    if not well:
                        msg = "is accepted"
                    else:
                        vals = v[2:] if isinstance(v, tuple) and v[:1] == ("adt",) else None
                        if vals is None or len(vals) != 4:
                            msg = "Ok value %r" % (v,)
                        else:
                            for part in PARTS:
                                got = _sources(vals[hf[part]])
                                if got != ref[part]:
                                    msg = "the %s field is built from %s of the input; reference %s" % (part, sorted(got), sorted(ref[part]))
                else:
                    if well:
                        msg = "is rejected with %s" % v
                    elif v == "InvalidChecksum" and vc:
                        msg = "reports InvalidChecksum although the checksum is valid"
                    elif v == "LengthIsTooLarge" and vl:
                        msg = "reports LengthIsTooLarge although the length code is valid"
                    elif v not in ("InvalidChecksum", "LengthIsTooLarge"):
                        msg = "reports %s" % v
                    elif vc != vl and v != ("InvalidChecksum" if not vc else "LengthIsTooLarge"):
                        msg = "reports %s; the only thing wrong is %s" % (v, "InvalidChecksum" if not vc else "LengthIsTooLarge")
                if msg and len(bad) < 6:
                    bad.append("%s: %s" % (where, msg))
    except evalx.Unknown as ex:
        return None, "cannot evaluate the array parser: %s" % ex
    return {"bad": bad, "evaluations": nev, "strict": strict, "body": arr}, None
