"""Enumeration and discharge of panicking operations (Assert terminators, panicking calls)
reachable from given roots.  Discharge is by named idioms over the path conditions that
dominate the site (interval reasoning over comparisons against constants, constant folding
for the hash variants, window-inside-gated-length); anything unmatched is reported."""
import re
from .. import sym, callgraph, engine
from .. import norm
from ..norm import n, P, C, V, ANY, match, find_all
from . import layout, common

PANIC_CALL_SUFFIX = (
    "::unwrap", "::expect", "::unwrap_err",
)
INDEX_CALLS = ("core::slice::index::<impl core::ops::Index<I> for [T]>::index",
               "core::slice::index::<impl core::ops::IndexMut<I> for [T]>::index_mut",
               "core::array::<impl core::ops::Index<I> for [T; N]>::index",
               "core::array::<impl core::ops::IndexMut<I> for [T; N]>::index_mut",
               "<alloc::vec::Vec<T, A> as core::ops::Index<I>>::index",
               "<alloc::vec::Vec<T, A> as core::ops::IndexMut<I>>::index_mut")
OTHER_PANICKY = ("core::slice::<impl [T]>::copy_from_slice", "core::slice::<impl [T]>::copy_within",
                 "core::slice::<impl [T]>::chunks_exact", "core::slice::<impl [T]>::chunks_exact_mut", "core::slice::<impl [T]>::chunks_mut",
                 "core::slice::<impl [T]>::select_nth_unstable", "core::slice::<impl [T]>::split_at", "core::slice::<impl [T]>::split_at_mut")
ALL_VALUES = sorted({v for t in common.VARIANTS.values() for v in t})
RUNTIME_REACH = [None]  # set of function paths reachable at run time from the API roots (callers outside it are compile-time only)
WIDTH = {"u8": 8, "u16": 16, "u32": 32, "u64": 64, "usize": 64, "i32": 32, "i8": 8}


class Site:
    def __init__(self, body, bb, kind, what, term):
        self.body, self.bb, self.kind, self.what, self.term = body, bb, kind, what, term
        self.idioms = set()
        self.undischarged = []

    def key(self):
        return (self.body.path, self.kind, self.what)


def _target(F):
    """integer widths follow the analysed target (usize is 32 bit on i686 / wasm32)."""
    WIDTH["usize"] = F.usize_bytes * 8


def collect(F, roots, G=None):
    _target(F)
    RUNTIME_REACH[0] = None
    G = G or callgraph.CallGraph(F)
    reach = G.reach(roots, runtime_only=True)
    sites = []
    for path in sorted(reach):
        b = G.nodes[path]
        if b.kind not in ("Fn", "AssocFn", "Closure"):
            continue
        for i, blk in enumerate(b.blocks):
            if blk.get("cleanup"):
                continue
            t = blk["term"]
            if t["t"] == "assert":
                k = t["msg"]["kind"]
                if k in ("misaligned_ptr", "null_ptr"):
                    continue
                sites.append(Site(b, i, "assert:" + k, "", t))
            elif t["t"] == "call":
                cp = (t["callee"].get("resolved") or {}).get("path") or t["callee"].get("path") or ""
                if cp.startswith("core::panicking::"):
                    sites.append(Site(b, i, "panic", cp.rsplit("::", 1)[-1], t))
                elif cp.endswith(PANIC_CALL_SUFFIX) and (cp.startswith("core::option::Option") or cp.startswith("core::result::Result")):
                    sites.append(Site(b, i, "unwrap", cp.rsplit("::", 1)[-1], t))
                elif cp in INDEX_CALLS:
                    sites.append(Site(b, i, "index", cp.rsplit("::", 1)[-1], t))
                elif cp in OTHER_PANICKY:
                    sites.append(Site(b, i, "call", cp.rsplit("::", 1)[-1], t))
    return sites, reach, G


# ---------------------------------------------------------------- intervals


def type_range(tys):
    w = WIDTH.get(tys)
    return (0, (1 << w) - 1) if w and tys.startswith("u") else None


class Bounds:
    """Facts from the conditions preceding a site on one path."""

    def __init__(self, S, path, upto_bb):
        self.lo = {}
        self.hi = {}
        self.eq = {}  # expr -> expr (len(x) == K)
        self.rel = []  # (a, b) meaning a <= b
        for (bb, d, taken, vals) in path.conds:
            if path.blocks.index(bb) >= path.blocks.index(upto_bb) if (bb in path.blocks and upto_bb in path.blocks) else False:
                break
            e = pn(S, d)
            truth = (taken == "otherwise") if vals == [0] else (bool(taken) if taken != "otherwise" else None)
            if e[0] == "call" and isinstance(e[1], str) and PRED[0] is not None:
                e = PRED[0](e) or e  # a local predicate with one straight-line returning path, inlined
            if e[0] == "discr" and taken != "otherwise":
                # slice.get(i) is Some (or its `?` continues) exactly when i < len(slice)
                g = e[1]
                if g[0] == "call" and g[1].endswith("Try>::branch") and len(g[2]) == 1:
                    g = g[2][0]
                if g[0] == "call" and g[1].endswith(("::get", "::get_mut")) and len(g[2]) == 2 and g[2][1][0] == "agg" and g[2][1][1].endswith("RangeTo::RangeTo"):
                    # x.get(..k) is Some exactly when k <= len(x)
                    vn = S.variant(d, taken)
                    lx = ("call", SLICE_LEN, (g[2][0],))
                    if vn in ("Some", "Continue"):
                        self.rel.append((g[2][1][2][0], lx, False))
                    elif vn in ("None", "Break"):
                        self.rel.append((lx, g[2][1][2][0], True))
                    continue
                if g[0] == "call" and g[1].endswith("::get") and len(g[2]) == 2:
                    vn = S.variant(d, taken)
                    base = g[2][0]
                    while base[0] in ("ref", "cast", "deref"):
                        base = base[-1]
                    ln_ = None
                    if base[0] == "table" and TABLES[0] is not None:
                        tv = TABLES[0](base[1])
                        ln_ = len(tv) if tv else None
                    if ln_ is not None and vn in ("Some", "Continue"):
                        self._hi(g[2][1], ln_ - 1)
                    elif ln_ is not None and vn in ("None", "Break"):
                        self._lo(g[2][1], ln_)
                    continue
            if e[0] == "discr" and e[1][0] == "call" and e[1][1].endswith("::try_from") and len(e[1][2]) == 1 and taken != "otherwise":
                # uN::try_from(x): Ok iff x <= uN::MAX
                import re as _re
                mt = _re.search(r"for (u8|u16|u32|u64)>::try_from$|^<(u8|u16|u32|u64) as ", e[1][1])
                vn = S.variant(d, taken)
                if mt and vn in ("Ok", "Err"):
                    w_ = WIDTH[mt.group(1) or mt.group(2)]
                    if vn == "Ok":
                        self._hi(e[1][2][0], (1 << w_) - 1)
                    else:
                        self._lo(e[1][2][0], 1 << w_)
                continue
            if e[0] != "bin" and e[0] != "discr" and vals != [0] and all(isinstance(v, int) for v in vals):
                # `match x { 0 | 1 => .., _ => .. }` on an unsigned integer: an arm pins the value, the fall-through excludes the
                # listed values (a lower bound when they are 0..k)
                if taken != "otherwise" and isinstance(taken, int):
                    self._lo(e, taken)
                    self._hi(e, taken)
                elif taken == "otherwise":
                    k_ = 0
                    while k_ in vals:
                        k_ += 1
                    if k_ > 0:
                        self._lo(e, k_)
                continue
            if truth is None or e[0] != "bin":
                continue
            op, a, b = e[1], e[2], e[3]
            if op == "Ne":
                op, truth = "Eq", not truth
            if op == "Eq":
                if truth:
                    self.eq[a] = b
                    self.eq[b] = a
                    for x, y in ((a, b), (b, a)):
                        if y[0] == "const":
                            self._lo(x, y[1])
                            self._hi(x, y[1])
                else:
                    # x != 0 for unsigned
                    for x, y in ((a, b), (b, a)):
                        if y == C(0):
                            self._lo(x, 1)
            elif op in ("Lt", "Le"):
                if not truth:
                    # !(a < b) == b <= a ; !(a <= b) == b < a
                    a, b = b, a
                    op = "Le" if op == "Lt" else "Lt"
                strict = op == "Lt"
                self.rel.append((a, b, strict))
                if b[0] == "const":
                    self._hi(a, b[1] - (1 if strict else 0))
                if a[0] == "const":
                    self._lo(b, a[1] + (1 if strict else 0))

    def _lo(self, e, v):
        self.lo[e] = max(self.lo.get(e, v), v)
        if e[0] not in ("const",) and (C(v), e, False) not in self.rel:
            self.rel.append((C(v), e, False))  # also as a linear fact (the expression may be rewritten, e.g. len(window))

    def _hi(self, e, v):
        self.hi[e] = min(self.hi.get(e, v), v)
        if e[0] not in ("const",) and (e, C(v), False) not in self.rel:
            self.rel.append((e, C(v), False))


LENOF = [None]
PRED = [None]
RETRANGE = [None]
ENUMARGS = [None]
RET_SUMMARY = [{}]  # function path -> (lo, hi) of its return value, supplied by a rule that decides it (named where it is set)


def _retrange_factory(F):
    """(lo, hi) of the values a crate function returns over a product of argument ranges of at most 4096 points, by exact
    evaluation of its MIR on every point (evalx); None when it has a loop, is too large, or cannot be evaluated.  Points on
    which the callee itself panics are skipped: they are that callee's own panic sites, not a value."""
    from .. import evalx
    cache = {}
    tabs = _table_values_factory(F)

    def get(path, ranges, env):
        key = (path, ranges, tuple(sorted((env or {}).items())) if env else None)
        if key in cache:
            return cache[key]
        cache[key] = None
        cb = F.fn(path)
        npts = 1
        doms = []
        for rg in ranges:
            if rg and rg[0] == "enum":
                doms.append([("adt", rg[1] + "::" + nm) for nm in rg[2]])
                npts *= len(rg[2])
                continue
            lo, hi = rg
            if lo < 0 or hi < lo:
                return None
            npts *= (hi - lo + 1)
            doms.append(range(lo, hi + 1))
        if cb is None or cb.mir is None or npts > 4096 or cb.mir.get("arg_count") != len(ranges):
            return None
        S2 = sym.Sym(cb)
        try:
            paths = S2.paths()
        except sym.PathLimit:
            return None
        if any(p_.end == "loop" for p_ in paths):
            return None
        evalx.set_target(F)
        cps = {k_: v_ for k_, v_ in (env or {}).items() if not k_.startswith("assoc:")}
        import itertools
        lo_, hi_ = None, None
        for pt in itertools.product(*doms):
            try:
                v = evalx.run(S2, F, paths, {"symbolic": True, "params": {i + 1: x for i, x in enumerate(pt)}, "cparams": cps}, tabs)
            except evalx.Panics:
                continue
            except (evalx.Unknown, RecursionError):
                return None
            if not isinstance(v, int):
                return None
            lo_ = v if lo_ is None else min(lo_, v)
            hi_ = v if hi_ is None else max(hi_, v)
        if lo_ is None:
            return None
        cache[key] = (lo_, hi_)
        return cache[key]

    return get

TABLES = [None]


def _pred_factory(F):
    cache = {}

    def get(e):
        cp, args = e[1], e[2]
        if cp.startswith(("core::", "alloc::", "std::")):
            return None
        if cp not in cache:
            cache[cp] = None
            cb = F.fn(cp)
            if cb is not None and cb.mir and (cb.local_ty(0) or {}).get("s") == "bool":
                S2 = sym.Sym(cb)
                try:
                    ps = S2.paths()
                except sym.PathLimit:
                    ps = []
                if len(ps) == 1 and ps[0].end == "return" and not ps[0].conds and not ps[0].stores and all(norm.WIDENING_FROM.match(c[1]) for c in ps[0].calls):
                    cache[cp] = pn(S2, ps[0].ret)
        t = cache[cp]
        return None if t is None else _subst(t, list(args))

    return get

FALLBACK_ITER = [{}]
ITER = [None]  # local -> normalised expression that constructed the iterator held in that local


def iter_components(e):
    """Components of an iterator construction: list of ('chunk', slice_expr, k, exact) / ('elem', slice_expr)."""
    if e is None:
        return None
    if e[0] == "call":
        nm = e[1].rsplit("::", 1)[-1]
        a = e[2]
        if nm in ("into_iter", "rev", "enumerate", "by_ref", "copied", "cloned") and a:
            return iter_components(a[0])
        if nm == "zip" and len(a) == 2:
            x, y = iter_components(a[0]), iter_components(a[1])
            if x is None or y is None or len(x) != 1 or len(y) != 1:
                return None
            return [("zip", x[0], y[0])]
        if nm in ("chunks_exact", "chunks_exact_mut") and len(a) == 2 and a[1][0] == "const":
            return [("chunk", a[0], a[1][1], True)]
        if nm in ("chunks_mut", "chunks") and len(a) == 2 and a[1][0] == "const":
            return [("chunk", a[0], a[1][1], False)]
        if nm in ("iter", "iter_mut") and a:
            return [("elem", a[0])]
    return None


def item_component(e):
    """If e denotes (a projection of) the item yielded by `next(&mut it)`: (iterator local, [field indices])."""
    idx = []
    x = e
    while x[0] == "field":
        idx.append(x[2])
        x = x[1]
    idx.reverse()
    if x[0] == "variant" and x[2] == "Some" and x[1][0] == "call" and x[1][1].endswith("::next") and len(x[1][2]) == 1:
        it = x[1][2][0]
        if it[0] == "ref" and it[1][0] == "lv":
            # idx[0] is the payload field 0 of Some
            return it[1][1], idx[1:] if idx and idx[0] == 0 else None
    return None


def irange(e, B, tyof, env=None, depth=0):
    """(lo, hi) of expression e (normalised) or None."""
    if depth > 30:
        return None
    k = e[0]
    if (k == "call" and e[1].endswith("::len") and len(e[2]) == 1) or k == "len":
        if LENOF[0] is not None:
            v = LENOF[0](e[2][0] if k == "call" else e[1], env)
            if v is not None:
                return (v, v)
    if k == "const":
        return (e[1], e[1])
    if k in ("cparam", "cpath"):
        if env is not None:
            v = layout.ceval(e, env)
            if v is not None:
                return (v, v)
        if k == "cparam":
            return (min(ALL_VALUES), max(ALL_VALUES))
        return None
    base = tyof(e)
    r = type_range(base) if base else None
    if k == "call" and e[1].endswith("::leading_zeros") and len(e[2]) == 1:
        inner = irange(e[2][0], B, tyof, env, depth + 1)
        w = WIDTH.get(tyof(e[2][0]) or "u32", 32)
        r = (0, w - 1) if inner is not None and inner[0] >= 1 else (0, w)
    if k == "field" and e[2] == 0 and e[1][0] == "variant" and e[1][1][0] == "call" and e[1][1][1].endswith("::binary_search"):
        # contract: Ok(i)/Err(i) with i <= len(slice); the slice is a window of a constant table
        tabs = find_all(e[1][1][2][0], lambda x: x[0] == "table")
        if tabs and TABLES[0] is not None:
            vals = TABLES[0](tabs[0][1])
            if vals:
                r = (0, len(vals))
    if k == "index" and e[1][0] == "table" and TABLES[0] is not None:
        vals = TABLES[0](e[1][1])
        if vals:
            ir = irange(e[2], B, tyof, env, depth + 1)
            if ir is not None and 0 <= ir[0] <= ir[1] < len(vals):
                vals = vals[ir[0]:ir[1] + 1]
            if vals and isinstance(vals[0], int):
                r = (min(vals), max(vals))
    if k == "call" and isinstance(e[1], str) and e[1] in RET_SUMMARY[0]:
        rr = RET_SUMMARY[0][e[1]]
        r = rr if r is None else (max(r[0], rr[0]), min(r[1], rr[1]))
    elif k == "call" and RETRANGE[0] is not None and isinstance(e[1], str) and not e[1].startswith(("core::", "alloc::", "std::")) and 1 <= len(e[2]) <= 3:
        # a small pure crate function: its exact value range over the (small) product of its argument ranges
        ars = [irange(a_, B, tyof, env, depth + 1) for a_ in e[2]]
        if any(x is None for x in ars) and ENUMARGS[0] is not None:
            # an argument of a field-less enum type: all its variants
            ens = ENUMARGS[0](e[1])
            ars = [x if x is not None else (ens[i_] if ens and i_ < len(ens) else None) for i_, x in enumerate(ars)]
        if all(x is not None for x in ars):
            rr = RETRANGE[0](e[1], tuple(ars), env)
            if rr is not None:
                r = rr if r is None else (max(r[0], rr[0]), min(r[1], rr[1]))
    if k == "bin":
        a = irange(e[2], B, tyof, env, depth + 1)
        b = irange(e[3], B, tyof, env, depth + 1)
        op = e[1]
        if op in ("Eq", "Ne", "Lt", "Le", "Gt", "Ge"):
            r2 = (0, 1)  # a comparison is 0 or 1 (e.g. `(a != b) as u32`)
        elif op == "BitAnd":
            cands = [x[1] for x in (a, b) if x is not None]
            r2 = (0, min(cands)) if cands else None
        elif a is None or b is None:
            r2 = None
        elif op == "Add":
            r2 = (a[0] + b[0], a[1] + b[1])
        elif op == "Sub":
            r2 = (a[0] - b[1], a[1] - b[0])
        elif op == "Mul":
            r2 = (a[0] * b[0], a[1] * b[1])
        elif op == "Div":
            r2 = (a[0] // max(b[1], 1), a[1] // max(b[0], 1)) if b[0] > 0 else None
        elif op == "Rem":
            r2 = (0, b[1] - 1) if b[0] > 0 else None
        elif op == "Shr":
            r2 = (a[0] >> b[1], a[1] >> b[0])
        elif op == "Shl":
            r2 = (a[0] << b[0], a[1] << b[1])
        elif op == "BitOr" or op == "BitXor":
            m = max(a[1], b[1])
            r2 = (0, (1 << m.bit_length()) - 1)
        else:
            r2 = None
        r = r2 if r2 is not None else r
    elif k == "cast":
        inner = irange(e[3], B, tyof, env, depth + 1)
        tr = type_range(e[2])
        if inner is not None and (tr is None or (inner[0] >= tr[0] and inner[1] <= tr[1])):
            r = inner
        else:
            r = tr
    lo = B.lo.get(e)
    hi = B.hi.get(e)
    if depth < 6:
        for (a_, b_, strict) in getattr(B, "rel", []):
            if a_ == e and b_ != e and not find_all(b_, lambda x: x == e):
                rb = irange(b_, B, tyof, env, depth + 8)
                if rb is not None:
                    v = rb[1] - (1 if strict else 0)
                    hi = v if hi is None else min(hi, v)
            if b_ == e and a_ != e and not find_all(a_, lambda x: x == e):
                ra = irange(a_, B, tyof, env, depth + 8)
                if ra is not None:
                    v = ra[0] + (1 if strict else 0)
                    lo = v if lo is None else max(lo, v)
    if r is None and (lo is not None or hi is not None):
        r = (0, (1 << 64) - 1)
    if r is not None:
        r = (max(r[0], lo) if lo is not None else r[0], min(r[1], hi) if hi is not None else r[1])
    return r


# ---------------------------------------------------------------- idioms


def _table_values_factory(F):
    cache = {}

    def get(path):
        if path not in cache:
            c = F.consts.get(path)
            vals = None
            if c:
                t = F.ty(c["ty"])
                if t.get("k") == "array":
                    es = {"u8": 1, "u16": 2, "u32": 4, "usize": F.usize_bytes, "u64": 8}.get(F.tys(t["elem"]))
                    if es:
                        vals = F.const_array(path, es)
            cache[path] = vals
        return cache[path]

    return get


def discharge(F, sites, envs):
    _target(F)
    TABLES[0] = _table_values_factory(F)
    PRED[0] = _pred_factory(F)
    RETRANGE[0] = _retrange_factory(F)

    def _enum_args(path, F=F):
        cb = F.fn(path)
        if cb is None or cb.mir is None:
            return None
        out = []
        for i_ in range(1, (cb.mir.get("arg_count") or 0) + 1):
            ty = cb.local_ty(i_)
            while ty and ty.get("k") == "ref":
                ty = F.ty(ty["to"])
            vs = common.enum_variants(F, ty["path"]) if ty and ty.get("k") == "adt" and ty.get("krate") == F.d.get("crate", "tlsh") else None
            a_ = common.adt(F, ty["path"]) if vs else None
            fieldless = bool(a_) and all(not v_.get("fields") for v_ in a_["variants"])
            out.append(("enum", ty["path"], tuple(sorted(vs))) if vs and fieldless and len(vs) <= 16 else None)
        return out
    ENUMARGS[0] = _enum_args
    by_fn = {}
    # slice-window operations of the text parser itself, when the evaluation-based reader model (rmodel) has replayed the parser on
    # every input length of a dense range and every combination of abstract outcomes without any of them going out of range
    evaluated = None
    wev = {}
    rbin = [None]
    for s in sites:
        # the array parser TryFrom<&[u8; N]> replayed by rmodel (input length fixed by the type, every variant, every validity outcome):
        # its window operations, conversions of windows to arrays and their unwraps cannot fail on any evaluated path
        if s.body.path.endswith("core::convert::TryFrom<&[u8; SIZE_IN_BYTES]>>::try_from") and "hash::inner::FuzzyHash<" in s.body.path and \
                (s.kind in ("index", "unwrap", "panic") or s.kind.startswith("assert:bounds") or (s.kind == "call" and s.what in ("index", "split_at", "split_first"))):
            if rbin[0] is None:
                RB = layout.binary_reader_evaluated(F)
                rbin[0] = bool(RB is not None and RB["body"].path == s.body.path and not any("panic" in x for x in RB["bad"]))
            if rbin[0]:
                s.idioms.add("no-failure-on-any-evaluated-path-of-the-array-parser")
                continue
        # window operations and whole-part copies of the two serializers, when the evaluation-based writer model (wmodel) replayed
        # them for every buffer length 0..N+1100, every variant and prefix mode without leaving a view or mismatching a copy length
        if s.kind in ("index", "call") and s.what in ("index", "index_mut", "split_at", "split_at_mut", "copy_from_slice") and "hash::inner::FuzzyHash<" in s.body.path \
                and s.body.path.endswith(("FuzzyHashType>::store_into_bytes", "FuzzyHashType>::store_into_str_bytes")):
            which = "binary" if s.body.path.endswith("store_into_bytes") else "text"
            if which not in wev:
                wev[which] = layout._evaluated(F, which) is not None
            if wev[which]:
                s.idioms.add("in-range-by-evaluation-of-the-serializer")
                continue
        if s.kind in ("index", "call") and s.what in ("index", "index_mut", "split_at", "split_at_mut") and s.body.path.endswith("FuzzyHashType>::from_str_bytes") \
                and "hash::inner::FuzzyHash<" in s.body.path:
            if evaluated is None:
                RM = layout.text_reader_evaluated(F)
                evaluated = bool(RM is not None and RM["body"].path == s.body.path and not any("panic" in x for x in RM["bad"]))
            if evaluated:
                s.idioms.add("in-range-by-evaluation-of-the-parser")
                continue
        by_fn.setdefault(s.body.path, []).append(s)
    for path, ss in by_fn.items():
        b = ss[0].body
        S = sym.Sym(b)
        try:
            paths = S.paths()
        except sym.PathLimit:
            for s in ss:
                s.undischarged.append("path explosion")
            continue
        # loop bodies: also walk from loop headers so that sites inside later iterations are seen
        hdrs = {p.blocks[-1] for p in paths if p.end == "loop"}
        hdrs |= {h for h in S._counting_loops() if any(h in p.blocks for p in paths)}  # loops the walker summarised
        extra = []
        for h in hdrs:
            try:
                extra += S.paths(entry=h)
            except sym.PathLimit:
                pass
        # iterator constructions seen on paths from the entry (used for loop-step paths walked from a header)
        fb = {}
        for p in paths:
            for l, v in (p.env["locals"].items() if p.env else ()):
                w = v
                while w is not None and w[0] == "mutated":
                    w = w[3] if len(w) > 3 else None
                if v[0] == "mutated" and w is not None and w[0] == "call":
                    fb.setdefault(l, n(w))
        FALLBACK_ITER[0] = fb
        for s in ss:
            hit = 0
            for p in paths + extra:
                if s.bb not in p.blocks:
                    continue
                hit += 1
                idiom = one(F, S, b, p, s, envs)
                if not idiom:
                    try:
                        idiom = relational(F, S, b, p, s, envs)
                    except RecursionError:
                        idiom = None
                if idiom:
                    s.idioms.add(idiom)
                else:
                    s.undischarged.append(describe(S, p, s))
            if hit == 0:
                # not on any enumerated path (unreachable in this configuration, e.g. after a constant branch)
                s.idioms.add("unreachable-under-constant-branch")


def describe(S, p, s):
    t = s.term
    if t["t"] == "assert":
        for (bb, kind, cond, expected, msg) in p.asserts:
            if bb == s.bb:
                return "%s %s" % (kind, sym.fmt(n(cond))[:140])
    for c in p.calls:
        if c[0] == s.bb:
            return "%s(%s)" % (c[1].rsplit("::", 1)[-1], ", ".join(sym.fmt(n(a))[:80] for a in c[2]))
    return s.kind


def strip_widening(S, e, depth=0):
    """Remove IntToInt casts that cannot change the value (unsigned source no wider than the unsigned target);
    narrowing or unknown casts are kept (they are opaque to the linear reasoning and sound for intervals)."""
    if not isinstance(e, tuple) or not e or depth > 60:
        return e
    if isinstance(e[0], str):
        if e[0] == "call" and isinstance(e[1], int) and len(e[3]) == 1 and norm.WIDENING_FROM.match(e[2]):
            return strip_widening(S, e[3][0], depth + 1)  # u32::from(x) / x.into() between unsigned integers: lossless
        if e[0] == "cast" and e[1] == "IntToInt":
            inner = strip_widening(S, e[3], depth + 1)
            if e[3][0] == "const" and WIDTH.get(e[2]) and 0 <= e[3][1] < (1 << WIDTH[e[2]]):
                return inner
            st = S.type_of(e[3])
            sw = WIDTH.get(st["s"]) if st else None
            tw = WIDTH.get(e[2])
            if sw and tw and sw <= tw and st["s"].startswith("u") and e[2].startswith("u"):
                return inner
            return ("cast", e[1], e[2], inner)
        return tuple(strip_widening(S, x, depth + 1) if isinstance(x, tuple) else x for x in e)
    return tuple(strip_widening(S, x, depth + 1) if isinstance(x, tuple) else x for x in e)


def pn(S, raw):
    """Normal form used by the panic-site reasoning: value-preserving casts removed, others kept."""
    return n(strip_widening(S, raw), keep_casts=True)


def build_tymap(S, raws):
    """normalised subexpression -> primitive type name, from the MIR types of the raw expressions."""
    out = {}
    seen = 0

    def rec(x, depth):
        nonlocal seen
        if not isinstance(x, tuple) or not x or depth > 14 or seen > 4000:
            return
        if isinstance(x[0], str):
            if x[0] in ("load", "call", "field", "index", "cindex", "param", "local", "lv", "val", "mutated", "bin", "cast"):
                seen += 1
                t = S.type_of(x)
                if t is not None and t.get("s") in WIDTH:
                    try:
                        out[pn(S, x)] = t["s"]
                    except Exception:
                        pass
            for y in x[1:]:
                rec(y, depth + 1)
        else:
            for y in x:
                rec(y, depth + 1)

    for r_ in raws:
        rec(r_, 0)
    return out


def tyof_factory(S, b, tymap=None):
    F = b.f
    tymap = tymap or {}

    def tyof(e):
        if e in tymap:
            return tymap[e]
        if e[0] == "local" and b.mir and e[1] < len(b.mir["locals"]):
            return F.tys(b.mir["locals"][e[1]]["ty"])
        # types of a few leaf forms (parameters and their loads)
        if e[0] == "param":
            ins = b.d.get("inputs")
            if ins and e[1] - 1 < len(ins):
                return F.tys(ins[e[1] - 1])
            if b.mir:
                return F.tys(b.mir["locals"][e[1]]["ty"])
        if e[0] == "load":
            pl = e[1]
            if pl[0] == "index":
                base = pl[1]
                if base[0] == "deref" and base[1][0] == "param":
                    t = tyof(base[1]) or ""
                    if "[u8" in t:
                        return "u8"
                    if "[u32" in t:
                        return "u32"
                if base[0] == "field":
                    return None
            if pl[0] == "deref":
                t = tyof(pl[1]) or ""
                if t in ("&u8", "&mut u8"):
                    return "u8"
                if t in ("&u32", "&mut u32"):
                    return "u32"
        if e[0] == "call":
            if e[1].endswith("::leading_zeros"):
                return "u32"
            if e[1].endswith("<impl u8>::wrapping_sub") or e[1].endswith("<impl u8>::wrapping_add") or e[1].endswith("<impl u8>::rotate_left"):
                return "u8"
            if e[1].endswith("distance_on_ring_mod"):
                return "u8"
            if e[1].endswith("::len"):
                return "usize"
        if e[0] == "len":
            return "usize"
        if e[0] == "index" and e[1][0] == "table":
            c = F.consts.get(e[1][1])
            if c:
                t = F.ty(c["ty"])
                if t["k"] == "array":
                    return F.tys(t["elem"])
        if e[0] == "index" and e[1][0] == "index" and e[1][1][0] == "table":
            return "u8"
        return None

    return tyof


def array_len_of(F, b, e, env):
    """Constant length of the array/slice expression e when known from its type or a table."""
    if e[0] == "table":
        c = F.consts.get(e[1])
        if c:
            t = F.ty(c["ty"])
            if t["k"] == "array" and t["len"].get("k") == "val":
                return t["len"]["v"]
            if t["k"] == "array" and t["len"].get("k") == "uneval":
                bts = F.const_bytes(e[1])
                es = {"u8": 1, "u16": 2, "u32": 4, "usize": F.usize_bytes, "u64": 8}.get(F.tys(t["elem"]))
                if bts is not None and es:
                    return len(bts) // es
    if e[0] == "ref" or e[0] == "deref":
        return array_len_of(F, b, e[1], env)
    if e[0] == "param":
        ins = b.d.get("inputs")
        if ins and e[1] - 1 < len(ins):
            t = F.ty(ins[e[1] - 1])
            while t and t["k"] == "ref":
                t = F.ty(t["to"])
            if t and t["k"] == "array":
                l = t["len"]
                if l.get("k") == "val":
                    return l["v"]
                if l.get("k") == "cparam" and env is not None:
                    return env.get(l["n"])
    return None


def gated_len(B, x, env):
    """(exact, lower bound) of len(x) from path conditions."""
    for ln in (("call", "core::slice::<impl [T]>::len", (x,)), ("len", x), ("call", "alloc::vec::Vec::<T, A>::len", (x,))):
        if ln in B.eq:
            v = layout.ceval(B.eq[ln], env) if env is not None else (B.eq[ln][1] if B.eq[ln][0] == "const" else None)
            if v is not None:
                return v, v
        lo = B.lo.get(ln)
        for (a, b2, strict) in B.rel:
            if b2 == ln:
                v = layout.ceval(a, env) if env is not None else None
                if v is not None:
                    lo = max(lo or 0, v + (1 if strict else 0))
        if lo is not None:
            return None, lo
    return None, None


def cond_truth(e, B, tyof, env):
    """Truth value of a comparison when determined by constants/intervals, else None."""
    if e[0] != "bin" or e[1] not in ("Eq", "Ne", "Lt", "Le"):
        return None
    a, b2 = irange(e[2], B, tyof, env), irange(e[3], B, tyof, env)
    if a is None or b2 is None:
        return None
    op = e[1]
    if op in ("Eq", "Ne"):
        if a[0] == a[1] == b2[0] == b2[1]:
            return op == "Eq"
        if a[1] < b2[0] or b2[1] < a[0]:
            return op == "Ne"
        return None
    if op == "Lt":
        if a[1] < b2[0]:
            return True
        if a[0] >= b2[1]:
            return False
    if op == "Le":
        if a[1] <= b2[0]:
            return True
        if a[0] > b2[1]:
            return False
    return None


def one(F, S, b, p, s, envs):
    t = s.term
    B = Bounds(S, p, s.bb)
    raws = [d for (_, d, _, _) in p.conds] + [c for (bb_, _, c, _, _) in p.asserts if bb_ == s.bb] + [a for c in p.calls if c[0] == s.bb for a in c[2]]
    tyof = tyof_factory(S, b, build_tymap(S, raws))
    LENOF[0] = lambda x, env: _slen(F, b, x, B, env, tyof)

    def iter_ctor(local):
        v = p.env["locals"].get(local) if p.env else None
        while v is not None and v[0] == "mutated":
            v = v[3] if len(v) > 3 else None
        if v is None or v[0] in ("local",):
            return FALLBACK_ITER[0].get(local)
        return n(v)

    ITER[0] = iter_ctor
    env_list = [e for _, e in envs] if envs else [None]
    generic_consts = [g["n"] for g in b.d.get("generics", []) if g["k"] == "const"]
    if not generic_consts:
        fixed = concrete_self_env(F, b)
        if fixed:
            env_list = [dict(e or {}, **fixed) for e in env_list]
            # keep only variants consistent with the concrete arguments
            keep = [e for e in env_list if all((dict(envs_by(e, envs)).get(k, v) == v) for k, v in fixed.items())]
            env_list = keep or env_list
    if any(g not in common_names() for g in generic_consts):
        # functions generic over some other constant (e.g. N of the array codecs): try every variant value
        env_list = [dict((g, v) for g in generic_consts) for v in ALL_VALUES]
    # variants that can never take this path (one of its conditions is decided the other way by that variant's
    # constants alone) are not obliged to discharge the site on it
    def _const_truth(e, env):
        if e[0] in ("cpath", "cparam", "const"):
            v = layout.ceval(e, env) if env is not None else (e[1] if e[0] == "const" else None)
            return None if v is None else bool(v)
        return cond_truth(e, B0(), tyof, env)

    kept = []
    for env in env_list:
        feasible = True
        for (cbb, d, taken, vals) in p.conds:
            if vals != [0]:
                continue
            tv = _const_truth(n(d), env)
            if tv is not None and tv != (taken == "otherwise"):
                feasible = False
                break
        if feasible:
            kept.append(env)
    if not kept:
        return "infeasible-by-constants"
    env_list = kept
    if t["t"] == "assert":
        cond = None
        msg = None
        for (bb, kind, c, expected, m) in p.asserts:
            if bb == s.bb:
                cond, msg = pn(S, c), m
        if cond is None:
            return None
        kind = t["msg"]["kind"]
        if kind in ("overflow", "overflow_neg"):
            if cond[0] == "bin" and cond[1] in ("Lt", "Le", "Gt", "Ge"):
                # shift-amount check: the comparison must be true on every variant
                c2 = cond
                if all(cond_truth(c2, B, tyof, env) is True for env in env_list):
                    return "shift-amount-in-range"
                return None
            if cond[0] != "ovf":
                return None
            aty = operand_ty(b, t["msg"].get("a"))
            tr = type_range(aty) if aty else None
            if tr is None:
                return None
            expr = ("bin", cond[1], cond[2], cond[3])
            ok_all = True
            for env in env_list:
                r = irange(expr, B, tyof, env)
                if r is None or r[0] < tr[0] or r[1] > tr[1]:
                    ok_all = False
            if ok_all:
                return "interval-no-overflow"
            if cond[1] == "Add":
                def _trip(it_local):
                    # static upper bound of the number of items the iterator held in it_local can yield (max over variants), or None
                    comp = iter_components(ITER[0](it_local)) if ITER[0] is not None else None
                    if not comp:
                        return None
                    def one_len(c_):
                        if c_[0] == "zip":
                            ls = [one_len(c_[1]), one_len(c_[2])]
                            ls = [x for x in ls if x is not None]
                            return min(ls) if ls else None
                        base = c_[1]
                        vals_ = []
                        for env in env_list:
                            v_ = _slen(F, b, base, B, env, tyof)
                            if v_ is None:
                                return None
                            vals_.append(v_)
                        L_ = max(vals_) if vals_ else None
                        if L_ is not None and c_[0] == "chunk":
                            L_ = -(-L_ // c_[2])
                        return L_
                    ls = [one_len(c_) for c_ in comp]
                    return ls[0] if len(ls) == 1 else None
                if _bounded_counter(S, b, p, s, cond, _trip, lambda x: irange(x, B, tyof, env_list[0] if env_list else None)):
                    return "counter-bounded-by-iterations"
            # relational: a - b with b <= a known
            if cond[1] == "Sub":
                a_, b_ = cond[2], cond[3]
                for (x, y, strict) in B.rel:
                    if x == b_ and y == a_:
                        return "guarded-subtraction"
                # MAX_LEN - len after `len >= MAX_LEN` returned
            return None
        if kind in ("div_zero", "rem_zero"):
            c2 = cond
            if c2[0] == "bin" and c2[1] == "Eq":
                d = c2[3] if c2[2] == C(0) else c2[2]
                if all((irange(d, B, tyof, env) or (0, 0))[0] > 0 for env in env_list):
                    return "nonzero-divisor"
            return None
        if kind == "bounds":
            c2 = cond
            if c2[0] != "bin" or c2[1] != "Lt":
                return None
            index, ln = c2[2], c2[3]
            ok_all = True
            for env in env_list:
                L = layout.ceval(ln, env) if env is not None else (ln[1] if ln[0] == "const" else None)
                if L is None:
                    # len of a gated slice
                    x = ln[2][0] if ln[0] == "call" and ln[1].endswith("::len") else (ln[1] if ln[0] == "len" else None)
                    if x is not None:
                        if x[0] == "rawptr" or x[0] == "ref":
                            x = x[-1]
                        if x[0] == "deref":
                            x = x[1]
                        ex, lo = gated_len(B, x, env)
                        L = ex if ex is not None else lo
                        if L is None:
                            L = array_len_of(F, b, x, env)
                        if L is None:
                            L = _slen(F, b, x, B, env, tyof)
                r = irange(index, B, tyof, env)
                if L is None or r is None or r[1] >= L:
                    ok_all = False
            return "index-below-known-length" if ok_all else None
        return None
    # ---- calls
    call = None
    for c in p.calls:
        if c[0] == s.bb:
            call = c
    if call is None:
        return None
    (bb, path, args, cj) = call
    a = [pn(S, x) for x in args]
    if s.kind == "call" and s.what in ("split_at", "split_at_mut") and len(a) == 2:
        # x.split_at(k) panics iff k > len(x): the same obligation as x[..k]
        a = [a[0], ("agg", "adt:core::ops::RangeTo::RangeTo", (a[1],))]
        s = Site(s.body, s.bb, "index", "index", s.term)
    if s.kind == "index":
        base = a[0]
        rng = a[1]
        if rng[0] != "agg":
            return None
        rk = rng[1].rsplit("::", 1)[-1]
        ok_all = True
        for env in env_list:
            # total length of the indexed slice
            w = None
            root = base
            # find the parameter / local the slice derives from
            params = [P(i) for i in range(1, (b.mir["arg_count"] if b.mir else 0) + 1)]
            total = None
            for prm in params:
                w = layout.window(base, prm)
                if w is not None:
                    ex, lo = gated_len(B, prm, env)
                    total = ex if ex is not None else lo
                    if total is None:
                        total = array_len_of(F, b, prm, env)
                    break
            if w is None:
                # a local array / field of self / a table
                total = array_len_of(F, b, base, env)
                w = (C(0), None)
                if total is None and base[0] == "ref" and base[1][0] == "field":
                    total = field_array_len(F, b, base[1], env)
                if total is None and base[0] == "ref" and base[1][0] == "lv":
                    total = local_array_len(F, b, base[1][1], env)
                if total is None and base[0] == "ref" and base[1][0] == "mutated":
                    total = local_array_len(F, b, base[1][1][1] if base[1][1][0] == "lv" else None, env)
            if total is None:
                ok_all = False
                continue
            s0 = irange(w[0], B, tyof, env)
            avail_hi = irange(w[1], B, tyof, env) if w[1] is not None else (total, total)
            if s0 is None or avail_hi is None:
                ok_all = False
                continue
            avail = avail_hi[0] - s0[1]  # guaranteed length of the slice being indexed
            if rk == "Range":
                ra, rb = irange(rng[2][0], B, tyof, env), irange(rng[2][1], B, tyof, env)
                good = ra is not None and rb is not None and ra[1] <= rb[0] and rb[1] <= avail
                if not good and ra is not None and rb is not None and rb[1] <= avail:
                    # start <= end known relationally: end = start + x
                    e_ = rng[2][1]
                    good = e_[0] == "bin" and e_[1] == "Add" and rng[2][0] in (e_[2], e_[3])
                if not good and ra is not None:
                    good = sum_bounded(rng[2][1], avail, B, tyof, env) and (ra[1] <= (rb[0] if rb else 0) or (rng[2][1][0] == "bin" and rng[2][0] in (rng[2][1][2], rng[2][1][3])))
            elif rk == "RangeFrom":
                ra = irange(rng[2][0], B, tyof, env)
                good = ra is not None and ra[1] <= avail
                if not good:
                    good = le_known(rng[2][0], avail, base, B)
            elif rk == "RangeTo":
                rb = irange(rng[2][0], B, tyof, env)
                good = rb is not None and rb[1] <= avail
                if not good:
                    good = le_len_known(rng[2][0], base, B)
            elif rk == "RangeFull":
                good = True
            else:
                good = False
            if not good:
                ok_all = False
        return "window-inside-known-length" if ok_all else None
    if s.kind == "call":
        name = s.what
        if name in ("chunks_exact", "chunks_exact_mut", "chunks_mut"):
            return "nonzero-chunk-size" if a[1][0] == "const" and a[1][1] > 0 else None
        if name == "copy_from_slice":
            dl = static_len(F, b, a[0], B, envs, tyof)
            sl = static_len(F, b, a[1], B, envs, tyof)
            if dl is not None and sl is not None and dl == sl:
                return "equal-constant-lengths"
            return None
        if name == "select_nth_unstable":
            return None
        return None
    if s.kind == "panic":
        # the path to an explicit panic is infeasible if one of its conditions is decided the other way
        # by constants for every variant
        for (cbb, d, taken, vals) in p.conds:
            e = n(d)
            truth = (taken == "otherwise") if vals == [0] else (bool(taken) if taken != "otherwise" else None)
            if truth is None:
                continue
            vs = [cond_truth(e, B0(), tyof, env) for env in env_list]
            if all(v is not None and v != truth for v in vs):
                return "infeasible-by-constants"
        return None
    if s.kind == "unwrap":
        arg = a[0]
        # try_into of an exactly sized window / chunk
        if arg[0] == "call" and arg[1].endswith("TryInto<U>>::try_into"):
            src = arg[2][0]
            want = try_into_target_len(F, b, bb)
            if want is not None:
                ok_all = True
                for env in env_list:
                    w = want[1] if want[0] == "val" else (env.get(want[1]) if env else None)
                    g = _slen(F, b, src, B, env, tyof)
                    if w is None or g is None or w != g:
                        ok_all = False
                if ok_all:
                    return "exact-size-conversion"
        return None
    return None


BOUNDED_ITER = re.compile(r"^(core::slice::(iter::)?(Iter|IterMut|Chunks|ChunksExact|ChunksExactMut|ChunksMut|Windows)|core::ops::Range|core::ops::range::Range)<")
ADAPTERS = ("core::iter::Copied<", "core::iter::Cloned<", "core::iter::Rev<", "core::iter::Enumerate<", "core::iter::adapters::")


def _index_loop_trips(b, h, L):
    """K if the loop with header h is `while i < K` (K a constant) where the local i is 0 before the loop and its only other
    assignment is `i = i + 1`, once per cycle; else None"""
    blk = b.blocks[h]
    t = blk["term"]
    d = t.get("discr") or {}
    dl = (d.get("move") or d.get("copy") or {}).get("l")
    cmp_ = None
    for st in blk["stmts"]:
        if st.get("rv") == "bin" and st.get("op") == "Lt" and (st.get("dst") or {}).get("l") == dl and "p" not in st["dst"]:
            cmp_ = st
    if cmp_ is None or "const" not in cmp_["b"] or not isinstance(cmp_["b"]["const"].get("v"), int):
        return None
    # the body is entered on the true edge only
    tv = [x for x in t["targets"] if x[0] == 0]
    if len(tv) != 1 or tv[0][1] in L and t["otherwise"] in L:
        return None
    if t["otherwise"] not in L:
        return None
    K = cmp_["b"]["const"]["v"]
    il = (cmp_["a"].get("copy") or cmp_["a"].get("move") or {})
    if "p" in il or "l" not in il:
        return None
    i = il["l"]
    for st in blk["stmts"]:  # `_t = copy i` in the header
        if (st.get("dst") or {}).get("l") == i and st.get("rv") == "use" and "p" not in st["dst"]:
            src = (st["op"].get("copy") or st["op"].get("move") or {})
            if "p" in src or "l" not in src:
                return None
            i = src["l"]
    defs = b.defs().get(i, [])
    inside = [d_ for d_ in defs if d_[0] in L]
    outside = [d_ for d_ in defs if d_[0] not in L]
    if len(inside) != 1 or len(outside) != 1 or inside[0][1] == "term" or outside[0][1] == "term":
        return None
    o = outside[0]
    if o[2].get("rv") != "use" or (o[2]["op"].get("const") or {}).get("v") != 0 or not b.dominates(o[0], h):
        return None
    for blk2 in b.blocks:
        for st in blk2["stmts"]:
            if st.get("rv") in ("ref", "rawptr") and st.get("place", {}).get("l") == i:
                return None
    ins = inside[0]
    src = ins[2]["op"].get("move") or ins[2]["op"].get("copy") if ins[2].get("rv") == "use" else None
    if not src or src.get("p") is None or len(src["p"]) != 1 or src["p"][0].get("f") != 0:
        return None
    dt = b.single_def(src["l"])
    if dt is None or dt[1] == "term" or dt[2].get("rv") != "bin" or not dt[2]["op"].startswith("Add"):
        return None
    ops = [dt[2]["a"], dt[2]["b"]]
    is_i = lambda o_: (o_.get("copy") or o_.get("move") or {}).get("l") == i and "p" not in (o_.get("copy") or o_.get("move") or {})
    is_one = lambda o_: (o_.get("const") or {}).get("v") == 1
    if not ((is_i(ops[0]) and is_one(ops[1])) or (is_i(ops[1]) and is_one(ops[0]))):
        return None
    if ins[0] in b.reachable_from(b.succs(ins[0])[0], avoid=(h,)):
        return None
    return K


def _bounded_counter(S, b, p, s, cond, trip=None, rng=None):
    """`acc + x` with 0 <= x <= m (m a small constant) where the unsigned local acc is initialised to the constant 0 before an
    iterator-driven loop and its only other assignment is this addition, executed at most once per iteration: before the k-th
    addition acc <= m*(k-1).  For a usize acc and m = 1 any slice iterator or usize range is short enough (k <= isize::MAX
    resp. usize::MAX); otherwise the trip count must be statically bounded (iteration over arrays / windows of known length)
    with m * trips <= the type's maximum."""
    xs = [cond[2], cond[3]]
    accs = [x for x in xs if x[0] == "local"]
    if len(accs) != 1 or not p.blocks:
        return False
    acc = accs[0]
    inc = xs[1] if xs[0] == acc else xs[0]
    ir = (inc[1], inc[1]) if inc[0] == "const" else (rng(inc) if rng else None)
    if ir is None or ir[0] < 0 or ir[1] > 65535:
        return False
    m_inc = ir[1]
    a = acc[1]
    h = p.blocks[0]
    t = b.blocks[h]["term"]
    ty = b.local_ty(a)
    tr_ = type_range(ty.get("s")) if ty else None
    if tr_ is None or tr_[0] != 0:
        return False
    fwd0 = b.reachable_from(h)
    L0 = {x for x in fwd0 if b.dominates(h, x) and h in b.reachable_from(x)}
    ity = ""
    if t["t"] == "switch":
        # index loop: `while i < K` with i = 0 before the loop and i += 1 once per cycle: at most K cycles
        trips = _index_loop_trips(b, h, L0)
        if trips is None:
            return False
    else:
        if t["t"] != "call" or not (engine.callee_path(t) or "").endswith("::next") or len(t["args"]) != 1:
            return False
        # the iterator: next(&mut it)
        op = t["args"][0]
        l0 = (op.get("move") or op.get("copy") or {}).get("l")
        d0 = b.single_def(l0) if l0 is not None else None
        for _ in range(4):  # reborrows: _a = &mut *_b; _b = &mut it
            if d0 is not None and d0[1] != "term" and d0[2].get("rv") == "ref" and d0[2]["place"].get("p") == ["*"]:
                d0 = b.single_def(d0[2]["place"]["l"])
        if d0 is None or d0[1] == "term" or d0[2].get("rv") != "ref" or "p" in d0[2]["place"]:
            return False
        it_local = d0[2]["place"]["l"]
        ity = (b.local_ty(it_local) or {}).get("s", "")
        while ity.startswith(ADAPTERS) and "<" in ity:
            ity = ity.split("<", 1)[1]
        trips = trip(it_local) if trip else None
    if trips is not None:
        if m_inc * trips > tr_[1]:
            return False
    elif not (BOUNDED_ITER.match(ity) and ty.get("s") == "usize" and m_inc <= 1):
        return False
    fwd = b.reachable_from(h)
    L = {x for x in fwd if b.dominates(h, x) and h in b.reachable_from(x)}
    defs = b.defs().get(a, [])
    inside = [d for d in defs if d[0] in L]
    outside = [d for d in defs if d[0] not in L]
    if len(inside) != 1 or len(outside) != 1 or inside[0][1] == "term":
        return False
    o = outside[0]
    if o[1] == "term" or o[2].get("rv") != "use" or (o[2]["op"].get("const") or {}).get("v") != 0 or not b.dominates(o[0], h):
        return False
    # no borrow of acc / projected store
    for blk in b.blocks:
        for st in blk["stmts"]:
            if st.get("rv") in ("ref", "rawptr") and st.get("place", {}).get("l") == a:
                return False
    i = inside[0]
    src = i[2]["op"].get("move") or i[2]["op"].get("copy") if i[2].get("rv") == "use" else None
    if not src or src.get("p") is None or len(src["p"]) != 1 or src["p"][0].get("f") != 0:
        return False
    dt = b.single_def(src["l"])
    if dt is None or dt[1] == "term" or dt[2].get("rv") != "bin" or not dt[2]["op"].startswith("Add") or dt[0] != s.bb:
        return False
    ops = [dt[2]["a"], dt[2]["b"]]
    is_acc = lambda o_: (o_.get("copy") or o_.get("move") or {}).get("l") == a and "p" not in (o_.get("copy") or o_.get("move") or {})
    if not (is_acc(ops[0]) or is_acc(ops[1])):
        return False
    # the addend over ALL paths (not just this one): a constant, or a local every definition of which is a constant
    other = ops[1] if is_acc(ops[0]) else ops[0]
    if "const" in other:
        all_max = other["const"].get("v")
    else:
        ol = (other.get("copy") or other.get("move") or {})
        if "p" in ol or "l" not in ol:
            return False
        vals_ = []
        for d_ in b.defs().get(ol["l"], []):
            if d_[1] == "term":
                cp_ = engine.callee_path(d_[2]) or ""
                if cp_ in RET_SUMMARY[0]:
                    vals_.append(RET_SUMMARY[0][cp_][1])  # the result of a call whose value range another rule decides
                    continue
                return False
            if d_[2].get("rv") != "use" or "const" not in d_[2]["op"]:
                return False
            vals_.append(d_[2]["op"]["const"].get("v"))
        all_max = max(vals_) if vals_ and all(isinstance(v_, int) for v_ in vals_) else None
    if not isinstance(all_max, int) or all_max < 0 or all_max > 65535:
        return False
    if trips is not None:
        if all_max * trips > tr_[1]:
            return False
    elif all_max > 1:
        return False
    # the increment is not inside an inner loop: its block cannot reach itself without passing the header
    inner = b.reachable_from(b.succs(i[0])[0], avoid=(h,)) if b.succs(i[0]) else set()
    return i[0] not in inner and s.bb not in b.reachable_from(b.succs(s.bb)[0], avoid=(h,))


def envs_by(e, envs):
    """original (un-overridden) values of the variant env that `e` was derived from"""
    for _, env in (envs or []):
        if all(env.get(k) == e.get(k) for k in ("SIZE_CKSUM", "SIZE_BUCKETS", "SIZE_IN_BYTES") if k in env) :
            return env.items()
    return ()


def concrete_self_env(F, b):
    """{const param name: value} from the concrete generic arguments of the impl's self type
    (e.g. impl FuzzyHashBody for FuzzyHashBodyData<64> binds SIZE_BODY = 64)."""
    im = b.impl_info()
    if not im or im.get("generics"):
        return None
    st = F.ty(im["self_ty"])
    if not st or st.get("k") != "adt":
        return None
    a = None
    for x in F.d["adts"]:
        if x["path"] == st["path"]:
            a = x
    if a is None:
        return None
    out = {}
    names = [g["n"] for g in a["generics"] if g["k"] != "lt"]
    args = [x for x in st.get("args", []) if x.get("k") != "lt"]
    for nm, arg in zip(names, args):
        if arg.get("k") == "val":
            out[nm] = arg["v"]
    return out or None


class B0:
    """No path facts (used when a condition must be decided by constants alone)."""
    lo = {}
    hi = {}
    eq = {}
    rel = []

    def __call__(self):
        return self


def common_names():
    return ("SIZE_CKSUM", "SIZE_BODY", "SIZE_BUCKETS", "SIZE_IN_BYTES", "SIZE_IN_STR_BYTES")


def operand_ty(b, op):
    if not op:
        return None
    pl = op.get("copy") or op.get("move")
    if pl is not None:
        t = b.f.ty(b.mir["locals"][pl["l"]]["ty"])
        for e in pl.get("p", []):
            if isinstance(e, dict) and "f" in e:
                t = b.f.ty(e["ty"])
            elif e == "*" and t.get("k") in ("ref", "ptr"):
                t = b.f.ty(t["to"])
        return t["s"]
    c = op.get("const")
    if c is not None and c.get("ty") is not None:
        t = c["ty"]
        return b.f.tys(t) if isinstance(t, int) else t
    return None


def field_array_len(F, b, fld, env):
    # ('field', ('deref', P(1)), i): look at the self type's field
    if fld[1] == ("deref", P(1)):
        ins = b.d.get("inputs")
        if ins:
            t = F.ty(ins[0])
            while t and t["k"] == "ref":
                t = F.ty(t["to"])
            if t and t["k"] == "adt":
                fs = None
                for a in F.d["adts"]:
                    if a["path"] == t["path"]:
                        fs = a["variants"][0]["fields"]
                if fs and fld[2] < len(fs):
                    ft = F.ty(fs[fld[2]]["ty"])
                    if ft["k"] == "array":
                        l = ft["len"]
                        if l.get("k") == "val":
                            return l["v"]
                        if l.get("k") == "cparam" and env is not None:
                            return env.get(l["n"])
                        if l.get("k") == "uneval":
                            # e.g. [u8; WINDOW_SIZE - 1]
                            return 4 if "tail" == fs[fld[2]]["name"] and F.const_int("generate::WINDOW_SIZE") == 5 else None
    return None


def local_array_len(F, b, local, env):
    if local is None:
        return None
    t = b.local_ty(local)
    while t and t["k"] == "ref":
        t = F.ty(t["to"])
    if t and t["k"] == "array":
        l = t["len"]
        if l.get("k") == "val":
            return l["v"]
        if l.get("k") == "cparam" and env is not None:
            return env.get(l["n"])
    if t and t["k"] == "adt" and t["path"] == "alloc::vec::Vec":
        return None
    return None


def sum_bounded(e, limit, B, tyof, env):
    """e = a + b with a guard b <= K - a (or a <= K - b) and K <= limit."""
    if e[0] != "bin" or e[1] != "Add":
        return False
    a, b2 = e[2], e[3]
    for (x, y, strict) in B.rel:
        for p_, q_ in ((a, b2), (b2, a)):
            if x == p_ and y[0] == "bin" and y[1] == "Sub" and y[3] == q_:
                k = irange(y[2], B, tyof, env)
                if k is not None and k[1] <= limit:
                    return True
            # casts: x may be cast forms of the same value
    return False


def le_known(e, avail, base, B):
    return False


def le_len_known(e, base, B):
    """e <= len(base) known from a path condition (e.g. `if n > len {..}` guards)."""
    for (x, y, strict) in B.rel:
        if x == e and y[0] in ("call", "len") and base in (y[-1] if isinstance(y[-1], tuple) and y[0] == "call" else (y[1],)):
            return True
    return False


def static_len(F, b, e, B, envs, tyof):
    """Length of a slice expression when it is the same constant for every variant
    (or a per-variant tuple)."""
    out = []
    env_list = [x for _, x in envs] if envs else [None]
    for env in env_list:
        v = _slen(F, b, e, B, env, tyof)
        if v is None:
            return None
        out.append(v)
    return tuple(out)


def _closure_item_component(F, b, e):
    """For a closure body b passed to `iter.map(closure)` / `for_each` / `fold` in its parent: the iterator component that the
    projection e of the closure's item parameter denotes, else None."""
    if b.kind != "Closure":
        return None
    idx = []
    x = e
    while x[0] == "field":
        idx.append(x[2])
        x = x[1]
    idx.reverse()
    if x[0] == "deref":
        x = x[1]
    if x[0] != "param" or x[1] < 2:
        return None
    parent = F.fn(b.d.get("parent") or "")
    if parent is None:
        return None
    it = None
    item_param = None
    try:
        ppaths = sym.Sym(parent).paths(max_paths=64)
    except sym.PathLimit:
        return None
    for p in ppaths:
        for c in p.calls:
            nm = c[1].rsplit("::", 1)[-1]
            if nm in ("map", "for_each", "fold", "filter_map", "all", "any") and len(c[2]) >= 2:
                clo = n(c[2][-1])
                if find_all(clo, lambda y: y[0] == "agg" and isinstance(y[1], str) and y[1] == "closure:" + b.path):
                    it = n(c[2][0])
                    # map/for_each: closure(self, item); fold: closure(self, acc, item)
                    item_param = 3 if nm == "fold" else 2
    if it is None or x[1] != item_param:
        return None
    comp = iter_components(it)
    if not comp or len(comp) != 1:
        return None
    c = comp[0]
    for i in idx:
        if c[0] == "zip" and i in (0, 1):
            c = c[1 + i]
        else:
            return None
    return c


def _slen(F, b, e, B, env, tyof):
    if e[0] == "field" and e[2] in (0, 1) and e[1][0] == "call" and e[1][1].endswith(("::split_at", "::split_at_mut")) and len(e[1][2]) == 2:
        # x.split_at(k) = (x[..k], x[k..])
        k_ = irange(e[1][2][1], B, tyof, env)
        if k_ is None or k_[0] != k_[1]:
            return None
        if e[2] == 0:
            return k_[0]
        total = _slen(F, b, e[1][2][0], B, env, tyof)
        return None if total is None else total - k_[0]
    if b.kind == "Closure":
        c = _closure_item_component(F, b, e)
        if c is not None and c[0] == "chunk":
            if c[3]:
                return c[2]
            return None
    ic = item_component(e) if e[0] == "field" else None
    if ic is not None and ic[1] is not None and ITER[0] is not None:
        comp = iter_components(ITER[0](ic[0]))
        if comp and len(comp) == 1:
            c = comp[0]
            for i in ic[1]:
                if c[0] == "zip" and i in (0, 1):
                    c = c[1 + i]
                else:
                    c = None
                    break
            if c is not None and c[0] == "chunk":
                if c[3]:
                    return c[2]
                total = _slen(F, b, c[1], B, env, tyof)
                if total is not None and total % c[2] == 0:
                    return c[2]
        return None
    if e[0] == "deref":
        return _slen(F, b, e[1], B, env, tyof)
    if e[0] == "ref":
        inner = e[1]
        if inner[0] == "bytes" and inner[1] is not None:
            return len(inner[1]) // 2
        if inner[0] == "index" and inner[1][0] == "table":
            c = F.consts.get(inner[1][1])
            if c:
                t = F.ty(c["ty"])
                if t["k"] == "array":
                    et = F.ty(t["elem"])
                    if et["k"] == "array" and et["len"].get("k") == "val":
                        return et["len"]["v"]
        if inner[0] == "field":
            return field_array_len(F, b, inner, env)
        if inner[0] == "ref":
            return _slen(F, b, inner, B, env, tyof)
        return None
    if e[0] == "call":
        if len(e[2]) == 1 and e[1].endswith(("::as_slice", "::as_mut_slice", "::as_ref", "::as_mut")) and e[1].startswith(("core::array::", "core::slice::", "<[T; N] as ", "<[T] as ")):
            return _slen(F, b, e[2][0], B, env, tyof)  # a view of the whole array / slice
        if e[1].endswith(layout.INDEX_FNS) and len(e[2]) == 2 and e[2][1][0] == "agg":
            rk = e[2][1][1].rsplit("::", 1)[-1]
            if rk == "Range":
                a0 = irange(e[2][1][2][0], B, tyof, env)
                b0 = irange(e[2][1][2][1], B, tyof, env)
                if a0 and b0 and a0[0] == a0[1] and b0[0] == b0[1]:
                    return b0[0] - a0[0]
                # data-dependent but syntactically start..start+x
                return None
            if rk == "RangeFrom":
                total = _slen(F, b, e[2][0], B, env, tyof)
                a0 = irange(e[2][1][2][0], B, tyof, env)
                if total is not None and a0 and a0[0] == a0[1]:
                    return total - a0[0]
            return None
        # one-level callee summary: a local function whose single return value is a constant window
        Fn = b.f.fn(e[1]) if hasattr(b.f, "fn") else None
        if Fn is not None and Fn.mir is not None and depth_ok(e):
            try:
                rets = [q for q in sym.Sym(Fn).paths(max_paths=64) if q.end == "return"]
            except sym.PathLimit:
                rets = []
            if len(rets) == 1:
                re_ = n(rets[0].ret)
                if re_[0] == "call" and re_[1].endswith(layout.INDEX_FNS) and len(re_[2]) == 2 and re_[2][1][0] == "agg":
                    rk = re_[2][1][1].rsplit("::", 1)[-1]
                    ops = re_[2][1][2]
                    if rk == "RangeTo":
                        v = layout.ceval(ops[0], env) if env is not None else (ops[0][1] if ops[0][0] == "const" else None)
                        if v is not None:
                            return v
                    if rk == "Range":
                        a0 = layout.ceval(ops[0], env) if env is not None else None
                        b0 = layout.ceval(ops[1], env) if env is not None else None
                        if a0 is not None and b0 is not None:
                            return b0 - a0
        if e[1].endswith("::data") and len(e[2]) == 1:
            # accessor returning &[u8; K]: read K from the callee's return type via impl self
            if "FuzzyHashChecksumData" in e[1]:
                return env.get("SIZE_CKSUM") if env else None
            if "FuzzyHashBodyData" in e[1]:
                return env.get("SIZE_BODY") if env else None
        return None
    if e[0] == "field" and e[1][0] == "variant":
        # chunk item of chunks_exact(_mut)(k) zipped: field(variant(next(..),Some),0).i
        calls = find_all(e, lambda x: x[0] == "call" and x[1].endswith("::next"))
        return None
    if e[0] == "param":
        v = array_len_of(F, b, e, env)
        if v is None:
            ex, lo = gated_len(B, e, env)
            v = ex
        return v
    return None


def depth_ok(e):
    return True


def try_into_target_len(F, b, bb):
    """Target array length of the try_into whose result is unwrapped at block bb."""
    t = b.blocks[bb]["term"]
    # the unwrap's own generic arg T is the target array type
    c = t["callee"]
    for a in list((c.get("resolved") or c).get("args", [])) + list(c.get("args", [])):
        if a.get("k") == "ty":
            ty = F.ty(a["ty"])
            while ty and ty["k"] == "ref":
                ty = F.ty(ty["to"])
            if ty and ty["k"] == "array":
                l = ty["len"]
                if l.get("k") == "val":
                    return ("val", l["v"])
                if l.get("k") == "cparam":
                    return ("cparam", l["n"])
    return None


# ---------------------------------------------------------------- entry point


def check(ctx, r, F, roots, floor=1, allow=None):
    """Enumerate and discharge; `allow` maps site keys to a reason (documented panics)."""
    envs = layout.variant_envs(F)
    roots = [x for x in roots if x]
    sites, reach, G = collect(F, roots)
    discharge(F, sites, envs)
    ctx.instance(r, len(sites))
    allow = allow or {}
    for s in sites:
        key = (s.body.path, s.kind + ":" + s.what, "bb-role:" + site_role(s))
        if (s.body.path, s.kind, s.what) in allow or (s.body.path, s.kind) in allow:
            ctx.ob(r, key, True, "", cfg=F.key, where=s.body.where(), detail={"documented": allow.get((s.body.path, s.kind, s.what)) or allow.get((s.body.path, s.kind))})
            continue
        ok = not s.undischarged and bool(s.idioms)
        ctx.ob(r, key, ok,
               "panicking operation not discharged in %s: %s" % (s.body.path, "; ".join(sorted(set(s.undischarged))[:2])),
               cfg=F.key, where="%s (line %s)" % (s.body.where(), (s.term.get("loc") or {}).get("line")), detail={"idioms": sorted(s.idioms)})
    ctx.floor(r, floor, "panicking operations reachable")
    return sites


def site_role(s):
    """A line-independent description of the site inside its function."""
    t = s.term
    if t["t"] == "assert":
        m = t["msg"]
        return "%s/%s" % (m["kind"], m.get("op", ""))
    c = t["callee"]
    return (c.get("path") or "").rsplit("::", 1)[-1] + "#" + str(ordinal(s))


def ordinal(s):
    """Ordinal of this call among calls to the same callee in the function (stable under
    edits elsewhere)."""
    k = 0
    name = (s.term["callee"].get("path") or "")
    for i, blk in enumerate(s.body.blocks):
        t = blk["term"]
        if t["t"] == "call" and (t["callee"].get("path") or "") == name:
            if i == s.bb:
                return k
            k += 1
    return k


# ---------------------------------------------------------------- preconditions at call sites


def _only_params(e):
    bad = find_all(e, lambda x: x[0] in ("load", "local", "lv", "mutated", "field", "index", "deref", "cpath", "table")
                   or (x[0] == "call" and not x[1].endswith("::len")))
    return not bad


def _subst(e, args):
    if not isinstance(e, tuple):
        return e
    if e and e[0] == "param" and isinstance(e[1], int):
        return args[e[1] - 1] if e[1] - 1 < len(args) else e
    return tuple(_subst(x, args) if isinstance(x, tuple) else x for x in e)


def select_order_known(a, b):
    """a <= b from the post-condition of nested select_nth_unstable (left part <= pivot <= right part),
    or both are equal constants (dummy quartiles)."""
    if a[0] == "const" and b[0] == "const":
        return a[1] <= b[1]
    SEL = "core::slice::<impl [T]>::select_nth_unstable"

    def pivot_of(x):
        m = match(("load", ("deref", ("field", V("s"), 1))), x)
        return m["s"] if m and m["s"][0] == "call" and m["s"][1] == SEL else None

    sa, sb = pivot_of(a), pivot_of(b)
    if sa is None or sb is None:
        return False
    # a's selection ran on the left part of b's selection => a <= b
    if sa[2][0] == ("field", sb, 0):
        return True
    # b's selection ran on the right part of a's selection => a <= b
    if sb[2][0] == ("field", sa, 2):
        return True
    return False


def preconditions(F, G, sites, envs, depth_limit=3):
    """Discharge explicit panics whose guarding conditions mention only the function's parameters by checking
    every call site (transitively through callers whose arguments are again only parameters)."""
    callers = {}
    for b in F.bodies:
        if not b.mir or b.kind not in ("Fn", "AssocFn", "Closure"):
            continue
        if RUNTIME_REACH[0] is not None and b.path not in RUNTIME_REACH[0]:
            continue
        for i, t in b.calls():
            cp = (t["callee"].get("resolved") or {}).get("path") or t["callee"].get("path")
            callers.setdefault(cp, []).append((b, i))
        for m in b.d.get("mono") or []:
            for c in m["calls"]:
                callers.setdefault(c["resolved"]["path"], []).append((b, c["bb"]))
    cache = {}

    def chains_ok(fpath, chains, depth):
        """chains: list of [(cond, truth)] each leading to a panic; True if infeasible at every call site."""
        if depth > depth_limit:
            return False
        cs = callers.get(fpath, [])
        # trait-dispatched forwarding impls
        if not cs:
            return False
        seen_any = False
        for (cb, bb) in cs:
            key = (cb.path, bb)
            S = sym.Sym(cb)
            try:
                paths = S.paths()
                hdrs = {p.blocks[-1] for p in paths if p.end == "loop"}
                for h in hdrs:
                    paths = paths + S.paths(entry=h)
            except sym.PathLimit:
                return False
            fb = {}
            for p in paths:
                for l, v in (p.env["locals"].items() if p.env else ()):
                    w = v
                    while w is not None and w[0] == "mutated":
                        w = w[3] if len(w) > 3 else None
                    if v[0] == "mutated" and w is not None and w[0] == "call":
                        fb.setdefault(l, n(w))
            for p in paths:
                call = [c for c in p.calls if c[0] == bb]
                if not call:
                    continue
                seen_any = True
                args = [n(a) for a in call[0][2]]
                B = Bounds(S, p, bb)
                raws = [d for (_, d, _, _) in p.conds] + list(call[0][2])
                tyof = tyof_factory(S, cb, build_tymap(S, raws))

                def ctor(local, p=p, fb=fb):
                    v = p.env["locals"].get(local) if p.env else None
                    while v is not None and v[0] == "mutated":
                        v = v[3] if len(v) > 3 else None
                    if v is None or v[0] == "local":
                        return fb.get(local)
                    return n(v)

                ITER[0] = ctor
                LENOF[0] = lambda x, env, cb=cb, B=B, tyof=tyof: _slen(F, cb, x, B, env, tyof)
                env_list = [e for _, e in envs] if envs else [None]
                for chain in chains:
                    sub = [(_subst(c, args), t) for c, t in chain]
                    infeasible = False
                    undecided = []
                    for c, t in sub:
                        vs = [cond_truth(c, B, tyof, env) for env in env_list]
                        if all(v is not None and v != t for v in vs):
                            infeasible = True
                            break
                        if c[0] == "bin" and c[1] == "Le" and t is False and select_order_known(c[2], c[3]):
                            infeasible = True
                            break
                        undecided.append((c, t))
                    if infeasible:
                        continue
                    # push the obligation up if it only mentions the caller's parameters
                    if all(_only_params(c) for c, t in undecided) and cb.kind != "Closure":
                        if not chains_ok(cb.path, [undecided], depth + 1):
                            return False
                    else:
                        return False
        return seen_any

    for s in sites:
        if s.kind != "panic" or not s.undischarged:
            continue
        b = s.body
        S = sym.Sym(b)
        chains = []
        okshape = True
        for p in S.paths():
            if s.bb not in p.blocks:
                continue
            chain = [(n(d), (taken == "otherwise") if vals == [0] else (bool(taken) if taken != "otherwise" else None)) for (_, d, taken, vals) in p.conds]
            if any(t is None for _, t in chain) or not all(_only_params(c) for c, t in chain):
                okshape = False
            chains.append(chain)
        if not okshape or not chains:
            continue
        if chains_ok(b.path, chains, 0):
            s.undischarged = []
            s.idioms.add("precondition-holds-at-every-call-site")


# ---------------------------------------------------------------- linear relational reasoning

SLICE_LEN = "core::slice::<impl [T]>::len"
SYMLEN = [None]


def lin(e, env, depth=0):
    """Linear form (const, {atom: coef}) of a normalised integer expression; constants of the crate are
    folded with `env`; anything non-linear is an atom."""
    if depth > 40:
        return (0, {e: 1})
    k = e[0]
    if k == "const":
        return (e[1], {})
    if k in ("cparam", "cpath"):
        v = layout.ceval(e, env) if env is not None else None
        if v is not None:
            return (v, {})
        return (0, {e: 1})
    if k == "cast":
        if e[1] != "IntToInt":
            return lin(e[3], env, depth + 1)
        return (0, {e: 1})
    if k == "len":
        return lin(("call", SLICE_LEN, (e[1],)), env, depth + 1)
    if k == "call" and e[1] == SLICE_LEN and len(e[2]) == 1 and SYMLEN[0] is not None:
        x = e[2][0]
        if x[0] in ("call", "ref", "deref", "cast", "field") and not (x[0] == "call" and not x[1].endswith(layout.INDEX_FNS)):
            sl = SYMLEN[0](x, env)
            if sl is not None and sl != e:
                return lin(sl, env, depth + 1)
    if k == "bin" and e[1] in ("Add", "Sub"):
        a, b = lin(e[2], env, depth + 1), lin(e[3], env, depth + 1)
        s = 1 if e[1] == "Add" else -1
        d = dict(a[1])
        for t, c in b[1].items():
            d[t] = d.get(t, 0) + s * c
            if d[t] == 0:
                del d[t]
        return (a[0] + s * b[0], d)
    if k == "bin" and e[1] == "Mul" and e[2][0] == "const":
        b = lin(e[3], env, depth + 1)
        return (e[2][1] * b[0], {t: e[2][1] * c for t, c in b[1].items()})
    return (0, {e: 1})


def lin_sub(a, b):
    d = dict(a[1])
    for t, c in b[1].items():
        d[t] = d.get(t, 0) - c
        if d[t] == 0:
            del d[t]
    return (a[0] - b[0], d)


def derived_rels(exprs):
    """Facts that hold by the meaning of library calls: u32::try_from(x).unwrap_or(u32::MAX) <= x."""
    out = []
    for e in exprs:
        for x in find_all(e, lambda y: y[0] == "call" and y[1].endswith("::unwrap_or") and len(y[2]) == 2 and y[2][1] == C(0xFFFFFFFF)
                          and y[2][0][0] == "call" and y[2][0][1].endswith("::try_from") and len(y[2][0][2]) == 1):
            out.append((x, x[2][0][2][0], False))
        # the Ok payload of uN::try_from(x) is x
        for x in find_all(e, lambda y: y[0] == "field" and y[2] == 0 and y[1][0] == "variant" and y[1][2] == "Ok" and y[1][1][0] == "call"
                          and y[1][1][1].endswith("::try_from") and len(y[1][1][2]) == 1):
            out.append((x, x[1][1][2][0], False))
            out.append((x[1][1][2][0], x, False))
        # the Some payload of a.checked_sub(b) / checked_add is a - b / a + b
        for x in find_all(e, lambda y: y[0] == "field" and y[2] == 0 and y[1][0] == "variant" and y[1][2] == "Some" and y[1][1][0] == "call"
                          and y[1][1][1].endswith(("::checked_sub", "::checked_add")) and len(y[1][1][2]) == 2):
            c_ = x[1][1]
            val = ("bin", "Sub" if c_[1].endswith("checked_sub") else "Add", c_[2][0], c_[2][1])
            out.append((x, val, False))
            out.append((val, x, False))
        # a truncating integer cast of an unsigned value never exceeds the value
        for x in find_all(e, lambda y: y[0] == "cast" and y[1] == "IntToInt" and str(y[2]).startswith("u")):
            out.append((x, x[3], False))
    return out


def le(e1, e2, B, env, tyof, rels=None, depth=2):
    """e1 <= e2 from linear arithmetic, at most `depth` path facts, and intervals of the remaining atoms."""
    d = lin_sub(lin(e2, env), lin(e1, env))
    return nonneg(d, B, env, tyof, rels if rels is not None else list(B.rel), depth)


def nonneg(d, B, env, tyof, rels, depth):
    if not d[1]:
        return d[0] >= 0
    # interval of the remaining atoms
    lo = d[0]
    ok = True
    for t, c in d[1].items():
        r = irange(t, B, tyof, env)
        if r is None:
            ok = False
            break
        lo += c * (r[0] if c > 0 else r[1])
    if ok and lo >= 0:
        return True
    if depth <= 0:
        return False
    for (a, b, strict) in rels:
        g = lin_sub(lin(b, env), lin(a, env))  # >= s
        if not g[1]:
            continue
        s = 1 if strict else 0
        d2 = lin_sub(d, g)
        # use the fact only if it removes at least one atom
        if len(d2[1]) < len(d[1]) or (set(d2[1]) != set(d[1])):
            if nonneg((d2[0] + s, d2[1]), B, env, tyof, rels, depth - 1):
                return True
    return False


def prove_le(F, S, b, p, bb, e1, e2, envs):
    """e1 <= e2 at block bb of path p, for every variant, from the path's facts (interval + linear relational reasoning)"""
    B = Bounds(S, p, bb)
    raws = [d for (_, d, _, _) in p.conds]
    tyof = tyof_factory(S, b, build_tymap(S, raws))
    LENOF[0] = lambda x, env: _slen(F, b, x, B, env, tyof)
    SYMLEN[0] = lambda x, env: symlen(F, b, x, env)
    conds_n = [pn(S, d) for (_, d, _, _) in p.conds]
    for env in ([e for _, e in envs] if envs else [None]):
        rels = list(B.rel) + derived_rels(conds_n + [e1, e2])
        if not le(e1, e2, B, env, tyof, rels):
            return False
    return True


def symlen(F, b, e, env):
    """Symbolic length (normalised expression) of a slice-valued expression, or None."""
    k = e[0]
    if k in ("param", "local"):
        v = array_len_of(F, b, e, env) if k == "param" else None
        return C(v) if v is not None else ("call", SLICE_LEN, (e,))
    if k == "cast":
        return symlen(F, b, e[3], env)
    if k == "deref":
        return symlen(F, b, e[1], env)
    if k == "ref":
        inner = e[1]
        if inner[0] == "field":
            v = field_array_len(F, b, inner, env)
            return C(v) if v is not None else None
        if inner[0] == "bytes" and inner[1] is not None:
            return C(len(inner[1]) // 2)
        if inner[0] in ("lv", "mutated"):
            l = inner[1] if inner[0] == "lv" else (inner[1][1] if isinstance(inner[1], tuple) else inner[1])
            v = local_array_len(F, b, l, env)
            return C(v) if v is not None else None
        if inner[0] == "index" and inner[1][0] == "table":
            v = _slen(F, b, e, B0(), env, lambda x: None)
            return C(v) if v is not None else None
        return symlen(F, b, inner, env)
    if k == "field" and e[2] == 0 and e[1][0] == "variant" and e[1][2] == "Some" and e[1][1][0] == "call" \
            and e[1][1][1].endswith(("::get", "::get_mut")) and len(e[1][1][2]) == 2 and e[1][1][2][1][0] == "agg":
        return symlen(F, b, ("call", "core::slice::index::<impl core::ops::Index<I> for [T]>::index", e[1][1][2]), env)
    if k == "field" and e[2] in (0, 1) and e[1][0] == "call" and e[1][1].endswith(("::split_at", "::split_at_mut")) and len(e[1][2]) == 2:
        # x.split_at(k) = (x[..k], x[k..])
        if e[2] == 0:
            return e[1][2][1]
        base = symlen(F, b, e[1][2][0], env)
        return ("bin", "Sub", base, e[1][2][1]) if base is not None else None
    if k == "call" and e[1].endswith(layout.INDEX_FNS) and len(e[2]) == 2 and e[2][1][0] == "agg":
        rk = e[2][1][1].rsplit("::", 1)[-1]
        ops = e[2][1][2]
        if rk == "Range":
            return ("bin", "Sub", ops[1], ops[0])
        if rk == "RangeTo":
            return ops[0]
        if rk == "RangeFrom":
            base = symlen(F, b, e[2][0], env)
            return ("bin", "Sub", base, ops[0]) if base is not None else None
        if rk == "RangeFull":
            return symlen(F, b, e[2][0], env)
    v = _slen(F, b, e, B0(), env, lambda x: None)
    return C(v) if v is not None else None


def relational(F, S, b, p, s, envs):
    """Second-chance idioms based on linear relations between path facts."""
    t = s.term
    B = Bounds(S, p, s.bb)
    raws = [d for (_, d, _, _) in p.conds] + [c for (bb_, _, c, _, _) in p.asserts if bb_ == s.bb] + [a for c in p.calls if c[0] == s.bb for a in c[2]]
    tyof = tyof_factory(S, b, build_tymap(S, raws))
    LENOF[0] = lambda x, env: _slen(F, b, x, B, env, tyof)
    env_list = [e for _, e in envs] if envs else [None]
    SYMLEN[0] = lambda x, env: symlen(F, b, x, env)
    conds_n = [pn(S, d) for (_, d, _, _) in p.conds]
    if t["t"] == "assert":
        cond = None
        for (bb, kind, c, expected, m) in p.asserts:
            if bb == s.bb:
                cond = pn(S, c)
        if cond is not None and t["msg"]["kind"] == "bounds" and cond[0] == "bin" and cond[1] == "Lt":
            # index < len from linear facts (e.g. index = checked_sub(i, 1) payload with i < len known from a successful get(i))
            for env in env_list:
                rels = list(B.rel) + derived_rels(conds_n + [cond])
                if not le(("bin", "Add", cond[2], C(1)), cond[3], B, env, tyof, rels):
                    return None
            return "linear-relational-index"
        if cond is None or cond[0] != "ovf" or t["msg"]["kind"] != "overflow":
            return None
        aty = operand_ty(b, t["msg"].get("a"))
        tr = type_range(aty) if aty else None
        if tr is None:
            return None
        expr = ("bin", cond[1], cond[2], cond[3])
        for env in env_list:
            rels = list(B.rel) + derived_rels(conds_n + [expr])
            if not (le(C(0), expr, B, env, tyof, rels) and le(expr, C(tr[1]), B, env, tyof, rels)):
                return None
        return "linear-relational-no-overflow"
    call = None
    for c in p.calls:
        if c[0] == s.bb:
            call = c
    if call is None:
        return None
    a = [pn(S, x) for x in call[2]]
    if s.kind == "call" and s.what in ("split_at", "split_at_mut") and len(a) == 2:
        a = [a[0], ("agg", "adt:core::ops::RangeTo::RangeTo", (a[1],))]
        s = Site(s.body, s.bb, "index", "index", s.term)
    if s.kind == "index" and a[1][0] == "agg":
        rk = a[1][1].rsplit("::", 1)[-1]
        ops = a[1][2]
        for env in env_list:
            L = symlen(F, b, a[0], env)
            if L is None:
                return None
            rels = list(B.rel) + derived_rels(conds_n + list(a))
            if rk == "Range":
                good = le(ops[0], ops[1], B, env, tyof, rels) and le(ops[1], L, B, env, tyof, rels)
            elif rk == "RangeFrom":
                good = le(ops[0], L, B, env, tyof, rels)
            elif rk == "RangeTo":
                good = le(ops[0], L, B, env, tyof, rels)
            else:
                good = rk == "RangeFull"
            if not good:
                return None
        return "linear-relational-window"
    if s.kind == "call" and s.what == "copy_from_slice":
        for env in env_list:
            l1, l2 = symlen(F, b, a[0], env), symlen(F, b, a[1], env)
            if l1 is None or l2 is None:
                return None
            d = lin_sub(lin(l1, env), lin(l2, env))
            if d != (0, {}):
                return None
        return "equal-symbolic-lengths"
    if s.kind == "call" and s.what == "copy_within" and a[1][0] == "agg":
        rk = a[1][1].rsplit("::", 1)[-1]
        ops = a[1][2]
        for env in env_list:
            L = symlen(F, b, a[0], env)
            if L is None or rk not in ("RangeFrom", "Range"):
                return None
            rels = list(B.rel)
            end = L if rk == "RangeFrom" else ops[1]
            count = ("bin", "Sub", end, ops[0])
            if not (le(ops[0], end, B, env, tyof, rels) and le(end, L, B, env, tyof, rels) and le(("bin", "Add", a[2], count), L, B, env, tyof, rels)):
                return None
        return "linear-relational-copy-within"
    return None
