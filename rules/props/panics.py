"""Enumeration and discharge of panicking operations (Assert terminators, panicking calls)
reachable from given roots.  Discharge is by named idioms over the path conditions that
dominate the site (interval reasoning over comparisons against constants, constant folding
for the hash variants, window-inside-gated-length); anything unmatched is reported."""
from .. import sym, callgraph
from ..norm import n, P, C, V, ANY, match, find_all
from . import layout, common

PANIC_CALL_SUFFIX = (
    "::unwrap", "::expect", "::unwrap_err",
)
INDEX_CALLS = ("core::slice::index::<impl core::ops::Index<I> for [T]>::index",
               "core::slice::index::<impl core::ops::IndexMut<I> for [T]>::index_mut",
               "core::array::<impl core::ops::Index<I> for [T; N]>::index",
               "core::array::<impl core::ops::IndexMut<I> for [T; N]>::index_mut",
               "<alloc::vec::Vec<T, A> as core::ops::Index<I>>::index",
               "<alloc::vec::Vec<T, A> as core::ops::IndexMut<I>>::index_mut")
OTHER_PANICKY = ("core::slice::<impl [T]>::copy_from_slice", "core::slice::<impl [T]>::copy_within",
                 "core::slice::<impl [T]>::chunks_exact", "core::slice::<impl [T]>::chunks_exact_mut", "core::slice::<impl [T]>::chunks_mut",
                 "core::slice::<impl [T]>::select_nth_unstable", "core::slice::<impl [T]>::split_at", "core::slice::<impl [T]>::split_at_mut")
ALL_VALUES = sorted({v for t in common.VARIANTS.values() for v in t})
WIDTH = {"u8": 8, "u16": 16, "u32": 32, "u64": 64, "usize": 64, "i32": 32, "i8": 8}


class Site:
    def __init__(self, body, bb, kind, what, term):
        self.body, self.bb, self.kind, self.what, self.term = body, bb, kind, what, term
        self.idioms = set()
        self.undischarged = []

    def key(self):
        return (self.body.path, self.kind, self.what)


def collect(F, roots, G=None):
    G = G or callgraph.CallGraph(F)
    reach = G.reach(roots)
    sites = []
    for path in sorted(reach):
        b = G.nodes[path]
        if b.kind not in ("Fn", "AssocFn", "Closure"):
            continue
        for i, blk in enumerate(b.blocks):
            if blk.get("cleanup"):
                continue
            t = blk["term"]
            if t["t"] == "assert":
                k = t["msg"]["kind"]
                if k in ("misaligned_ptr", "null_ptr"):
                    continue
                sites.append(Site(b, i, "assert:" + k, "", t))
            elif t["t"] == "call":
                cp = (t["callee"].get("resolved") or {}).get("path") or t["callee"].get("path") or ""
                if cp.startswith("core::panicking::"):
                    sites.append(Site(b, i, "panic", cp.rsplit("::", 1)[-1], t))
                elif cp.endswith(PANIC_CALL_SUFFIX) and (cp.startswith("core::option::Option") or cp.startswith("core::result::Result")):
                    sites.append(Site(b, i, "unwrap", cp.rsplit("::", 1)[-1], t))
                elif cp in INDEX_CALLS:
                    sites.append(Site(b, i, "index", cp.rsplit("::", 1)[-1], t))
                elif cp in OTHER_PANICKY:
                    sites.append(Site(b, i, "call", cp.rsplit("::", 1)[-1], t))
    return sites, reach, G


# ---------------------------------------------------------------- intervals


def type_range(tys):
    w = WIDTH.get(tys)
    return (0, (1 << w) - 1) if w and tys.startswith("u") else None


class Bounds:
    """Facts from the conditions preceding a site on one path."""

    def __init__(self, S, path, upto_bb):
        self.lo = {}
        self.hi = {}
        self.eq = {}  # expr -> expr (len(x) == K)
        self.rel = []  # (a, b) meaning a <= b
        for (bb, d, taken, vals) in path.conds:
            if path.blocks.index(bb) >= path.blocks.index(upto_bb) if (bb in path.blocks and upto_bb in path.blocks) else False:
                break
            e = n(d)
            truth = (taken == "otherwise") if vals == [0] else (bool(taken) if taken != "otherwise" else None)
            if truth is None or e[0] != "bin":
                continue
            op, a, b = e[1], e[2], e[3]
            if op == "Ne":
                op, truth = "Eq", not truth
            if op == "Eq":
                if truth:
                    self.eq[a] = b
                    self.eq[b] = a
                    for x, y in ((a, b), (b, a)):
                        if y[0] == "const":
                            self._lo(x, y[1])
                            self._hi(x, y[1])
                else:
                    # x != 0 for unsigned
                    for x, y in ((a, b), (b, a)):
                        if y == C(0):
                            self._lo(x, 1)
            elif op in ("Lt", "Le"):
                if not truth:
                    # !(a < b) == b <= a ; !(a <= b) == b < a
                    a, b = b, a
                    op = "Le" if op == "Lt" else "Lt"
                strict = op == "Lt"
                self.rel.append((a, b, strict))
                if b[0] == "const":
                    self._hi(a, b[1] - (1 if strict else 0))
                if a[0] == "const":
                    self._lo(b, a[1] + (1 if strict else 0))

    def _lo(self, e, v):
        self.lo[e] = max(self.lo.get(e, v), v)

    def _hi(self, e, v):
        self.hi[e] = min(self.hi.get(e, v), v)


LENOF = [None]


def irange(e, B, tyof, env=None, depth=0):
    """(lo, hi) of expression e (normalised) or None."""
    if depth > 30:
        return None
    k = e[0]
    if (k == "call" and e[1].endswith("::len") and len(e[2]) == 1) or k == "len":
        if LENOF[0] is not None:
            v = LENOF[0](e[2][0] if k == "call" else e[1], env)
            if v is not None:
                return (v, v)
    if k == "const":
        return (e[1], e[1])
    if k in ("cparam", "cpath"):
        if env is not None:
            v = layout.ceval(e, env)
            if v is not None:
                return (v, v)
        if k == "cparam":
            return (min(ALL_VALUES), max(ALL_VALUES))
        return None
    base = tyof(e)
    r = type_range(base) if base else None
    if k == "bin":
        a = irange(e[2], B, tyof, env, depth + 1)
        b = irange(e[3], B, tyof, env, depth + 1)
        op = e[1]
        if op == "BitAnd":
            cands = [x[1] for x in (a, b) if x is not None]
            r2 = (0, min(cands)) if cands else None
        elif a is None or b is None:
            r2 = None
        elif op == "Add":
            r2 = (a[0] + b[0], a[1] + b[1])
        elif op == "Sub":
            r2 = (a[0] - b[1], a[1] - b[0])
        elif op == "Mul":
            r2 = (a[0] * b[0], a[1] * b[1])
        elif op == "Div":
            r2 = (a[0] // max(b[1], 1), a[1] // max(b[0], 1)) if b[0] > 0 else None
        elif op == "Rem":
            r2 = (0, b[1] - 1) if b[0] > 0 else None
        elif op == "Shr":
            r2 = (a[0] >> b[1], a[1] >> b[0])
        elif op == "Shl":
            r2 = (a[0] << b[0], a[1] << b[1])
        elif op == "BitOr" or op == "BitXor":
            m = max(a[1], b[1])
            r2 = (0, (1 << m.bit_length()) - 1)
        else:
            r2 = None
        r = r2 if r2 is not None else r
    elif k == "cast":
        inner = irange(e[3], B, tyof, env, depth + 1)
        tr = type_range(e[2])
        if inner is not None and (tr is None or (inner[0] >= tr[0] and inner[1] <= tr[1])):
            r = inner
        else:
            r = tr
    lo = B.lo.get(e)
    hi = B.hi.get(e)
    if r is None and (lo is not None or hi is not None):
        r = (0, (1 << 64) - 1)
    if r is not None:
        r = (max(r[0], lo) if lo is not None else r[0], min(r[1], hi) if hi is not None else r[1])
    return r


# ---------------------------------------------------------------- idioms


def discharge(F, sites, envs):
    by_fn = {}
    for s in sites:
        by_fn.setdefault(s.body.path, []).append(s)
    for path, ss in by_fn.items():
        b = ss[0].body
        S = sym.Sym(b)
        try:
            paths = S.paths()
        except sym.PathLimit:
            for s in ss:
                s.undischarged.append("path explosion")
            continue
        # loop bodies: also walk from loop headers so that sites inside later iterations are seen
        hdrs = {p.blocks[-1] for p in paths if p.end == "loop"}
        extra = []
        for h in hdrs:
            try:
                extra += S.paths(entry=h)
            except sym.PathLimit:
                pass
        for s in ss:
            hit = 0
            for p in paths + extra:
                if s.bb not in p.blocks:
                    continue
                hit += 1
                idiom = one(F, S, b, p, s, envs)
                if idiom:
                    s.idioms.add(idiom)
                else:
                    s.undischarged.append(describe(S, p, s))
            if hit == 0:
                # not on any enumerated path (unreachable in this configuration, e.g. after a constant branch)
                s.idioms.add("unreachable-under-constant-branch")


def describe(S, p, s):
    t = s.term
    if t["t"] == "assert":
        for (bb, kind, cond, expected, msg) in p.asserts:
            if bb == s.bb:
                return "%s %s" % (kind, sym.fmt(n(cond))[:140])
    for c in p.calls:
        if c[0] == s.bb:
            return "%s(%s)" % (c[1].rsplit("::", 1)[-1], ", ".join(sym.fmt(n(a))[:80] for a in c[2]))
    return s.kind


def tyof_factory(S, b):
    F = b.f

    def tyof(e):
        # types of a few leaf forms (parameters and their loads)
        if e[0] == "param":
            ins = b.d.get("inputs")
            if ins and e[1] - 1 < len(ins):
                return F.tys(ins[e[1] - 1])
            if b.mir:
                return F.tys(b.mir["locals"][e[1]]["ty"])
        if e[0] == "load":
            pl = e[1]
            if pl[0] == "index":
                base = pl[1]
                if base[0] == "deref" and base[1][0] == "param":
                    t = tyof(base[1]) or ""
                    if "[u8" in t:
                        return "u8"
                    if "[u32" in t:
                        return "u32"
                if base[0] == "field":
                    return None
            if pl[0] == "deref":
                t = tyof(pl[1]) or ""
                if t in ("&u8", "&mut u8"):
                    return "u8"
                if t in ("&u32", "&mut u32"):
                    return "u32"
        if e[0] == "call":
            if e[1].endswith("::leading_zeros"):
                return "u32"
            if e[1].endswith("<impl u8>::wrapping_sub") or e[1].endswith("<impl u8>::wrapping_add") or e[1].endswith("<impl u8>::rotate_left"):
                return "u8"
            if e[1].endswith("distance_on_ring_mod"):
                return "u8"
            if e[1].endswith("::len"):
                return "usize"
        if e[0] == "len":
            return "usize"
        if e[0] == "index" and e[1][0] == "table":
            c = F.consts.get(e[1][1])
            if c:
                t = F.ty(c["ty"])
                if t["k"] == "array":
                    return F.tys(t["elem"])
        if e[0] == "index" and e[1][0] == "index" and e[1][1][0] == "table":
            return "u8"
        return None

    return tyof


def array_len_of(F, b, e, env):
    """Constant length of the array/slice expression e when known from its type or a table."""
    if e[0] == "table":
        c = F.consts.get(e[1])
        if c:
            t = F.ty(c["ty"])
            if t["k"] == "array" and t["len"].get("k") == "val":
                return t["len"]["v"]
            if t["k"] == "array" and t["len"].get("k") == "uneval":
                bts = F.const_bytes(e[1])
                es = {"u8": 1, "u16": 2, "u32": 4, "usize": 8, "u64": 8}.get(F.tys(t["elem"]))
                if bts is not None and es:
                    return len(bts) // es
    if e[0] == "ref" or e[0] == "deref":
        return array_len_of(F, b, e[1], env)
    if e[0] == "param":
        ins = b.d.get("inputs")
        if ins and e[1] - 1 < len(ins):
            t = F.ty(ins[e[1] - 1])
            while t and t["k"] == "ref":
                t = F.ty(t["to"])
            if t and t["k"] == "array":
                l = t["len"]
                if l.get("k") == "val":
                    return l["v"]
                if l.get("k") == "cparam" and env is not None:
                    return env.get(l["n"])
    return None


def gated_len(B, x, env):
    """(exact, lower bound) of len(x) from path conditions."""
    for ln in (("call", "core::slice::<impl [T]>::len", (x,)), ("len", x), ("call", "alloc::vec::Vec::<T, A>::len", (x,))):
        if ln in B.eq:
            v = layout.ceval(B.eq[ln], env) if env is not None else (B.eq[ln][1] if B.eq[ln][0] == "const" else None)
            if v is not None:
                return v, v
        lo = B.lo.get(ln)
        for (a, b2, strict) in B.rel:
            if b2 == ln:
                v = layout.ceval(a, env) if env is not None else None
                if v is not None:
                    lo = max(lo or 0, v + (1 if strict else 0))
        if lo is not None:
            return None, lo
    return None, None


def cond_truth(e, B, tyof, env):
    """Truth value of a comparison when determined by constants/intervals, else None."""
    if e[0] != "bin" or e[1] not in ("Eq", "Ne", "Lt", "Le"):
        return None
    a, b2 = irange(e[2], B, tyof, env), irange(e[3], B, tyof, env)
    if a is None or b2 is None:
        return None
    op = e[1]
    if op in ("Eq", "Ne"):
        if a[0] == a[1] == b2[0] == b2[1]:
            return op == "Eq"
        if a[1] < b2[0] or b2[1] < a[0]:
            return op == "Ne"
        return None
    if op == "Lt":
        if a[1] < b2[0]:
            return True
        if a[0] >= b2[1]:
            return False
    if op == "Le":
        if a[1] <= b2[0]:
            return True
        if a[0] > b2[1]:
            return False
    return None


def one(F, S, b, p, s, envs):
    t = s.term
    B = Bounds(S, p, s.bb)
    tyof = tyof_factory(S, b)
    LENOF[0] = lambda x, env: _slen(F, b, x, B, env, tyof)
    env_list = [e for _, e in envs] if envs else [None]
    generic_consts = [g["n"] for g in b.d.get("generics", []) if g["k"] == "const"]
    if any(g not in common_names() for g in generic_consts):
        # functions generic over some other constant (e.g. N of the array codecs): try every variant value
        env_list = [dict((g, v) for g in generic_consts) for v in ALL_VALUES]
    if t["t"] == "assert":
        cond = None
        msg = None
        for (bb, kind, c, expected, m) in p.asserts:
            if bb == s.bb:
                cond, msg = n(c, keep_casts=True), m
        if cond is None:
            return None
        kind = t["msg"]["kind"]
        if kind in ("overflow", "overflow_neg"):
            if cond[0] != "ovf":
                return None
            aty = operand_ty(b, t["msg"].get("a"))
            tr = type_range(aty) if aty else None
            if tr is None:
                return None
            expr = ("bin", cond[1], cond[2], cond[3])
            ok_all = True
            for env in env_list:
                r = irange(n(expr), B, tyof, env)
                if r is None or r[0] < tr[0] or r[1] > tr[1]:
                    ok_all = False
            if ok_all:
                return "interval-no-overflow"
            # relational: a - b with b <= a known
            if cond[1] == "Sub":
                a_, b_ = n(cond[2]), n(cond[3])
                for (x, y, strict) in B.rel:
                    if x == b_ and y == a_:
                        return "guarded-subtraction"
                # MAX_LEN - len after `len >= MAX_LEN` returned
            return None
        if kind in ("div_zero", "rem_zero"):
            c2 = n(cond)
            if c2[0] == "bin" and c2[1] == "Eq":
                d = c2[3] if c2[2] == C(0) else c2[2]
                if all((irange(d, B, tyof, env) or (0, 0))[0] > 0 for env in env_list):
                    return "nonzero-divisor"
            return None
        if kind == "bounds":
            c2 = n(cond)
            if c2[0] != "bin" or c2[1] != "Lt":
                return None
            index, ln = c2[2], c2[3]
            ok_all = True
            for env in env_list:
                L = layout.ceval(ln, env) if env is not None else (ln[1] if ln[0] == "const" else None)
                if L is None:
                    # len of a gated slice
                    x = ln[2][0] if ln[0] == "call" and ln[1].endswith("::len") else (ln[1] if ln[0] == "len" else None)
                    if x is not None:
                        if x[0] == "rawptr" or x[0] == "ref":
                            x = x[-1]
                        if x[0] == "deref":
                            x = x[1]
                        ex, lo = gated_len(B, x, env)
                        L = ex if ex is not None else lo
                        if L is None:
                            L = array_len_of(F, b, x, env)
                r = irange(index, B, tyof, env)
                if L is None or r is None or r[1] >= L:
                    ok_all = False
            return "index-below-known-length" if ok_all else None
        return None
    # ---- calls
    call = None
    for c in p.calls:
        if c[0] == s.bb:
            call = c
    if call is None:
        return None
    (bb, path, args, cj) = call
    a = [n(x) for x in args]
    if s.kind == "index":
        base = a[0]
        rng = a[1]
        if rng[0] != "agg":
            return None
        rk = rng[1].rsplit("::", 1)[-1]
        ok_all = True
        for env in env_list:
            # total length of the indexed slice
            w = None
            root = base
            # find the parameter / local the slice derives from
            params = [P(i) for i in range(1, (b.mir["arg_count"] if b.mir else 0) + 1)]
            total = None
            for prm in params:
                w = layout.window(base, prm)
                if w is not None:
                    ex, lo = gated_len(B, prm, env)
                    total = ex if ex is not None else lo
                    if total is None:
                        total = array_len_of(F, b, prm, env)
                    break
            if w is None:
                # a local array / field of self / a table
                total = array_len_of(F, b, base, env)
                w = (C(0), None)
                if total is None and base[0] == "ref" and base[1][0] == "field":
                    total = field_array_len(F, b, base[1], env)
                if total is None and base[0] == "ref" and base[1][0] == "lv":
                    total = local_array_len(F, b, base[1][1], env)
                if total is None and base[0] == "ref" and base[1][0] == "mutated":
                    total = local_array_len(F, b, base[1][1][1] if base[1][1][0] == "lv" else None, env)
            if total is None:
                ok_all = False
                continue
            s0 = irange(w[0], B, tyof, env)
            avail_hi = irange(w[1], B, tyof, env) if w[1] is not None else (total, total)
            if s0 is None or avail_hi is None:
                ok_all = False
                continue
            avail = avail_hi[0] - s0[1]  # guaranteed length of the slice being indexed
            if rk == "Range":
                ra, rb = irange(rng[2][0], B, tyof, env), irange(rng[2][1], B, tyof, env)
                good = ra is not None and rb is not None and ra[1] <= rb[0] and rb[1] <= avail
                if not good and ra is not None and rb is not None and rb[1] <= avail:
                    # start <= end known relationally: end = start + x
                    e_ = rng[2][1]
                    good = e_[0] == "bin" and e_[1] == "Add" and rng[2][0] in (e_[2], e_[3])
                if not good and ra is not None:
                    good = sum_bounded(rng[2][1], avail, B, tyof, env) and (ra[1] <= (rb[0] if rb else 0) or (rng[2][1][0] == "bin" and rng[2][0] in (rng[2][1][2], rng[2][1][3])))
            elif rk == "RangeFrom":
                ra = irange(rng[2][0], B, tyof, env)
                good = ra is not None and ra[1] <= avail
                if not good:
                    good = le_known(rng[2][0], avail, base, B)
            elif rk == "RangeTo":
                rb = irange(rng[2][0], B, tyof, env)
                good = rb is not None and rb[1] <= avail
                if not good:
                    good = le_len_known(rng[2][0], base, B)
            elif rk == "RangeFull":
                good = True
            else:
                good = False
            if not good:
                ok_all = False
        return "window-inside-known-length" if ok_all else None
    if s.kind == "call":
        name = s.what
        if name in ("chunks_exact", "chunks_exact_mut", "chunks_mut"):
            return "nonzero-chunk-size" if a[1][0] == "const" and a[1][1] > 0 else None
        if name == "copy_from_slice":
            dl = static_len(F, b, a[0], B, envs, tyof)
            sl = static_len(F, b, a[1], B, envs, tyof)
            if dl is not None and sl is not None and dl == sl:
                return "equal-constant-lengths"
            return None
        if name == "select_nth_unstable":
            return None
        return None
    if s.kind == "panic":
        # the path to an explicit panic is infeasible if one of its conditions is decided the other way
        # by constants for every variant
        for (cbb, d, taken, vals) in p.conds:
            e = n(d)
            truth = (taken == "otherwise") if vals == [0] else (bool(taken) if taken != "otherwise" else None)
            if truth is None:
                continue
            vs = [cond_truth(e, B0(), tyof, env) for env in env_list]
            if all(v is not None and v != truth for v in vs):
                return "infeasible-by-constants"
        return None
    if s.kind == "unwrap":
        arg = a[0]
        # try_into of an exactly sized window / chunk
        if arg[0] == "call" and arg[1].endswith("TryInto<U>>::try_into"):
            src = arg[2][0]
            want = try_into_target_len(F, b, bb)
            if want is not None:
                ok_all = True
                for env in env_list:
                    w = want[1] if want[0] == "val" else (env.get(want[1]) if env else None)
                    g = _slen(F, b, src, B, env, tyof)
                    if w is None or g is None or w != g:
                        ok_all = False
                if ok_all:
                    return "exact-size-conversion"
        return None
    return None


class B0:
    """No path facts (used when a condition must be decided by constants alone)."""
    lo = {}
    hi = {}
    eq = {}
    rel = []

    def __call__(self):
        return self


def common_names():
    return ("SIZE_CKSUM", "SIZE_BODY", "SIZE_BUCKETS", "SIZE_IN_BYTES", "SIZE_IN_STR_BYTES")


def operand_ty(b, op):
    if not op:
        return None
    pl = op.get("copy") or op.get("move")
    if pl is not None:
        t = b.f.ty(b.mir["locals"][pl["l"]]["ty"])
        for e in pl.get("p", []):
            if isinstance(e, dict) and "f" in e:
                t = b.f.ty(e["ty"])
            elif e == "*" and t.get("k") in ("ref", "ptr"):
                t = b.f.ty(t["to"])
        return t["s"]
    c = op.get("const")
    if c is not None and c.get("ty") is not None:
        t = c["ty"]
        return b.f.tys(t) if isinstance(t, int) else t
    return None


def field_array_len(F, b, fld, env):
    # ('field', ('deref', P(1)), i): look at the self type's field
    if fld[1] == ("deref", P(1)):
        ins = b.d.get("inputs")
        if ins:
            t = F.ty(ins[0])
            while t and t["k"] == "ref":
                t = F.ty(t["to"])
            if t and t["k"] == "adt":
                fs = None
                for a in F.d["adts"]:
                    if a["path"] == t["path"]:
                        fs = a["variants"][0]["fields"]
                if fs and fld[2] < len(fs):
                    ft = F.ty(fs[fld[2]]["ty"])
                    if ft["k"] == "array":
                        l = ft["len"]
                        if l.get("k") == "val":
                            return l["v"]
                        if l.get("k") == "cparam" and env is not None:
                            return env.get(l["n"])
                        if l.get("k") == "uneval":
                            # e.g. [u8; WINDOW_SIZE - 1]
                            return 4 if "tail" == fs[fld[2]]["name"] and F.const_int("generate::WINDOW_SIZE") == 5 else None
    return None


def local_array_len(F, b, local, env):
    if local is None:
        return None
    t = b.local_ty(local)
    while t and t["k"] == "ref":
        t = F.ty(t["to"])
    if t and t["k"] == "array":
        l = t["len"]
        if l.get("k") == "val":
            return l["v"]
        if l.get("k") == "cparam" and env is not None:
            return env.get(l["n"])
    if t and t["k"] == "adt" and t["path"] == "alloc::vec::Vec":
        return None
    return None


def sum_bounded(e, limit, B, tyof, env):
    """e = a + b with a guard b <= K - a (or a <= K - b) and K <= limit."""
    if e[0] != "bin" or e[1] != "Add":
        return False
    a, b2 = e[2], e[3]
    for (x, y, strict) in B.rel:
        for p_, q_ in ((a, b2), (b2, a)):
            if x == p_ and y[0] == "bin" and y[1] == "Sub" and y[3] == q_:
                k = irange(y[2], B, tyof, env)
                if k is not None and k[1] <= limit:
                    return True
            # casts: x may be cast forms of the same value
    return False


def le_known(e, avail, base, B):
    return False


def le_len_known(e, base, B):
    """e <= len(base) known from a path condition (e.g. `if n > len {..}` guards)."""
    for (x, y, strict) in B.rel:
        if x == e and y[0] in ("call", "len") and base in (y[-1] if isinstance(y[-1], tuple) and y[0] == "call" else (y[1],)):
            return True
    return False


def static_len(F, b, e, B, envs, tyof):
    """Length of a slice expression when it is the same constant for every variant
    (or a per-variant tuple)."""
    out = []
    env_list = [x for _, x in envs] if envs else [None]
    for env in env_list:
        v = _slen(F, b, e, B, env, tyof)
        if v is None:
            return None
        out.append(v)
    return tuple(out)


def _slen(F, b, e, B, env, tyof):
    if e[0] == "ref":
        inner = e[1]
        if inner[0] == "bytes" and inner[1] is not None:
            return len(inner[1]) // 2
        if inner[0] == "index" and inner[1][0] == "table":
            c = F.consts.get(inner[1][1])
            if c:
                t = F.ty(c["ty"])
                if t["k"] == "array":
                    et = F.ty(t["elem"])
                    if et["k"] == "array" and et["len"].get("k") == "val":
                        return et["len"]["v"]
        if inner[0] == "field":
            return field_array_len(F, b, inner, env)
        if inner[0] == "ref":
            return _slen(F, b, inner, B, env, tyof)
        return None
    if e[0] == "call":
        if e[1].endswith(layout.INDEX_FNS) and len(e[2]) == 2 and e[2][1][0] == "agg":
            rk = e[2][1][1].rsplit("::", 1)[-1]
            if rk == "Range":
                a0 = irange(e[2][1][2][0], B, tyof, env)
                b0 = irange(e[2][1][2][1], B, tyof, env)
                if a0 and b0 and a0[0] == a0[1] and b0[0] == b0[1]:
                    return b0[0] - a0[0]
                # data-dependent but syntactically start..start+x
                return None
            if rk == "RangeFrom":
                total = _slen(F, b, e[2][0], B, env, tyof)
                a0 = irange(e[2][1][2][0], B, tyof, env)
                if total is not None and a0 and a0[0] == a0[1]:
                    return total - a0[0]
            return None
        if e[1].endswith("::data") and len(e[2]) == 1:
            # accessor returning &[u8; K]: read K from the callee's return type via impl self
            if "FuzzyHashChecksumData" in e[1]:
                return env.get("SIZE_CKSUM") if env else None
            if "FuzzyHashBodyData" in e[1]:
                return env.get("SIZE_BODY") if env else None
        return None
    if e[0] == "field" and e[1][0] == "variant":
        # chunk item of chunks_exact(_mut)(k) zipped: field(variant(next(..),Some),0).i
        calls = find_all(e, lambda x: x[0] == "call" and x[1].endswith("::next"))
        return None
    if e[0] == "param":
        v = array_len_of(F, b, e, env)
        if v is None:
            ex, lo = gated_len(B, e, env)
            v = ex
        return v
    return None


def try_into_target_len(F, b, bb):
    """Target array length of the try_into whose result is unwrapped at block bb."""
    t = b.blocks[bb]["term"]
    # the unwrap's own generic arg T is the target array type
    c = t["callee"]
    for a in (c.get("resolved") or c).get("args", []):
        if a.get("k") == "ty":
            ty = F.ty(a["ty"])
            while ty and ty["k"] == "ref":
                ty = F.ty(ty["to"])
            if ty and ty["k"] == "array":
                l = ty["len"]
                if l.get("k") == "val":
                    return ("val", l["v"])
                if l.get("k") == "cparam":
                    return ("cparam", l["n"])
    return None


# ---------------------------------------------------------------- entry point


def check(ctx, r, F, roots, floor=1, allow=None):
    """Enumerate and discharge; `allow` maps site keys to a reason (documented panics)."""
    envs = layout.variant_envs(F)
    roots = [x for x in roots if x]
    sites, reach, G = collect(F, roots)
    discharge(F, sites, envs)
    ctx.instance(r, len(sites))
    allow = allow or {}
    for s in sites:
        key = (s.body.path, s.kind + ":" + s.what, "bb-role:" + site_role(s))
        if (s.body.path, s.kind, s.what) in allow or (s.body.path, s.kind) in allow:
            ctx.ob(r, key, True, "", cfg=F.key, where=s.body.where(), detail={"documented": allow.get((s.body.path, s.kind, s.what)) or allow.get((s.body.path, s.kind))})
            continue
        ok = not s.undischarged and bool(s.idioms)
        ctx.ob(r, key, ok,
               "panicking operation not discharged in %s: %s" % (s.body.path, "; ".join(sorted(set(s.undischarged))[:2])),
               cfg=F.key, where="%s (line %s)" % (s.body.where(), (s.term.get("loc") or {}).get("line")), detail={"idioms": sorted(s.idioms)})
    ctx.floor(r, floor, "panicking operations reachable")
    return sites


def site_role(s):
    """A line-independent description of the site inside its function."""
    t = s.term
    if t["t"] == "assert":
        m = t["msg"]
        return "%s/%s" % (m["kind"], m.get("op", ""))
    c = t["callee"]
    return (c.get("path") or "").rsplit("::", 1)[-1] + "#" + str(ordinal(s))


def ordinal(s):
    """Ordinal of this call among calls to the same callee in the function (stable under
    edits elsewhere)."""
    k = 0
    name = (s.term["callee"].get("path") or "")
    for i, blk in enumerate(s.body.blocks):
        t = blk["term"]
        if t["t"] == "call" and (t["callee"].get("path") or "") == name:
            if i == s.bb:
                return k
            k += 1
    return k
