"""Hex codec rules: tables (by value) and combination shapes per configuration."""
from .. import sym, tables
from ..norm import n, P, C, V, ANY, match, find_all, binop, idx, table, call
from . import cmpmodel

H = "parse::hex_str::"
LO, HI = table(H + "HEX_REV_TABLE_LO"), table(H + "HEX_REV_TABLE_HI")
NIB, BYTE, REV = table(H + "HEX_UPPER_NIBBLE_TABLE"), table(H + "HEX_UPPER_BYTE_TABLE"), table(H + "HEX_UPPER_BYTE_REV_TABLE")
SOME = lambda v: ("agg", "adt:core::option::Option::Some", (v,))
NONE = ("agg", "adt:core::option::Option::None", ())


def src(i, p=1):
    return ("load", ("index", ("deref", P(p)), C(i)))


def decode_shape(F, lo, hi):
    """Reference decision table of decode(lo char, hi char) for this configuration:
    [(conds, ret)] after the `len != 2 -> None` gate."""
    feats = F.features
    if "opt-low-memory-hex-str-decode-half-table" not in feats:
        v = binop("BitOr", idx(HI, hi), idx(LO, lo))
        bad = binop("Ne", binop("BitAnd", v, C(256)), C(0))
        return [([(bad, True)], NONE), ([(bad, False)], SOME(v))]
    if "opt-low-memory-hex-str-decode-quarter-table" not in feats:
        v = binop("BitOr", ("bin", "Shl", idx(LO, hi), C(4)), idx(LO, lo))
        bad = ("bin", "Le", C(256), v)
        return [([(bad, True)], NONE), ([(bad, False)], SOME(v))]
    if "opt-low-memory-hex-str-decode-min-table" not in feats:
        dl, dh = idx(LO, lo), idx(LO, hi)
    else:
        dl, dh = call(H + "decode_digit", lo), call(H + "decode_digit", hi)
    v = binop("BitOr", ("bin", "Shl", dh, C(4)), dl)
    bl, bh = binop("Eq", dl, C(255)), binop("Eq", dh, C(255))
    return [([(bl, True)], NONE), ([(bl, False), (bh, True)], NONE), ([(bl, False), (bh, False)], SOME(v))]


WIDTHS = {"u8": 8, "u16": 16, "u32": 32, "u64": 64, "usize": 64}
HEXCHARS = {**{ord("0") + k: k for k in range(10)}, **{ord("a") + k: 10 + k for k in range(6)}, **{ord("A") + k: 10 + k for k in range(6)}}


def _ref_digit(bv):
    return HEXCHARS.get(bv, 255)


class _Unknown(Exception):
    pass


def _ev(S, F, x, asg, tabs):
    """Value of raw expression x when src[i] = asg['src'][i] and len(src) = asg['len'] (integers are exact: every IntToInt cast
    and every shift/add is reduced to the width of its MIR type)."""
    k = x[0]
    sub = asg.get("subst")
    if sub:
        nx = n(x)
        if nx in sub:
            return sub[nx]
    if k == "const":
        return x[1]
    if k == "cpath":
        if len(x) > 2 and isinstance(x[2], int):
            return x[2]
        raise _Unknown(sym.fmt(n(x)))
    if k == "cast":
        v = _ev(S, F, x[3], asg, tabs)
        if x[1] == "IntToInt":
            w = WIDTHS.get(x[2])
            if w is None or not isinstance(v, int):
                raise _Unknown("cast to %s" % x[2])
            return v & ((1 << w) - 1)
        return v
    if k == "load":
        pl = x[1]
        if pl[0] == "index" and pl[1] == ("deref", P(1)) and pl[2][0] == "const":
            return asg["src"][pl[2][1]]
        if pl[0] == "cindex" and pl[1] == ("deref", P(1)) and not pl[3]:
            return asg["src"][pl[2]]
        raise _Unknown(sym.fmt(n(x)))
    if k == "len" and n(x[1]) in (P(1), ("deref", P(1))):
        return asg["len"]
    if k == "index" and x[1][0] == "index" and x[1][1][0] == "table" and asg.get("pairs") and x[1][1][1] in asg["pairs"]:
        i = _ev(S, F, x[1][2], asg, tabs)
        j = _ev(S, F, x[2], asg, tabs)
        tab = asg["pairs"][x[1][1][1]]
        if not isinstance(i, int) or not (0 <= i < len(tab)) or j not in (0, 1):
            raise _Unknown("pair table index %s, %s" % (i, j))
        return tab[i][j]
    if k == "cindex":
        return _ev(S, F, ("index", x[1], ("const", x[2])), asg, tabs)
    if k == "index" and x[1][0] == "table" and asg.get("pairs") and x[1][1] in asg["pairs"]:
        i = _ev(S, F, x[2], asg, tabs)
        tab = asg["pairs"][x[1][1]]
        if not isinstance(i, int) or not (0 <= i < len(tab)):
            raise _Unknown("pair table index %s" % (i,))
        return ["list", tab[i][0], tab[i][1]]  # a whole [u8; 2] element
    if k == "index" and x[1][0] == "table":
        arr = tabs(x[1][1])
        i = _ev(S, F, x[2], asg, tabs)
        if arr is None or not isinstance(i, int) or not (0 <= i < len(arr)):
            raise _Unknown("table %s[%s]" % (x[1][1], i))
        return arr[i]
    if k == "bin":
        a, b = _ev(S, F, x[2], asg, tabs), _ev(S, F, x[3], asg, tabs)
        op = x[1]
        if op in ("Eq", "Ne", "Lt", "Le", "Gt", "Ge"):
            return int({"Eq": a == b, "Ne": a != b, "Lt": a < b, "Le": a <= b, "Gt": a > b, "Ge": a >= b}[op])
        if op in ("BitOr", "BitAnd", "BitXor", "Shr"):
            return {"BitOr": a | b, "BitAnd": a & b, "BitXor": a ^ b, "Shr": a >> b}[op]
        if op in ("Div", "Rem"):
            if b == 0:
                raise _Unknown("division by zero in %s" % sym.fmt(n(x)))
            return a // b if op == "Div" else a % b
        t = S.type_of(x)
        w = WIDTHS.get(t["s"]) if t else None
        if w is None:
            raise _Unknown("width of %s" % sym.fmt(n(x)))
        if op in ("Shl", "ShlUnchecked"):
            return (a << b) & ((1 << w) - 1)
        if op in ("Add", "Sub", "Mul"):
            v = {"Add": a + b, "Sub": a - b, "Mul": a * b}[op]
            if not (0 <= v < (1 << w)):
                raise _Unknown("arithmetic overflow in %s" % sym.fmt(n(x)))
            return v
        raise _Unknown("operator %s" % op)
    if k == "un" and x[1] == "Not":
        v = _ev(S, F, x[2], asg, tabs)
        t = S.type_of(x[2])
        if t and t.get("s") == "bool":
            return 1 - v
        raise _Unknown("Not on non-bool")
    if k == "call":
        path = x[2] if isinstance(x[1], int) else x[1]
        args = x[3] if isinstance(x[1], int) else x[2]
        if path.endswith(("intrinsics::likely", "intrinsics::unlikely", "hint::likely", "hint::unlikely")) and len(args) == 1:
            return _ev(S, F, args[0], asg, tabs)
        from ..norm import WIDENING_FROM
        if len(args) == 1 and WIDENING_FROM.match(path):
            return _ev(S, F, args[0], asg, tabs)  # lossless integer conversion
        if path == "core::slice::<impl [T]>::len" and len(args) == 1 and n(args[0]) in (P(1), ("deref", P(1))):
            return asg["len"]
        if path == H + "decode_digit" and len(args) == 1:
            return _ref_digit(_ev(S, F, args[0], asg, tabs))
        if path.endswith("bits::swap_nibble_in_u8") and len(args) == 1:
            v = _ev(S, F, args[0], asg, tabs)  # verified separately to be rotate_left(4)
            return ((v << 4) | (v >> 4)) & 0xFF
        if path == "core::num::<impl u8>::rotate_left" and len(args) == 2:
            v, k2 = _ev(S, F, args[0], asg, tabs), _ev(S, F, args[1], asg, tabs) % 8
            return ((v << k2) | (v >> (8 - k2))) & 0xFF
        # a private helper of the codec with integer arguments: its own returning path evaluated on the argument values
        cb_ = F.fn(path) if path.startswith("parse::hex_str::") else None
        if cb_ is not None and cb_.mir is not None and asg.get("_depth", 0) < 3:
            vals_ = [_ev(S, F, a_, asg, tabs) for a_ in args]
            if all(isinstance(v_, int) for v_ in vals_):
                S2 = sym.Sym(cb_)
                sub = dict(asg, subst={("param", i_ + 1): v_ for i_, v_ in enumerate(vals_)}, _depth=asg.get("_depth", 0) + 1)
                hits_ = []
                for q_ in S2.paths():
                    if q_.end != "return":
                        continue
                    ok_ = True
                    for (_, d_, taken_, vals2_) in q_.conds:
                        v_ = _ev(S2, F, d_, sub, tabs)
                        ok_ = (v_ not in vals2_) if taken_ == "otherwise" else (v_ == taken_)
                        if not ok_:
                            break
                    if ok_:
                        hits_.append(q_)
                if len(hits_) == 1:
                    return _ev(S2, F, hits_[0].ret, sub, tabs)
                raise _Unknown("%d paths of %s" % (len(hits_), path))
        import re as _re
        m_ = _re.search(r"TryFrom<u(16|32|64|size)> for u8>::try_from$", path)
        if m_ and len(args) == 1:
            v = _ev(S, F, args[0], asg, tabs)
            if not isinstance(v, int):
                raise _Unknown("try_from of %s" % (v,))
            return ("Ok", v) if 0 <= v < 256 else ("Err", ("TryFromIntError",))
        if path == "core::result::Result::<T, E>::ok" and len(args) == 1:
            v = _ev(S, F, args[0], asg, tabs)
            if isinstance(v, tuple) and v[:1] == ("Ok",):
                return ("Some", v[1])
            if isinstance(v, tuple) and v[:1] == ("Err",):
                return ("None",)
        if path.endswith("bool>::then_some") and len(args) == 2:
            c_ = _ev(S, F, args[0], asg, tabs)
            if isinstance(c_, int):
                return ("Some", _ev(S, F, args[1], asg, tabs)) if c_ else ("None",)
        raise _Unknown("call %s" % path)
    if k == "discr":
        v = _ev(S, F, x[1], asg, tabs)
        if isinstance(v, tuple) and v and v[0] in ("None", "Some", "Ok", "Err"):
            return {"None": 0, "Some": 1, "Ok": 0, "Err": 1}[v[0]]
        raise _Unknown("discriminant of %s" % (v,))
    if k == "field" and x[1][0] == "variant" and x[2] == 0:
        v = _ev(S, F, x[1][1], asg, tabs)
        if isinstance(v, tuple) and v and v[0] == x[1][2] and len(v) > 1:
            return v[1]
        raise _Unknown("payload %s of %s" % (x[1][2], v))
    if k == "agg" and x[1] in ("array", "adt:array", "tuple"):
        return ["list"] + [_ev(S, F, y, asg, tabs) for y in x[2]]
    if k in ("index", "cindex") or (k == "field" and isinstance(x[2], int) and x[1][0] != "variant"):
        base_ = _ev(S, F, x[1], asg, tabs)
        i_ = x[2] if k in ("cindex", "field") else _ev(S, F, x[2], asg, tabs)
        if isinstance(base_, list) and base_[:1] == ["list"] and isinstance(i_, int) and 0 <= i_ < len(base_) - 1:
            return base_[1 + i_]
        raise _Unknown(sym.fmt(n(x))[:80])
    if k == "agg":
        if x[1].endswith("Result::Ok"):
            return ("Ok", _ev(S, F, x[2][0], asg, tabs))
        if x[1].endswith("Option::Some"):
            return ("Some", _ev(S, F, x[2][0], asg, tabs))
        if x[1].endswith("Option::None"):
            return ("None",)
    if k in ("ref", "val"):
        return _ev(S, F, x[-1], asg, tabs)
    raise _Unknown(sym.fmt(n(x))[:80])


def _byte_classes(F, b, tabs):
    """Representatives of the classes of the byte domain under the tables this function reads (plus the hex-digit meaning)."""
    used = sorted({x[1] for blk in [0] for p in sym.Sym(b).paths() for (_, d, _, _) in p.conds for x in find_all(d, lambda y: y[0] == "table")} |
                  {x[1] for p in sym.Sym(b).paths() if p.ret for x in find_all(p.ret, lambda y: y[0] == "table")})
    reps = {}
    for bv in range(256):
        sig = tuple((tabs(t) or [None] * 256)[bv] if tabs(t) and len(tabs(t)) > bv else None for t in used) + (HEXCHARS.get(bv, -1), bv if bv in HEXCHARS else -1)
        reps.setdefault(sig, bv)
    return sorted(reps.values()), used


def decoders(ctx, r, F):
    """decode_rev_1 reads src[0] as the low nibble and src[1] as the high nibble; decode_1 the opposite.  Decided by evaluating the
    function's decision tree (MIR paths) on one representative per class of the byte domain under the tables it reads."""
    from .c17 import table_values
    cache = {}
    WIDTHS["usize"] = F.usize_bytes * 8

    def tabs(path):
        if path not in cache:
            cache[path] = table_values(F, path)
        return cache[path]

    for nm, lo_i, hi_i in (("decode_rev_1", 0, 1), ("decode_1", 1, 0)):
        b = F.fn(H + nm)
        if b is None:
            if nm == "decode_1" and "opt-simd-parse-hex" in F.features:
                continue
            ctx.missing(r, H + nm, cfg=F.key)
            continue
        ctx.instance(r)
        S = sym.Sym(b)
        paths = [p for p in S.paths() if p.end == "return"]
        other_ends = sorted({p.end for p in S.paths()} - {"return"})
        reps, used = _byte_classes(F, b, tabs)
        bad = []
        n_eval = 0

        def run(asg):
            hits = []
            for p in paths:
                ok = True
                for (_, d, taken, vals) in p.conds:
                    v = _ev(S, F, d, asg, tabs)
                    if taken == "otherwise":
                        ok = v not in vals
                    else:
                        ok = v == taken
                    if not ok:
                        break
                if ok:
                    hits.append(p)
            if len(hits) != 1:
                raise _Unknown("%d paths feasible" % len(hits))
            return _ev(S, F, hits[0].ret, asg, tabs)

        try:
            for ln in (0, 1, 3):
                got = run({"len": ln, "src": {0: 0x30, 1: 0x30}})
                n_eval += 1
                if got != ("None",):
                    bad.append("len %d gives %s; reference None" % (ln, got))
            for b0 in reps:
                for b1 in reps:
                    src_ = {0: b0, 1: b1}
                    got = run({"len": 2, "src": src_})
                    n_eval += 1
                    l_, h_ = _ref_digit(src_[lo_i]), _ref_digit(src_[hi_i])
                    want = ("None",) if 255 in (l_, h_) else ("Some", h_ * 16 + l_)
                    if got != want and len(bad) < 6:
                        bad.append("src = [%r, %r] gives %s; reference %s" % (chr(b0), chr(b1), got, want))
        except _Unknown as e:
            bad.append("cannot evaluate: %s" % e)
        if other_ends and other_ends != ["diverge"]:
            pass
        ctx.ob(r, (nm, "combination-shape"), not bad,
               "%s: src[%d] is the low nibble and src[%d] the high nibble, any non-hex digit gives None -- violated: %s" % (nm, lo_i, hi_i, "; ".join(bad[:3])),
               cfg=F.key, where=b.where(), detail={"byte_classes": len(reps), "tables": used, "evaluations": n_eval})
    if "opt-low-memory-hex-str-decode-min-table" in F.features:
        decode_digit(ctx, r, F)


def decode_digit(ctx, r, F):
    """Interval reasoning over the byte domain: which byte ranges reach which result."""
    b = F.fn(H + "decode_digit")
    ctx.instance(r)
    if b is None:
        ctx.missing(r, H + "decode_digit", cfg=F.key)
        return
    got = {}
    bad = []
    for cs, ret in cmpmodel.decision(b):
        lo_, hi_ = 0, 255
        for c, t in cs:
            # Le(k, p1) / Le(p1, k) / Lt(...)
            m1 = match(("bin", V("op"), ("const", V("k")), P(1)), c)
            m2 = match(("bin", V("op"), P(1), ("const", V("k"))), c)
            if m1 and m1["op"] in ("Le", "Lt"):
                k = m1["k"] + (1 if m1["op"] == "Lt" else 0)
                if t:
                    lo_ = max(lo_, k)
                else:
                    hi_ = min(hi_, k - 1)
            elif m2 and m2["op"] in ("Le", "Lt"):
                k = m2["k"] - (1 if m2["op"] == "Lt" else 0)
                if t:
                    hi_ = min(hi_, k)
                else:
                    lo_ = max(lo_, k + 1)
            else:
                bad.append(sym.fmt(c))
        if lo_ <= hi_:
            for x in range(lo_, hi_ + 1):
                if x in got and got[x] != ret:
                    bad.append("byte %d reaches two results" % x)
                got[x] = ret
    want = {}
    for x in range(256):
        if 48 <= x <= 57:
            want[x] = ("bin", "Sub", P(1), C(48))
        elif 65 <= x <= 70:
            want[x] = binop("Add", ("bin", "Sub", P(1), C(65)), C(10))
        elif 97 <= x <= 102:
            want[x] = binop("Add", ("bin", "Sub", P(1), C(97)), C(10))
        else:
            want[x] = C(255)
    diff = [x for x in range(256) if got.get(x) != want[x]]
    ctx.rules[r]["exhaustive"] = True
    ctx.ob(r, ("decode_digit", "byte-ranges"), not bad and not diff,
           "decode_digit maps bytes %s differently from '0'-'9' -> c-48, 'A'-'F' -> c-55, 'a'-'f' -> c-87, else 0xff (%s)" % (diff[:6], bad[:2]),
           cfg=F.key, where=b.where())


UPPER = b"0123456789ABCDEF"


def _pair_tables(F):
    """tables of [u8; 2] entries, as lists of byte pairs"""
    out = {}
    for nm in ("HEX_UPPER_BYTE_TABLE", "HEX_UPPER_BYTE_REV_TABLE"):
        bts = F.const_bytes(H + nm)
        if bts is not None and len(bts) == 512:
            out[H + nm] = [(bts[2 * i], bts[2 * i + 1]) for i in range(256)]
    return out


def digit_pair(S, F, p, val, dst, reverse, tabs, _depth=0, _values=False):
    """What the two bytes at `dst` become on path p as a function of the byte `val` (normalised expression), evaluated for all
    256 values and compared with the reference digits (upper case; low nibble first iff reverse).  Returns None if correct,
    else a description."""
    pairs = _pair_tables(F)
    copies = [(c[2][0], c[2][1]) for c in p.calls if c[1] == "core::slice::<impl [T]>::copy_from_slice"]
    stores = [(pl, v) for _, pl, v in p.stores]
    from . import layout
    writes = []  # (offset, kind, raw source)
    for d_, src_ in copies:
        w = layout.window(n(d_), dst)
        if w is None:
            return "copy_from_slice into %s" % sym.fmt(n(d_))
        lo = w[0][1] if w[0][0] == "const" else None
        hi = None if w[1] is None else (w[1][1] if w[1][0] == "const" else "?")
        if lo != 0 or hi not in (None, 2):
            return "copy_from_slice into window %s..%s of the destination pair" % (lo, hi)
        writes.append(("pair", src_))
    for pl, v in stores:
        npl = n(pl)
        m = match(("index", ("deref", V("b")), ("const", V("i"))), npl)
        if m and (m["b"] == dst or ("deref", m["b"]) == dst or m["b"] == ("deref", dst)) and m["i"] in (0, 1):
            writes.append((m["i"], v))
        elif find_all(npl, lambda y: y == dst):
            return "store to %s" % sym.fmt(npl)
    # the pair written by a local single-byte encoder called on the whole chunk (its own returning path evaluated the same way)
    for c in p.calls:
        cb = F.fn(c[1]) if not c[1].startswith(("core::", "alloc::", "std::")) else None
        if cb is None or len(c[2]) != 2 or not find_all(n(c[2][0]), lambda y: y == dst):
            continue
        w = layout.window(n(c[2][0]), dst)
        if w is None or w[0] != ("const", 0) or w[1] not in (None, ("const", 2)):
            return "call to %s on %s" % (c[1].rsplit("::", 1)[-1], sym.fmt(n(c[2][0])))
        if _depth > 2:
            return "nested encoder calls"
        S2 = sym.Sym(cb)
        ps2 = [q for q in S2.paths() if q.end == "return"]
        if len(ps2) != 1:
            return "%s has %d returning paths" % (c[1].rsplit("::", 1)[-1], len(ps2))
        sub = digit_pair(S2, F, ps2[0], ("param", 2), ("param", 1), reverse, tabs, _depth + 1, True)
        if isinstance(sub, str):
            return "%s: %s" % (c[1].rsplit("::", 1)[-1], sub)
        writes.append(("callee", sub, c[2][1]))
    kinds = sorted("pair" if w[0] == "callee" else str(w[0]) for w in writes)
    if kinds not in (["pair"], ["0", "1"]):
        return "writes %s; reference one 2-byte copy or stores to [0] and [1]" % kinds
    allv = []
    for v in range(256):
        asg = {"subst": {val: v}, "src": {}, "len": 2, "pairs": pairs}
        got = [None, None]
        try:
            for w in writes:
                if w[0] == "callee":
                    i = _ev(S, F, w[2], asg, tabs)
                    if not isinstance(i, int) or not (0 <= i < 256):
                        return "callee argument %s for value %d" % (i, v)
                    got = list(w[1][i])
                elif w[0] == "pair":
                    src_ = w[1]
                    e = src_
                    while e[0] in ("ref", "cast"):
                        e = e[-1]
                    if e[0] == "index" and e[1][0] == "table" and e[1][1] in pairs:
                        i = _ev(S, F, e[2], asg, tabs)
                        if not isinstance(i, int) or not (0 <= i < 256):
                            return "table index %s for value %d" % (i, v)
                        got = list(pairs[e[1][1]][i])
                    else:
                        return "copy source %s" % sym.fmt(n(src_))[:80]
                else:
                    got[w[0]] = _ev(S, F, w[1], asg, tabs)
        except _Unknown as ex:
            return "cannot evaluate: %s" % ex
        lo_d, hi_d = UPPER[v & 15], UPPER[v >> 4]
        want = [lo_d, hi_d] if reverse else [hi_d, lo_d]
        if _values:
            allv.append(got)
            continue
        if got != want:
            return "byte 0x%02x is written as %r; reference %r" % (v, bytes(x if isinstance(x, int) else 63 for x in got), bytes(want))
    return allv if _values else None


def encoders(ctx, r, F):
    from .c17 import table_values
    cache = {}
    WIDTHS["usize"] = F.usize_bytes * 8

    def tabs(path):
        if path not in cache:
            cache[path] = table_values(F, path)
        return cache[path]

    feats = F.features
    half = "opt-low-memory-hex-str-encode-half-table" in feats
    mini = "opt-low-memory-hex-str-encode-min-table" in feats
    SWAP = H.replace("hex_str::", "bits::") + "swap_nibble_in_u8"

    def rev_src(v):
        if not half:
            return ("copy", ("ref", idx(REV, v)))
        if not mini:
            return ("copy", ("ref", idx(BYTE, call(SWAP, v))))
        return ("nib", idx(NIB, binop("BitAnd", C(15), v)), idx(NIB, ("bin", "Shr", v, C(4))))

    def plain_src(v):
        if not mini:
            return ("copy", ("ref", idx(BYTE, v)))
        return ("nib", idx(NIB, ("bin", "Shr", v, C(4))), idx(NIB, binop("BitAnd", C(15), v)))

    # encode_rev_1
    b = F.fn(H + "encode_rev_1")
    ctx.instance(r)
    if b is None:
        ctx.missing(r, H + "encode_rev_1", cfg=F.key)
    else:
        S1 = sym.Sym(b)
        ps = [p for p in S1.paths() if p.end == "return"]
        desc = "%d returning paths" % len(ps)
        if len(ps) == 1:
            desc = digit_pair(S1, F, ps[0], P(2), P(1), True, tabs)
        ctx.ob(r, ("encode_rev_1", "shape"), desc is None, "encode_rev_1: %s; reference: the two upper-case hex digits of the byte, low nibble digit first (evaluated for all 256 byte values)" % desc, cfg=F.key, where=b.where())
    if half and not mini:
        sb = F.fn(SWAP)
        ctx.instance(r)
        if sb is None:
            ctx.missing(r, SWAP, cfg=F.key)
        else:
            ps = cmpmodel.ret_paths(sb)
            e = n(ps[0].ret) if len(ps) == 1 else None
            ctx.ob(r, ("swap_nibble_in_u8", "rotate-4"), e == ("call", "core::num::<impl u8>::rotate_left", (P(1), C(4))), "swap_nibble_in_u8 is %s" % (sym.fmt(e) if e else e), cfg=F.key, where=sb.where())
    # array encoders: loop body writes the chunk from the zipped source byte
    for nm, mk in (("encode_rev_array", rev_src), ("encode_array", plain_src)):
        b = F.fn(H + nm)
        if b is None:
            if nm == "encode_array" and "opt-simd-convert-hex" in feats:
                continue
            ctx.missing(r, H + nm, cfg=F.key)
            continue
        ctx.instance(r)
        step, pre = loop_step(b)
        ok = False
        desc = "loop not recognised"
        if step is None:
            # the same iteration handed to Iterator::for_each with the step as a closure
            fe = _closure_iteration(F, b, "for_each")
            if fe is not None:
                names, by_value, cb, a0, a1 = fe
                ci, vi = 0, 1
                if names == ["iter", "chunks_exact_mut", "zip"]:
                    names, a0, a1, ci, vi = ["chunks_exact_mut", "iter", "zip"], a1, a0, 1, 0  # src.iter().zip(dst.chunks_exact_mut(2)): the item is (value, chunk)
                if names == ["chunks_exact_mut", "iter", "zip"] and a0 == [P(1), C(2)] and a1 in ([P(2)], [("deref", P(2))]):
                    Sc = sym.Sym(cb)
                    cps = [q for q in Sc.paths() if q.end == "return"]
                    if len(cps) == 1:
                        item = P(2)
                        chunk = ("field", item, ci)
                        val = ("field", item, vi) if by_value else ("load", ("deref", ("field", item, vi)))
                        why = digit_pair(Sc, F, cps[0], val, chunk, nm == "encode_rev_array", tabs)
                        desc = why or "digit pair ok"
                        ok = why is None
                    else:
                        desc = "for_each closure with %d returning paths" % len(cps)
                else:
                    desc = "for_each over %s" % names
        if step is not None:
            want_pre = ["chunks_exact_mut", "iter", "zip", "into_iter"]
            pre_names = [c[1].rsplit("::", 1)[-1] for c in pre.calls if c[1].rsplit("::", 1)[-1] not in ("copied", "cloned")]
            by_value = any(c[1].rsplit("::", 1)[-1] in ("copied", "cloned") for c in pre.calls)
            it = [p for p in step if p.end == "loop"]
            ex = [p for p in step if p.end == "return"]
            if pre_names == want_pre and len(it) == 1 and len(ex) == 1:
                p = it[0]
                nxt = [n(("call", c[0], c[1], c[2])) for c in p.calls if c[1].endswith("::next")]
                item = ("field", ("variant", nxt[0], "Some"), 0) if nxt else None
                chunk = ("field", item, 0)
                val = ("field", item, 1) if by_value else ("load", ("deref", ("field", item, 1)))
                why = digit_pair(sym.Sym(b), F, p, val, chunk, nm == "encode_rev_array", tabs)
                desc = why or "digit pair ok"
                ok = why is None
                # direction: no rev() on either side
                ok = ok and [n(a) for a in pre.calls[0][2]] == [P(1), C(2)] and [n(a) for a in pre.calls[1][2]] in ([P(2)], [("deref", P(2))])
        ctx.ob(r, (nm, "shape"), ok, "%s loop is %s; reference dst.chunks_exact_mut(2).zip(src.iter()) writing this configuration's digit pair" % (nm, desc), cfg=F.key, where=b.where())
    # array decoders
    for nm, one in (("decode_rev_array", "decode_rev_1"), ("decode_array", "decode_1")):
        b = F.fn(H + nm)
        if b is None:
            if nm == "decode_array" and "opt-simd-parse-hex" in feats:
                continue
            ctx.missing(r, H + nm, cfg=F.key)
            continue
        ctx.instance(r)
        step, pre = loop_step(b)
        ok = False
        desc = "loop not recognised"
        if step is None:
            # `len == 2N && dst.iter_mut().zip(src.chunks_exact(2)).all(|(d, c)| match decode(c) { Some(v) => { *d = v; true } None => false })`
            fa = _closure_iteration(F, b, "all")
            if fa is not None:
                names, _bv, cb, a0, a1 = fa
                S0 = sym.Sym(b)
                dec_ = cmpmodel.decision(b)
                LEN2 = ("call", "core::slice::<impl [T]>::len", (P(2),))
                K2 = binop("Mul", ("cparam", "N"), C(2))
                gates_ok = len(dec_) == 2
                for cs, ret in dec_:
                    if len(cs) != 1 or cs[0][0] not in (binop("Eq", LEN2, K2), binop("Ne", LEN2, K2)):
                        gates_ok = False
                        continue
                    len_ok = cs[0][1] == (cs[0][0][1] == "Eq")
                    if len_ok:
                        gates_ok = gates_ok and ret[0] == "call" and ret[1].endswith("::all")
                    else:
                        gates_ok = gates_ok and ret == C(0)
                Sc = sym.Sym(cb)
                cps = [q for q in Sc.paths() if q.end == "return"]
                item = P(2)
                decc = ("call", H + one, (("field", item, 1),))
                step_ok = len(cps) == 2
                for q in cps:
                    cs = [(n(d), S_v) for (_, d, S_v, _) in q.conds]
                    stores = [(n(pl), n(v)) for _, pl, v in q.stores]
                    if len(q.conds) != 1 or n(q.conds[0][1]) != ("discr", decc):
                        step_ok = False
                        continue
                    vn = Sc.variant_taken(q.conds[0][1], q.conds[0][2], q.conds[0][3])
                    if vn == "Some":
                        step_ok = step_ok and n(q.ret) == C(1) and stores == [(("deref", ("field", item, 0)), ("field", ("variant", decc, "Some"), 0))]
                    elif vn == "None":
                        step_ok = step_ok and n(q.ret) == C(0) and not stores
                    else:
                        step_ok = False
                ok = gates_ok and step_ok and names == ["iter_mut", "chunks_exact", "zip"] and a0 in ([P(1)], [("deref", P(1))]) and a1 == [P(2), C(2)]
                desc = "all() form: gates %s, step %s, iteration %s" % (gates_ok, step_ok, names)
        if step is not None:
            pre_names = [c[1].rsplit("::", 1)[-1] for c in pre.calls]
            gate = [(n(d), (taken == "otherwise") if vals == [0] else bool(taken)) for (_, d, taken, vals) in pre.conds]
            want_gate = [(binop("Ne", ("call", "core::slice::<impl [T]>::len", (P(2),)), binop("Mul", ("cparam", "N"), C(2))), False)]
            it = [p for p in step if p.end == "loop"]
            rets = sorted(repr(n(p.ret)) for p in step if p.end == "return")
            if pre_names == ["len", "iter_mut", "chunks_exact", "zip", "into_iter"] and gate == want_gate and len(it) == 1 and rets == sorted([repr(C(0)), repr(C(1))]):
                p = it[0]
                nxt = [n(("call", c[0], c[1], c[2])) for c in p.calls if c[1].endswith("::next")]
                item = ("field", ("variant", nxt[0], "Some"), 0)
                dec = ("call", H + one, (("field", item, 1),))
                stores = [(n(pl), n(v)) for _, pl, v in p.stores]
                ok = stores == [(("deref", ("field", item, 0)), ("field", ("variant", dec, "Some"), 0))]
                ok = ok and [n(a) for a in pre.calls[1][2]] in ([P(1)], [("deref", P(1))]) and [n(a) for a in pre.calls[2][2]] == [P(2), C(2)]
                desc = "stores %s" % [(sym.fmt(a), sym.fmt(c)) for a, c in stores]
            else:
                desc = "pre %s gate %s rets %s" % (pre_names, [(sym.fmt(c), t) for c, t in gate], rets)
        ctx.ob(r, (nm, "shape"), ok, "%s is %s; reference len gate, dst.iter_mut().zip(src.chunks_exact(2)), *dst = %s(chunk)? else false" % (nm, desc, one), cfg=F.key, where=b.where())


def _closure_iteration(F, b, method):
    """(adapter names of the iterator, source taken by value?, closure body, args of the first adapter, args of the second) when the
    function's single returning path ends in ITER.<method>(closure) with no loop of its own; else None"""
    S = sym.Sym(b)
    ps = [p for p in S.paths() if p.end == "return"]
    if any(p.end == "loop" for p in S.paths()) or not ps:
        return None
    for p in ps:
        calls = [c for c in p.calls if c[1].endswith("::" + method)]
        if len(calls) != 1:
            continue
        it, cl = calls[0][2][0], calls[0][2][1]
        cl = n(cl)
        if not (cl[0] == "agg" and cl[1].startswith("closure:")):
            return None
        cb = F.fn(cl[1][len("closure:"):])
        if cb is None:
            return None
        e = n(it)
        while e[0] in ("ref", "deref"):
            e = e[-1]
        names, by_value, firsts = [], False, []

        def walk(x):
            nonlocal by_value
            if x[0] == "call":
                nm_ = x[1].rsplit("::", 1)[-1]
                if nm_ in ("copied", "cloned"):
                    by_value = True
                    walk(x[2][0])
                    return
                if nm_ in ("into_iter", "by_ref"):
                    walk(x[2][0])
                    return
                if nm_ == "zip":
                    walk(x[2][0])
                    walk(x[2][1])
                    names.append("zip")
                    return
                names.append(nm_)
                firsts.append([y for y in x[2]])
        walk(e)
        if len(firsts) != 2:
            return None
        return names, by_value, cb, firsts[0], firsts[1]
    return None


def loop_step(b):
    S = sym.Sym(b)
    first = S.paths()
    loops = [p for p in first if p.end == "loop"]
    if not loops:
        return None, None
    hdr = loops[0].blocks[-1]
    pre = [p for p in S.paths(stop_at={hdr}) if p.end == "stop"]
    if len(pre) != 1:
        return None, None
    return S.paths(entry=hdr), pre[0]


def table_rules(ctx, r, F):
    t = tables.hex_tables(ctx, r, F)
    ctx.rules[r]["exhaustive"] = True
    return t
