"""C01 -- generated hashes equal the TLSH reference algorithm.

Decided: the data part (tables by value) and the skeleton part (table use, window/salt
pairing, checksum recurrences, finalize skeleton, dibit rule) as necessary conditions.
Not decided: numeric equality of whole hashes on all inputs."""
import itertools

from .. import sym, tables
from ..norm import n, P, C, call, binop, idx, table
from . import common, simd

ID = "C01"
CONFIGS = {"quick": ["K0", "K1"], "thorough": ["K0", "K1", "K7", "K13", "K14a", "K14b", "K14c", "K19", "K20", "K21"]}
META = {
    "explanation": (
        "Static analysis of the type-checked program (rustc MIR + constant evaluator) in several feature "
        "configurations.  Decides by value that the Pearson permutation, its 48-fold and double tables and the "
        "length table equal the TLSH reference (independently transcribed / recomputed); decides as necessary "
        "conditions that every table is indexed with the reference expression, that the 5-byte window feeds the "
        "six salted bucket updates and the checksum with the reference byte ages, that the checksum recurrences "
        "chain on the new value, that finalize rejects in the reference order, selects the reference ranks, uses "
        "the reference arithmetic widths, and that the quartile->dibit rule is the reference one on every "
        "ordering of (value,q1,q2,q3).  It does NOT decide that these pieces compose to the reference output on "
        "every input (numerical result over run-time data)."
    ),
    "trusted_base": ["rustc nightly front end and constant evaluator", "core::slice::select_nth_unstable post-condition",
                     "spec/pearson.json (independent transcription), spec/topval.json (pinned transcription + laws)"],
    "assumptions": ["analysed targets: x86_64, plus i686 / wasm32 (simd128 aggregation) / riscv64 (table-less length search) in the thorough tier; code behind the `unstable` feature is not analysed"],
    "not_decided": ["numeric equality of the assembled hash with the reference on every input", "float rounding at counts >= 2^24",
                    "correctness of core::slice::select_nth_unstable"],
}
TECHNIQUE = 'table value rules against the TLSH reference tables, MIR path rules for the window/salt pairing and checksum recurrence, 512-row decision table of the rejection precedence, SIMD comparison-core matching'

SALTS = {2: (0, 1, 2), 3: (0, 1, 3), 5: (0, 2, 3), 7: (0, 2, 4), 11: (0, 1, 4), 13: (0, 3, 4)}


def run(ctx, FS):
    for key, F in FS.items():
        r = "R-01.1"
        ctx.rule(r, "Pearson/48-fold/double/length tables, INITIAL_STATE, WINDOW_SIZE equal the reference by value")
        tables.pearson_tables(ctx, r, F)
        tables.topval_table(ctx, r, F)
        ctx.rules[r]["exhaustive"] = True
        table_use(ctx, F)
        window(ctx, F)
        checksum_rec(ctx, F)
        finalize(ctx, F)
        dibit(ctx, F)
        simd_dibit(ctx, F)
        # multi-GiB inputs: what is counted for a piece is the checked conversion of its length (or the room left), and the iterated
        # slice is the counted one (shared with C11 R-11.3)
        from . import c11
        c11.guards(ctx, F, "R-01.8")
    ctx.floor("R-01.1", 5 * len(FS), "table/constant instances")


# ------------------------------------------------------------------ R-01.2


def ret_expr(F, path):
    """Normalised return expression of a single-path function (asserts ignored)."""
    b = F.fn(path)
    if b is None:
        return None, None
    ps = [p for p in sym.Sym(b).paths() if p.end == "return"]
    if len(ps) != 1:
        return b, ("multi", len(ps))
    return b, n(ps[0].ret)


def expect(ctx, r, F, path, want, what):
    b, got = ret_expr(F, path)
    ctx.instance(r)
    if b is None:
        ctx.missing(r, "function %s" % path, cfg=F.key)
        return
    wants = want if isinstance(want, list) else [want]
    ok = got in wants
    ctx.ob(r, (path, what), ok,
           "%s computes %s; reference shape is %s" % (path, sym.fmt(got) if isinstance(got, tuple) and got and got[0] != "multi" else got,
                                                     " or ".join(sym.fmt(w) for w in wants)),
           cfg=F.key, where=b.where())


def table_use(ctx, F):
    r = "R-01.2"
    ctx.rule(r, "each Pearson step indexes its table with the reference expression; b_mapping = final(update_double(init(b0),b1,b2),b3)", "N")
    T = table("pearson::SUBST_TABLE")
    T48 = table("pearson::SUBST_TABLE_48")
    TD = table("pearson::SUBST_TABLE_DOUBLE")
    x12 = binop("BitXor", P(1), P(2))
    expect(ctx, r, F, "pearson::update", idx(T, x12), "T[state^value]")
    expect(ctx, r, F, "pearson::final_48", idx(T48, x12), "T48[state^value]")
    expect(ctx, r, F, "pearson::final_256", [call("pearson::update", P(1), P(2)), idx(T, x12)], "update(state,value)")
    expect(ctx, r, F, "pearson::init", [call("pearson::update", C(0), P(1)), idx(T, binop("BitXor", C(0), P(1)))], "update(INITIAL_STATE,value)")
    if "opt-pearson-table-double" in F.features:
        expect(ctx, r, F, "pearson::update_double", idx(idx(TD, P(3)), x12), "D[b2][state^b1]")
    else:
        expect(ctx, r, F, "pearson::update_double",
               call("pearson::update", call("pearson::update", P(1), P(2)), P(3)), "update(update(state,b1),b2)")
    for k in ("256", "48"):
        expect(ctx, r, F, "pearson::tlsh_b_mapping_" + k,
               call("pearson::final_" + k, call("pearson::update_double", call("pearson::init", P(1)), P(2), P(3)), P(4)),
               "final(update_double(init(b0),b1,b2),b3)")
    # bucket count -> mapping
    want = {"48": "pearson::tlsh_b_mapping_48", "128": "pearson::tlsh_b_mapping_256", "256": "pearson::tlsh_b_mapping_256"}
    seen = 0
    for b in F.method("b_mapping", "buckets::constrained::FuzzyHashBucketsInfo<"):
        st = F.tys(b.impl_info()["self_ty"])
        nb = st.split("<")[1].rstrip(">")
        ps = [p for p in sym.Sym(b).paths() if p.end == "return"]
        got = n(ps[0].ret) if len(ps) == 1 else None
        ctx.instance(r)
        seen += 1
        w = call(want.get(nb, "?"), P(1), P(2), P(3), P(4))
        ctx.ob(r, ("FuzzyHashBucketsInfo<%s>::b_mapping" % nb, "delegates"), got == w,
               "b_mapping for %s buckets computes %s, reference %s" % (nb, sym.fmt(got) if got else got, sym.fmt(w)),
               cfg=F.key, where=b.where())
    if seen < 3:
        ctx.missing(r, "three FuzzyHashBucketMapper::b_mapping impls (found %d)" % seen, cfg=F.key)
    # the generator's own b_mapping forwards to the bucket mapper of its SIZE_BUCKETS
    for b in F.method("b_mapping", "generate::inner::Generator<"):
        ps = [p for p in sym.Sym(b).paths() if p.end == "return"]
        got = n(ps[0].ret) if len(ps) == 1 else None
        ok = (got is not None and got[0] == "call" and got[1] == "buckets::constrained::FuzzyHashBucketMapper::b_mapping"
              and got[2] == (P(1), P(2), P(3), P(4)))
        st = None
        if ok:
            c = [t for _, t in b.calls()][0]["callee"]
            st = F.tys(c.get("self_ty"))
            ok = st == "buckets::constrained::FuzzyHashBucketsInfo<SIZE_BUCKETS>"
        ctx.instance(r)
        ctx.ob(r, ("Generator::b_mapping", "forwards"), ok,
               "Generator::b_mapping is %s on %s" % (sym.fmt(got) if got else got, st), cfg=F.key, where=b.where())


# ------------------------------------------------------------------ R-01.3


def tail_index(e):
    """k if e denotes a read of self.tail[k] (any memory version), else None."""
    e = n(e)
    if e[0] in ("load", "mutated"):
        e = e[1]
    # index(field(deref(param1), 3), const k)
    if e[0] == "index" and e[2][0] == "const" and e[1][0] == "field" and e[1][1] == ("deref", P(1)):
        return (e[1][2], e[2][1])
    return None


def window(ctx, F, r="R-01.3"):
    ctx.rule(r, "six salted bucket increments per window with reference byte ages, checksum fed (age0, age1), shuffle advances ages by one", "N")
    bs = F.method("update", "generate::inner::Generator<")
    if len(bs) != 1:
        ctx.missing(r, "inner Generator::update (found %d)" % len(bs), cfg=F.key)
        return
    b = bs[0]
    gen = common.generator_fields(F)
    if gen is None:
        ctx.missing(r, "inner Generator field layout", cfg=F.key)
        return
    S = sym.Sym(b)
    paths = S.paths()
    loops = [p for p in paths if p.end == "loop"]
    if not loops:
        ctx.missing(r, "window loop in Generator::update", cfg=F.key)
        return
    checked = 0
    for p in loops:
        # the loop item: payload of Iterator::next()'s Some
        item = None
        for (bb, path, args, c) in p.calls:
            if path.endswith("::next") and "Iterator" in path:
                item = bb
        if item is None:
            continue

        def age(e):
            e = n(e)
            # loop item: load(deref(variant(call next, Some).0))
            found = []
            sym.walk(e, lambda x: found.append(x) if isinstance(x, tuple) and x and x[0] == "call" and x[1].endswith("::next") else None)
            if found:
                return 0
            ti = tail_index(e)
            if ti is not None and ti[0] == gen["tail"]:
                return 4 - ti[1]
            return None

        incs = []
        cks = []
        for (bb, path, args, c) in p.calls:
            if path.endswith("FuzzyHashBucketsData::<SIZE_BUCKETS>::increment") or path.endswith("::increment"):
                a = n(args[1]) if len(args) > 1 else None
                if a and a[0] == "call" and a[1].endswith("::b_mapping") and len(a[2]) == 4:
                    salt = a[2][0]
                    ages = tuple(age(x) for x in a[2][1:])
                    incs.append((salt[1] if salt[0] == "const" else None, ages, bb))
                else:
                    incs.append((None, None, bb))
            if path.endswith("InnerChecksum::update"):
                cks.append((tuple(age(x) for x in args[1:]), bb))
        checked += 1
        ctx.instance(r, len(incs) + len(cks))
        got = sorted((s, a) for s, a, _ in incs)
        want = sorted(SALTS.items())
        ctx.ob(r, ("Generator::update", "salt-window-multiset"), got == want,
               "bucket increments per window are %s; reference %s (salt, byte ages of the three operands)" % (got, want),
               cfg=F.key, where=b.where(), detail={"increments": got})
        ctx.ob(r, ("Generator::update", "checksum-operands"), [c[0] for c in cks] == [(0, 1)],
               "checksum.update is fed byte ages %s; reference [(0, 1)] (current, previous)" % [c[0] for c in cks],
               cfg=F.key, where=b.where())
        # receiver of increment is the buckets field, of checksum.update the checksum field
        for (bb, path, args, c) in p.calls:
            if path.endswith("::increment"):
                a0 = n(args[0])
                ok = a0 == ("ref", ("field", ("deref", P(1)), gen["buckets"]))
                ctx.ob(r, ("Generator::update", "increment-receiver"), ok, "increment receiver is %s" % sym.fmt(args[0]), cfg=F.key, trivial=True)
        # shuffle: at the back edge every window local must hold the value one step younger
        # locals that were initialised from tail[k] (age 4-k):
        env = p.env["locals"]
        init_age = {}
        # recover which locals carried tail values at loop entry by re-walking up to the header once
        hdr = p.blocks[-1]
        pre = S.paths(stop_at={hdr})
        pre = [q for q in pre if q.end == "stop" and q.blocks[: len(q.blocks)] == p.blocks[: len(q.blocks)]]
        if pre:
            for l, v in pre[0].env["locals"].items():
                a = age(v) if isinstance(v, tuple) else None
                if a is not None and a > 0 and b.local_name(l):
                    init_age[l] = a
        ok = len(init_age) == 4 and sorted(init_age.values()) == [1, 2, 3, 4]
        msg = "window locals at loop entry carry ages %s; reference {1,2,3,4} from tail[3..0]" % sorted(init_age.values())
        if ok:
            for l, a in init_age.items():
                na = age(env.get(l)) if env.get(l) is not None else None
                if na is None or na + 1 != a:
                    ok = False
                    msg = "after the shuffle local `%s` (age %d) holds a value of age %s; reference age %d" % (
                        b.local_name(l), a, na, a - 1)
        ctx.ob(r, ("Generator::update", "window-shuffle"), ok, msg, cfg=F.key, where=b.where())
    if checked == 0:
        ctx.missing(r, "loop path with Iterator::next in Generator::update", cfg=F.key)
    ctx.floor(r, 7, "salted increments + checksum update")


# ------------------------------------------------------------------ R-01.4


def checksum_rec(ctx, F, r="R-01.4"):
    ctx.rule(r, "checksum recurrences: data[0]<-b_mapping(0,cur,prev,data[0]); 3-byte form chains map256 on the NEW previous byte", "N")
    found = {1: 0, 3: 0}
    BM = "buckets::constrained::FuzzyHashBucketMapper::b_mapping"
    M256 = "pearson::tlsh_b_mapping_256"
    for b in F.method("update", "hash::checksum::FuzzyHashChecksumData<", trait="hash::checksum::inner::InnerChecksum"):
        st = F.tys(b.impl_info()["self_ty"])
        size = int(st.split("<")[1].split(",")[0])
        ps = [p for p in sym.Sym(b).paths() if p.end == "return"]
        if len(ps) != 1:
            ctx.missing(r, "single path in %s" % b.path, cfg=F.key)
            continue
        stores = [(n(pl), n(v)) for _, pl, v in ps[0].stores]
        data = lambda i: ("index", ("field", ("deref", P(1)), 0), C(i))
        old = lambda i: ("load", data(i))
        new0 = call(BM, C(0), P(2), P(3), old(0))
        want = [(data(0), new0)]
        if size == 3:
            new1 = call(M256, new0, P(2), P(3), old(1))
            new2 = call(M256, new1, P(2), P(3), old(2))
            want += [(data(1), new1), (data(2), new2)]
        found[size] = found.get(size, 0) + 1
        ctx.instance(r, len(want))
        # final content of self.data, however it is written (element stores or one array store)
        st_ = common.final_array_state(stores, ("field", ("deref", P(1)), 0), size)
        others = [pl for pl, _ in stores if not common.find_all(pl, lambda y: y == ("field", ("deref", P(1)), 0))]
        okrec = st_ is not None and not others and st_ == {i: v for i, (_, v) in enumerate(want)}
        ctx.ob(r, ("InnerChecksum::update<%d>" % size, "recurrence"), okrec,
               "checksum update (%d-byte) stores %s; reference %s" % (
                   size, [(sym.fmt(a), sym.fmt(v)) for a, v in stores], [(sym.fmt(a), sym.fmt(v)) for a, v in want]),
               cfg=F.key, where=b.where())
    if not (found[1] and found[3]):
        ctx.missing(r, "InnerChecksum::update impls for 1- and 3-byte checksums (%s)" % found, cfg=F.key)


# ------------------------------------------------------------------ R-01.5


def finalize(ctx, F):
    common.finalize_skeleton(ctx, F, "R-01.5")


# ------------------------------------------------------------------ R-01.6


def simd_dibit(ctx, F):
    """The SIMD aggregation backends compiled in this configuration produce the same dibit as get_quartile."""
    if not any(F.fn(path) is not None for path, _ in simd.AGG.values()):
        return
    r = "R-01.7"
    ctx.rule(r, "SIMD bucket aggregation: dibit = 2*[v>q2] + ([v>q1]^[v>q2]^[v>q3]) with unsigned compares, equal to #{k : v > q_k} whenever "
                "q1<=q2<=q3 (all monotone indicator triples enumerated); bytes written in the naive aggregator's order", "N")
    # the formula equals the count on every indicator triple that q1<=q2<=q3 allows: (0,0,0) (1,0,0) (1,1,0) (1,1,1)
    ok = all(2 * g2 + (g1 ^ g2 ^ g3) == g1 + g2 + g3 for (g1, g2, g3) in ((0, 0, 0), (1, 0, 0), (1, 1, 0), (1, 1, 1)))
    ctx.instance(r)
    ctx.ob(r, ("dibit-formula", "equals-count-on-monotone-triples"), ok, "formula and count differ", cfg=F.key, trivial=True)
    simd.agg_kernels(ctx, r, F)


def dibit(ctx, F):
    r = "R-01.6"
    ctx.rule(r, "get_quartile returns #{k : value > q_k} on every weak ordering of (value,q1,q2,q3) with q1<=q2<=q3", "D")
    b = F.fn("generate::bucket_aggregation::naive::get_quartile")
    if b is None:
        ctx.missing(r, "naive::get_quartile", cfg=F.key)
        return
    paths = [p for p in sym.Sym(b).paths()]
    # abstract domain: ranks of (v,q1,q2,q3) -- weak orderings as rank vectors in {0..3}^4
    total = 0
    bad = []
    for ranks in itertools.product(range(4), repeat=4):
        v, q1, q2, q3 = ranks
        if not (q1 <= q2 <= q3):
            continue
        if sorted(set(ranks)) != list(range(len(set(ranks)))):
            continue  # canonical rank vectors only
        total += 1
        want = (v > q1) + (v > q2) + (v > q3)
        val = {1: v, 2: q1, 3: q2, 4: q3}
        outcome = None
        for p in paths:
            feasible = True
            for (_, d, taken, vals) in p.conds:
                d = n(d)
                if d[0] != "bin" or d[1] not in ("Lt", "Le", "Eq", "Ne") or d[2][0] != "param" or d[3][0] != "param":
                    feasible = None
                    break
                a, c = val[d[2][1]], val[d[3][1]]
                res = {"Lt": a < c, "Le": a <= c, "Eq": a == c, "Ne": a != c}[d[1]]
                if taken == "otherwise":
                    if int(res) in vals:
                        feasible = False
                        break
                elif int(res) != taken:
                    feasible = False
                    break
            if feasible is None:
                outcome = ("unrecognised-condition", sym.fmt(d))
                break
            if feasible:
                if p.end == "return" and p.ret[0] == "const":
                    outcome = p.ret[1]
                else:
                    outcome = ("end", p.end)
                break
        if outcome != want:
            bad.append((ranks, outcome, want))
    ctx.instance(r, total)
    ctx.rules[r]["exhaustive"] = True
    ctx.ob(r, ("naive::get_quartile", "order-type-table"), not bad and total > 0,
           "get_quartile disagrees with #{k: v>q_k} on orderings (ranks of v,q1,q2,q3 -> got, want): %s" % bad[:5],
           cfg=F.key, where=b.where(), detail={"orderings": total})
    # orientation of the naive aggregators
    common.naive_aggregator_orientation(ctx, F, r)
