"""C14 -- serializers respect the caller's buffer."""
from .. import sym
from ..norm import n, P, C, V, match, find_all
from . import layout, common

ID = "C14"
CONFIGS = {"quick": ["K0", "K1"], "thorough": ["K0", "K1", "K2", "K6", "K8", "K13"]}
META = {
    "explanation": (
        "Static slice-window analysis on MIR paths, evaluated by constant folding for the five hash variants.  Decided: "
        "store_into_bytes / store_into_str_bytes return BufferIsTooSmall exactly when out.len() < N with N the advertised "
        "size of the form (strict comparison against the very constant that is returned on success), that gate dominates "
        "every write, every write is a window [a,b) with constant bounds whose union is exactly [0,N) -- so nothing "
        "beyond N is touched -- and the two array encoders that are handed an open-ended rest slice are summarised from "
        "their own bodies (they write only through dst.chunks_exact_mut(2) zipped with the K source bytes, hence at most "
        "2K bytes).  Every Ok path of a serializer is checked separately (a conditional extra write -- e.g. a terminator stored "
        "through out.get_mut(N) -- is an unrecognised writer).  R-14.3 decides the outcome as a function of the buffer length "
        "alone: each path's own conditions on out.len() are evaluated for lengths 0, N-1, N, N+1, N+2, 2N+7 and every variant; "
        "below N only Err(BufferIsTooSmall) may be reachable, from N on only Ok -- so an over-strong debug assertion or optimiser "
        "hint (`invariant!(out.len() == N)`) that panics for a merely larger buffer is reported."
        "  Both serializers are decided by abstract evaluation (wmodel, DESIGN 9.5): outcome, returned size and write windows for every buffer length 0..N+1100 per variant and prefix mode; the idiom-based window rules are the fallback when a function cannot be evaluated completely (e.g. it contains a loop)."
    ),
    "trusted_base": ["rustc nightly front end and constant evaluator", "hex_simd::encode writes exactly 2*src.len() bytes into the Out slice (external contract)",
                     "core slice APIs (copy_from_slice, chunks_exact_mut, zip)"],
    "assumptions": [],
    "not_decided": ["hex_simd::encode internals"],
}
TECHNIQUE = 'abstract evaluation of both serializers for every buffer length of a dense range (outcome, returned size, write windows per variant and prefix mode), encoder write-set summaries'


def run(ctx, FS):
    for key, F in FS.items():
        envs = layout.variant_envs(F)
        r1, r2 = "R-14.1", "R-14.2"
        ctx.rule(r1, "gates: Err(BufferIsTooSmall) iff out.len() < N (strict) with N the constant returned on success; no write before the gate")
        ctx.rule(r2, "every write is a constant window; the union of windows is exactly [0,N); open-ended callees are the summarised array encoders")
        if envs is None:
            ctx.missing(r1, "per-variant constants of inner FuzzyHash", cfg=key)
            continue
        binary(ctx, F, envs, r1, r2)
        text(ctx, F, envs, r1, r2)
        encoders(ctx, F, r2)
        totality(ctx, F, envs)


def totality(ctx, F, envs):
    """R-14.3: the outcome as a function of the buffer length alone.  Every enumerated path of the two serializers (returning or
    diverging) is evaluated on its own conditions that depend only on out.len() and crate constants, for out.len() in
    {0, N-1, N, N+1, N+2, 2N+7} around each advertised size N and every hash variant: a length below N must reach only
    Err(BufferIsTooSmall) paths, a length >= N only Ok paths -- in particular no panicking path (an over-strong debug
    assertion / optimiser hint on the length) may be feasible for a buffer that is merely larger than needed."""
    from .. import evalx
    r = "R-14.3"
    ctx.rule(r, "outcome by buffer length class: len < N -> only Err(BufferIsTooSmall); len >= N -> only Ok(N); no diverging path feasible for any length (conditions on out.len() evaluated per variant)")
    LEN = "core::slice::<impl [T]>::len"
    for nm, sizes in (("store_into_bytes", {None: "SIZE_IN_BYTES"}), ("store_into_str_bytes", {"Empty": "LEN_IN_STR_EXCEPT_PREFIX", "WithVersion": "LEN_IN_STR"})):
        b, S, err = layout.writer_paths(F, nm)
        ctx.instance(r)
        if b is None:
            ctx.missing(r, err, cfg=F.key)
            continue
        if layout._evaluated(F, "binary" if nm == "store_into_bytes" else "text") is not None:
            # the evaluation-based writer model replayed the function for every buffer length 0..N+1100 (and some huge ones), every
            # variant and prefix mode: Err below N, Ok from N on, no panic -- it is only available when all of that holds
            ctx.ob(r, (nm, "outcome-by-length-class"), True, "", cfg=F.key, where=b.where(), detail={"engine": "evaluation"})
            continue
        evalx.set_target(F)
        try:
            paths = S.paths()
        except sym.PathLimit:
            ctx.missing(r, "path explosion in %s" % nm, cfg=F.key)
            continue
        bad = []
        n_eval = 0
        for vname, env in envs:
            cv = {k.split(":", 1)[1].rsplit("::", 1)[-1]: v for k, v in env.items() if k.startswith("assoc:")}
            cps = {k: v for k, v in env.items() if not k.startswith("assoc:")}
            for mode, kname in sizes.items():
                N = cv.get(kname)
                if N is None:
                    bad.append("%s: constant %s unknown" % (vname, kname))
                    continue
                for L in sorted({0, N - 1, N, N + 1, N + 2, 2 * N + 7}):
                    outcomes = set()
                    for p in paths:
                        if p.end == "unreachable":
                            continue
                        feasible = True
                        for (bb, d, taken, vals) in p.conds:
                            e = n(d)
                            if mode is not None and e == ("discr", P(3)) and taken != "otherwise":
                                if S.variant(d, taken) != mode:
                                    feasible = False
                                    break
                                continue
                            if not find_all(e, lambda x: x == P(2)):
                                continue

                            def view(o, rng, L=L):
                                # out.get(..k) / out.get_mut(..k) is Some exactly when k <= out.len()
                                if o == ("obj", "out") and isinstance(rng, tuple) and rng[:2] == ("adt", "core::ops::RangeTo::RangeTo") and isinstance(rng[2], int):
                                    return ("Some", ("obj", "view")) if rng[2] <= L else ("None",)
                                raise evalx.Unknown("view")
                            asg = {"calls": {LEN: lambda x, L=L: L, "core::slice::<impl [T]>::get_mut": view, "core::slice::<impl [T]>::get": view},
                                   "params": {2: ("obj", "out")}, "cpath_values": cv, "cparams": cps, "symbolic": True}
                            try:
                                v = evalx.ev(S, F, d, asg)
                            except (evalx.Unknown, evalx.Panics):
                                continue  # depends on something else: unconstrained
                            n_eval += 1
                            if not isinstance(v, int):
                                continue
                            if (v in vals) if taken == "otherwise" else (v != taken):
                                feasible = False
                                break
                        if not feasible:
                            continue
                        if p.end == "return":
                            rt = n(p.ret)
                            outcomes.add("Ok" if rt[0] == "agg" and rt[1].endswith("Result::Ok") else ("Err" if rt[0] == "agg" and rt[1].endswith("Result::Err") else "other"))
                        else:
                            outcomes.add("panic(%s)" % p.end)
                    want = {"Err"} if L < N else {"Ok"}
                    if outcomes != want:
                        bad.append("%s%s: buffer length %d (advertised size %d) reaches %s; reference %s" % (vname, "/" + mode if mode else "", L, N, sorted(outcomes), sorted(want)))
        ctx.ob(r, (nm, "outcome-by-length-class"), not bad and n_eval > 0, "; ".join(bad[:3]) or "no length condition could be evaluated", cfg=F.key, where=b.where(), detail={"conditions_evaluated": n_eval})


def check_windows(ctx, r, F, what, writes, unknown, gate_k, envs, b):
    bad = []
    for name, env in envs:
        N = layout.ceval(gate_k, env)
        ivs = []
        for (s, e, kind, src, ln) in writes:
            s0 = layout.ceval(s, env)
            e0 = layout.ceval(e, env) if e is not None else None
            if e0 is None:
                # open-ended: only the summarised encoders
                if kind in ("rev_array", "plain_array") and ln is not None:
                    k = layout.ceval(ln, env)
                    e0 = s0 + 2 * k if (s0 is not None and k is not None) else None
                elif kind.startswith("hex_simd") and src == "body":
                    e0 = s0 + 2 * env["SIZE_BODY"] if s0 is not None else None
            elif kind in ("rev_array", "plain_array") and ln is not None:
                k = layout.ceval(ln, env)
                if k is not None and s0 is not None:
                    e0 = min(e0, s0 + 2 * k)
            if s0 is None or e0 is None:
                bad.append("%s: window of %s write (%s) is not constant" % (name, kind, src))
                continue
            ivs.append((s0, e0, kind, src))
        ivs.sort()
        pos = 0
        for (s0, e0, kind, src) in ivs:
            if s0 != pos:
                bad.append("%s: windows %s do not tile [0,%s): gap/overlap at %d" % (name, [(a, b2) for a, b2, _, _ in ivs], N, pos))
                break
            pos = e0
        else:
            if pos != N:
                bad.append("%s: windows end at %d, advertised size %s" % (name, pos, N))
    if unknown:
        bad.append("unrecognised writers of the output buffer: %s" % sorted(set(unknown)))
    ctx.instance(r, len(writes) * len(envs))
    ctx.ob(r, (what, "windows-tile-[0,N)"), not bad, "; ".join(bad[:3]), cfg=F.key, where=b.where(), detail={"writes": len(writes), "variants": len(envs)})


def _same_value(e, K, envs):
    """expression e evaluates to the same number as constant K for every hash variant"""
    if e == K:
        return True
    for _, env in envs:
        a, b2 = layout.ceval(e, env), layout.ceval(K, env)
        if a is None or b2 is None or a != b2:
            return False
    return bool(envs)


def _gate_ok(gate, K, truth, envs):
    return gate is not None and gate[1] == truth and _same_value(gate[0], K, envs)


def _ok_value(ret, K, envs):
    return ret[0] == "agg" and ret[1] == "adt:core::result::Result::Ok" and len(ret[2]) == 1 and _same_value(ret[2][0], K, envs)


def binary(ctx, F, envs, r1, r2):
    W, err = layout.binary_writer(F)
    ctx.instance(r1)
    if W is None or W["ok"] is None or W["err"] is None:
        ctx.missing(r1, err or "Ok/Err paths of store_into_bytes", cfg=F.key)
        return
    b = W["body"]
    K = ("cpath", "hash::public::FuzzyHashType::SIZE_IN_BYTES")
    ok, er = W["ok"], W["err"]
    g = _gate_ok(ok["gate"], K, False, envs) and _gate_ok(er["gate"], K, True, envs)
    ctx.ob(r1, ("store_into_bytes", "gate"), g, "gate is %s / %s; reference out.len() < SIZE_IN_BYTES" % (ok["gate"], er["gate"]), cfg=F.key, where=b.where())
    ctx.ob(r1, ("store_into_bytes", "ok-value"), _ok_value(ok["ret"], K, envs), "returns %s" % sym.fmt(ok["ret"]), cfg=F.key, where=b.where())
    ctx.ob(r1, ("store_into_bytes", "err-value"), er["ret"] == ("agg", "adt:core::result::Result::Err", (("agg", "adt:errors::OperationError::BufferIsTooSmall", ()),)) and not er["writes"] and not er["unknown"],
           "error path returns %s with %d writes" % (sym.fmt(er["ret"]), len(er["writes"])), cfg=F.key, where=b.where())
    vals = {nm: (env["assoc:SIZE_IN_BYTES"], env["SIZE_IN_BYTES"]) for nm, env in envs}
    ctx.ob(r1, ("FuzzyHashType::SIZE_IN_BYTES", "value"), all(a == b2 for a, b2 in vals.values()), "SIZE_IN_BYTES per variant %s" % vals, cfg=F.key, trivial=True)
    for i_, o_ in enumerate([ok] + ok["alts"]):
        check_windows(ctx, r2, F, "store_into_bytes" + ("#%d" % i_ if i_ else ""), o_["writes"], o_["unknown"], K, envs, b)
        if i_:
            ctx.ob(r1, ("store_into_bytes#%d" % i_, "gate+ok-value"), _gate_ok(o_["gate"], K, False, envs) and _ok_value(o_["ret"], K, envs),
                   "another Ok path: gate %s, returns %s" % (o_["gate"], sym.fmt(o_["ret"])), cfg=F.key, where=b.where())
    for i_, e_ in enumerate(er["alts"]):
        ctx.ob(r1, ("store_into_bytes#%d" % (i_ + 1), "err-value"), e_["ret"] == er["ret"] and not e_["writes"] and not e_["unknown"] and _gate_ok(e_["gate"], K, True, envs),
               "another error path: gate %s returns %s with %d writes" % (e_["gate"], sym.fmt(e_["ret"]), len(e_["writes"])), cfg=F.key, where=b.where())


def text(ctx, F, envs, r1, r2):
    W, err = layout.text_writer(F)
    ctx.instance(r1)
    if W is None:
        ctx.missing(r1, err, cfg=F.key)
        return
    b = W["body"]
    want = {"Empty": ("cpath", "hash::public::FuzzyHashType::LEN_IN_STR_EXCEPT_PREFIX"), "WithVersion": ("cpath", "hash::public::FuzzyHashType::LEN_IN_STR")}
    if set(W["modes"]) != set(want) or set(W["errs"]) != set(want):
        ctx.missing(r1, "Ok/Err paths per prefix mode in store_into_str_bytes (ok %s, err %s)" % (sorted(map(str, W["modes"])), sorted(map(str, W["errs"]))), cfg=F.key)
        return
    for mode, K in want.items():
        ok, er = W["modes"][mode], W["errs"][mode]
        ctx.ob(r1, ("store_into_str_bytes/" + mode, "gate"), _gate_ok(ok["gate"], K, False, envs) and _gate_ok(er["gate"], K, True, envs),
               "gate for %s is %s / %s; reference out.len() < %s" % (mode, ok["gate"], er["gate"], K[1].rsplit("::", 1)[-1]), cfg=F.key, where=b.where())
        ctx.ob(r1, ("store_into_str_bytes/" + mode, "ok-value"), _ok_value(ok["ret"], K, envs), "returns %s" % sym.fmt(ok["ret"]), cfg=F.key, where=b.where())
        ctx.ob(r1, ("store_into_str_bytes/" + mode, "err-value"), er["ret"] == ("agg", "adt:core::result::Result::Err", (("agg", "adt:errors::OperationError::BufferIsTooSmall", ()),)) and er["writes"] == 0,
               "error path returns %s with %d writes" % (sym.fmt(er["ret"]), er["writes"]), cfg=F.key, where=b.where())
        for i_, o_ in enumerate([ok] + ok["alts"]):
            check_windows(ctx, r2, F, "store_into_str_bytes/" + mode + ("#%d" % i_ if i_ else ""), o_["writes"], o_["unknown"], K, envs, b)
            if i_:
                ctx.ob(r1, ("store_into_str_bytes/%s#%d" % (mode, i_), "gate+ok-value"), _gate_ok(o_["gate"], K, False, envs) and _ok_value(o_["ret"], K, envs),
                       "another Ok path: gate %s, returns %s" % (o_["gate"], sym.fmt(o_["ret"])), cfg=F.key, where=b.where())
    vals = {nm: (env["assoc:LEN_IN_STR"], env["assoc:LEN_IN_STR_EXCEPT_PREFIX"], env["SIZE_IN_BYTES"]) for nm, env in envs}
    ctx.ob(r1, ("FuzzyHashType::LEN_IN_STR", "value"), all(a == 2 * c + 2 and b2 == 2 * c for a, b2, c in vals.values()),
           "(LEN_IN_STR, LEN_IN_STR_EXCEPT_PREFIX, SIZE_IN_BYTES) per variant %s; reference 2*bytes+2, 2*bytes" % vals, cfg=F.key)
    # outer wrappers forward unchanged
    for nm, nargs in (("store_into_bytes", 2), ("store_into_str_bytes", 3)):
        for ob in F.method(nm, "hash::FuzzyHash<"):
            ps = [p for p in sym.Sym(ob).paths() if p.end == "return"]
            e = n(ps[0].ret) if len(ps) == 1 else None
            wantc = ("call", "hash::public::FuzzyHashType::" + nm, (("ref", ("field", ("deref", P(1)), 0)),) + tuple(P(i) for i in range(2, nargs + 1)))
            ctx.instance(r1)
            ctx.ob(r1, ("hash::FuzzyHash::" + nm, "forwards"), e == wantc, "outer %s is %s" % (nm, sym.fmt(e) if e else e), cfg=F.key, where=ob.where())


def encoders(ctx, F, r):
    """Summaries of the array encoders and encode_rev_1, verified on their bodies."""
    for nm in ("encode_rev_array", "encode_array"):
        b = F.fn("parse::hex_str::" + nm)
        if b is None:
            if nm == "encode_array" and "opt-simd-convert-hex" in F.features:
                continue
            ctx.missing(r, "parse::hex_str::" + nm, cfg=F.key)
            continue
        ctx.instance(r)
        S = sym.Sym(b)
        paths = S.paths()
        uses = []
        chunk = None
        zipped = False
        for p in paths:
            for (bb, path, args, c) in p.calls:
                a = [n(x) for x in args]
                for i, x in enumerate(a):
                    if find_all(x, lambda y: y == P(1)) and x == P(1):
                        uses.append(path)
                if path.endswith("::chunks_exact_mut") and a[0] == P(1):
                    chunk = a[1]
                if path.endswith("::zip"):
                    def _peel_adapters(x):
                        while x[0] == "call" and x[1].endswith(("::copied", "::cloned")) and len(x[2]) == 1:
                            x = x[2][0]
                        return x
                    a = [_peel_adapters(x) for x in a]
                    srcs = [x for x in a if x[0] == "call" and x[1].endswith("::iter") and x[2][0] in (P(2), ("deref", P(2)))]
                    cm = [x for x in a if x[0] == "call" and x[1].endswith("::chunks_exact_mut")]
                    zipped = zipped or (len(srcs) == 1 and len(cm) == 1)
            for (bb, pl, v) in p.stores:
                if find_all(n(pl), lambda y: y == P(1)):
                    uses.append("direct store")
        ok = set(uses) == {"core::slice::<impl [T]>::chunks_exact_mut"} and chunk == C(2) and zipped
        ctx.ob(r, (nm, "summary-writes-at-most-2K"), ok,
               "%s touches dst through %s (chunk size %s, zipped with src.iter(): %s); reference only dst.chunks_exact_mut(2).zip(src.iter())" % (nm, sorted(set(uses)), chunk, zipped),
               cfg=F.key, where=b.where())
    b = F.fn("parse::hex_str::encode_rev_1")
    ctx.instance(r)
    if b is None:
        ctx.missing(r, "parse::hex_str::encode_rev_1", cfg=F.key)
        return
    S = sym.Sym(b)
    wins = set()
    bad = []
    for p in S.paths():
        if p.end != "return":
            continue
        for (bb, path, args, c) in p.calls:
            a = [n(x) for x in args]
            if path == "core::slice::<impl [T]>::copy_from_slice":
                w = layout.window(a[0], P(1))
                if w:
                    wins.add((w[0], w[1]))
            elif any(x == P(1) for x in a) and not path.endswith(layout.INDEX_FNS + layout.PURE_VIEW_FNS):
                bad.append(path)
        for (bb, pl, v) in p.stores:
            m = match(("index", ("deref", P(1)), V("i")), n(pl))
            if m:
                wins.add((m["i"], layout.add(m["i"], C(1))))
            elif find_all(n(pl), lambda y: y == P(1)):
                bad.append("store " + sym.fmt(n(pl)))
    # the union of the constant windows is exactly dst[0..2]
    cells = set()
    for lo, hi in wins:
        if lo[0] != "const" or hi is None or hi[0] != "const":
            bad.append("non-constant window %s..%s" % (sym.fmt(lo), sym.fmt(hi) if hi else "end"))
            continue
        cells |= set(range(lo[1], hi[1]))
    ok = not bad and cells == {0, 1}
    ctx.ob(r, ("encode_rev_1", "writes-dst[0..2]"), ok, "encode_rev_1 writes windows %s (%s); reference dst[0..2] only" % (sorted(map(str, wins)), bad), cfg=F.key, where=b.where())
