import argparse
import importlib
import json
import os
import sys
import time

from . import engine, pp, report
from .props import constfold  # noqa: F401  (registers the constant-branch oracle in sym)

PROPS = ["C%02d" % i for i in range(1, 19)]


def load_prop(pid):
    return importlib.import_module("rules.props.%s" % pid.lower())


def run_prop(pid, tier, seed, repo=None, quiet=False):
    mod = load_prop(pid)
    keys = mod.CONFIGS[tier]
    if os.environ.get("VERIF_CONFIGS"):  # development aid: analyse other configurations than the registered ones
        keys = os.environ["VERIF_CONFIGS"].split(",")
    ctx = report.Ctx(pid, tier, seed)
    facts, failures = engine.load_configs(keys, repo)
    ctx.configs = sorted(facts)
    ctx.config_failures = failures
    if not facts:
        print("ENVIRONMENT: no configuration could be analysed for %s" % pid)
        for k, log in failures.items():
            print("---- %s\n%s" % (k, log[-1500:]))
        return 2
    for k, log in failures.items():
        ctx.notes.append("configuration %s did not type-check; rules needing it were skipped" % k)
        if getattr(mod, "CONFIG_FAILURE_IS_VIOLATION", None) and k in mod.CONFIG_FAILURE_IS_VIOLATION:
            r = "R-cfg"
            ctx.rule(r, "configuration must type-check")
            ctx.ob(r, ("config", k), False,
                   "configuration %s (%s) no longer type-checks:\n%s" % (k, engine.CONFIGS[k][2], log[-800:]), cfg=k)
        elif not quiet:
            print("note: configuration %s did not type-check (skipped for %s)" % (k, pid))
    fx = getattr(mod, "FIXTURES", None)
    if fx:
        from . import fixtures
        problems = fixtures.selfcheck(set(fx))
        if problems:
            print("ENVIRONMENT: positive fixture self-check failed (broken machinery, not a property violation):")
            for pr in problems:
                print("  " + pr)
            return 2
        ctx.notes.append("positive fixtures: rules %s fired on the violating fixture crate and stayed silent on the discharged twins" % sorted(fx))
    try:
        mod.run(ctx, facts)
    except engine.EnvError:
        raise
    except Exception as ex:  # a construct the rules were not built for: fail closed, as a reported violation rather than a traceback
        import traceback
        tb = traceback.format_exc().strip().splitlines()
        r = "R-engine"
        ctx.rule(r, "the rules must be able to analyse the tree")
        ctx.ob(r, ("rule-engine", type(ex).__name__), False,
               "the rule engine could not analyse this tree (%s: %s; %s) -- treated as a violation: the property is not established" % (type(ex).__name__, str(ex)[:120], tb[-3].strip()[:160] if len(tb) >= 3 else ""))
    meta = dict(mod.META)
    meta["cmd"] = "./check %s --tier %s" % (pid, tier)
    violations, lines = ctx.finish(meta)
    for l in lines:
        print(l)
    if not quiet:
        tot = sum(r["obligations"] for r in ctx.rules.values())
        print("%s %s: %d rules, %d obligations, %d violations, configs %s, %.1fs" % (
            pid, tier, len(ctx.rules), tot, violations, ",".join(ctx.configs), time.time() - ctx.t0))
    return 1 if violations else 0


def main(argv):
    ap = argparse.ArgumentParser()
    ap.add_argument("prop", nargs="?")
    ap.add_argument("--tier", default=os.environ.get("VERIF_TIER", "quick"))
    ap.add_argument("--replay")
    ap.add_argument("--dump", nargs=2, metavar=("CONFIG", "SUBSTR"))
    ap.add_argument("--repo")
    a = ap.parse_args(argv)
    try:
        seed = int(os.environ.get("VERIF_SEED", "0"))
    except ValueError:
        seed = 0
    if a.tier not in ("quick", "thorough"):
        a.tier = "quick"
    if a.repo:
        engine.REPO = a.repo
    try:
        if a.dump:
            facts, failures = engine.load_configs([a.dump[0]], a.repo)
            if failures:
                print(list(failures.values())[0])
                return 2
            F = facts[a.dump[0]]
            for b in F.bodies:
                if a.dump[1] in b.path:
                    print(pp.body(b))
                    print()
            return 0
        if a.replay:
            f = json.load(open(a.replay))
            print("replaying %s (%s)" % (f["key"], f["property"]))
            pid = f["property"]
            rc = run_prop(pid, "thorough" if a.tier == "thorough" else "quick", seed, a.repo, quiet=True)
            return rc
        if not a.prop:
            ap.print_usage()
            return 2
        if a.prop == "all":
            worst = 0
            for p in PROPS:
                try:
                    load_prop(p)
                except ImportError:
                    continue
                rc = run_prop(p, a.tier, seed, a.repo)
                worst = max(worst, rc)
            return worst
        return run_prop(a.prop.upper(), a.tier, seed, a.repo)
    except engine.EnvError as e:
        print("ENVIRONMENT: %s" % e)
        return 2
