use std::io::{self, Read};
use tlsh::prelude::*;

struct Flaky { chunks: Vec<Option<Vec<u8>>>, i: usize }
impl Read for Flaky {
    fn read(&mut self, buf: &mut [u8]) -> io::Result<usize> {
        if self.i >= self.chunks.len() { return Ok(0); }
        let c = self.chunks[self.i].take(); self.i += 1;
        match c { None => Err(io::Error::new(io::ErrorKind::Interrupted, "EINTR")), Some(v) => { buf[..v.len()].copy_from_slice(&v); Ok(v.len()) } }
    }
}
struct Liar;
impl Read for Liar { fn read(&mut self, buf: &mut [u8]) -> io::Result<usize> { Ok(buf.len() + 4096) } }

fn main() {
    let which = std::env::args().nth(1).unwrap_or_default();
    match which.as_str() {
        "f1" => {
            // Short variant: 1 checksum byte, then length, qratios, 12 body bytes = 15 bytes; checksum 0x31 > 48
            let mut doc = vec![15u8]; // postcard length prefix for a byte string
            doc.extend_from_slice(&[0x31, 0, 0]); doc.extend_from_slice(&[0u8; 12]);
            let r: Result<tlsh::hashes::Short, _> = postcard::from_bytes(&doc);
            println!("f1 result: {:?}", r.map(|h| h.to_string()));
        }
        "f2" => {
            let data: Vec<u8> = (0..600u32).map(|i| (i * 7 + i / 3) as u8).collect();
            let mut rd = Flaky { chunks: vec![Some(data[..300].to_vec()), None, Some(data[300..].to_vec())], i: 0 };
            let a = tlsh::hash_stream(&mut rd).map(|h| h.to_string());
            let b = tlsh::hash_buf(&data).map(|h| h.to_string());
            println!("f2 stream: {:?}\nf2 buffer: {:?}", a, b);
        }
        "f3" => {
            let r = tlsh::hash_stream(&mut Liar).map(|h| h.to_string());
            println!("f3 result: {:?}", r);
        }
        _ => {}
    }
}
