// Fact collection: everything the Python rules consume.

use std::collections::HashMap;

use rustc_hir::def::DefKind;
use rustc_hir::def_id::{DefId, LocalDefId, LOCAL_CRATE};
use rustc_middle::mir::interpret::{GlobalAlloc, Scalar};
use rustc_middle::mir::{
    self, AggregateKind, BasicBlock, Body, BorrowKind, Const as MirConst, ConstValue, Operand,
    Place, ProjectionElem, Rvalue, StatementKind, TerminatorKind,
};
use rustc_middle::ty::print::with_no_trimmed_paths;
use rustc_middle::ty::{
    self, GenericArg, GenericArgKind, GenericArgsRef, Instance, InstanceKind, Ty, TyCtxt,
    TypingEnv,
};
use rustc_span::{ExpnKind, Span};

use crate::json::J;

pub struct Cx<'tcx> {
    pub tcx: TyCtxt<'tcx>,
    ty_ids: HashMap<Ty<'tcx>, usize>,
    ty_tab: Vec<J>,
}

fn jstr<T: Into<String>>(s: T) -> J {
    J::S(s.into())
}

fn hex(bytes: &[u8]) -> String {
    let mut s = String::with_capacity(bytes.len() * 2);
    for b in bytes {
        s.push_str(&format!("{:02x}", b));
    }
    s
}

impl<'tcx> Cx<'tcx> {
    fn path(&self, def: DefId) -> String {
        with_no_trimmed_paths!(self.tcx.def_path_str(def))
    }

    // Evaluate anonymous constants inside `ty` (best effort; `ty` may mention the
    // caller's generic parameters, in which case it is returned unchanged on failure).
    fn norm_in(&self, scope: DefId, ty: Ty<'tcx>) -> Ty<'tcx> {
        let env = if is_concrete_no_alias_check(ty) {
            TypingEnv::fully_monomorphized()
        } else {
            TypingEnv::post_analysis(self.tcx, scope)
        };
        self.tcx
            .try_normalize_erasing_regions(env, rustc_middle::ty::Unnormalized::new_wip(ty))
            .unwrap_or(ty)
    }

    fn krate(&self, def: DefId) -> String {
        self.tcx.crate_name(def.krate).to_string()
    }

    fn loc(&self, span: Span) -> J {
        let sm = self.tcx.sess.source_map();
        if span.is_dummy() {
            return J::Null;
        }
        // Use the call-site of the outermost expansion for file:line messages.
        let root = span.source_callsite();
        let lo = sm.lookup_char_pos(root.lo());
        let mut o = J::obj();
        o.put("file", jstr(format!("{}", lo.file.name.prefer_local_unconditionally())));
        o.put("line", J::I(lo.line as i128));
        if span.from_expansion() {
            let mut macros = Vec::new();
            for ed in span.macro_backtrace() {
                if let ExpnKind::Macro(_, name) = ed.kind {
                    macros.push(jstr(name.to_string()));
                } else {
                    macros.push(jstr(format!("{:?}", ed.kind)));
                }
            }
            o.put("macros", J::A(macros));
        }
        o
    }

    // ---------------------------------------------------------------- types

    pub fn ty_id(&mut self, ty: Ty<'tcx>) -> J {
        if let Some(i) = self.ty_ids.get(&ty) {
            return J::I(*i as i128);
        }
        // reserve the slot first (recursive types cannot occur structurally, but
        // nested types intern their components before we push ourselves)
        let j = self.ty_json(ty);
        let i = self.ty_tab.len();
        self.ty_tab.push(j);
        self.ty_ids.insert(ty, i);
        J::I(i as i128)
    }

    fn ty_str(&self, ty: Ty<'tcx>) -> String {
        with_no_trimmed_paths!(ty.to_string())
    }

    fn ty_json(&mut self, ty: Ty<'tcx>) -> J {
        let mut o = J::obj();
        o.put("s", jstr(self.ty_str(ty)));
        match *ty.kind() {
            ty::Bool | ty::Char | ty::Int(_) | ty::Uint(_) | ty::Float(_) | ty::Str | ty::Never => {
                o.put("k", jstr("prim"));
            }
            ty::Adt(def, args) => {
                o.put("k", jstr("adt"));
                o.put("path", jstr(self.path(def.did())));
                o.put("krate", jstr(self.krate(def.did())));
                let a = self.gargs_json(args);
                o.put("args", a);
            }
            ty::Array(elem, len) => {
                o.put("k", jstr("array"));
                let e = self.ty_id(elem);
                o.put("elem", e);
                let l = self.tyconst_json(len);
                o.put("len", l);
            }
            ty::Slice(elem) => {
                o.put("k", jstr("slice"));
                let e = self.ty_id(elem);
                o.put("elem", e);
            }
            ty::Ref(_, to, m) => {
                o.put("k", jstr("ref"));
                o.put("mut", J::B(m.is_mut()));
                let e = self.ty_id(to);
                o.put("to", e);
            }
            ty::RawPtr(to, m) => {
                o.put("k", jstr("ptr"));
                o.put("mut", J::B(m.is_mut()));
                let e = self.ty_id(to);
                o.put("to", e);
            }
            ty::Tuple(ts) => {
                o.put("k", jstr("tuple"));
                let mut v = Vec::new();
                for t in ts.iter() {
                    v.push(self.ty_id(t));
                }
                o.put("elems", J::A(v));
            }
            ty::FnDef(def, args) => {
                o.put("k", jstr("fndef"));
                o.put("path", jstr(self.path(def)));
                o.put("krate", jstr(self.krate(def)));
                let a = self.gargs_json(args);
                o.put("args", a);
            }
            ty::FnPtr(..) => {
                o.put("k", jstr("fnptr"));
            }
            ty::Closure(def, args) => {
                o.put("k", jstr("closure"));
                o.put("path", jstr(self.path(def)));
                let mut v = Vec::new();
                for t in args.as_closure().upvar_tys().iter() {
                    v.push(self.ty_id(t));
                }
                o.put("upvars", J::A(v));
            }
            ty::Param(p) => {
                o.put("k", jstr("param"));
                o.put("n", jstr(p.name.to_string()));
                o.put("index", J::I(p.index as i128));
            }
            ty::Alias(alias) => {
                o.put("k", jstr("alias"));
                o.put("path", jstr(self.path(alias.kind.def_id())));
                let a = self.gargs_json(alias.args);
                o.put("args", a);
                // declared bounds of the associated type (e.g. `type Error: de::Error`)
                let adef = alias.kind.def_id();
                if matches!(self.tcx.def_kind(adef), DefKind::AssocTy) {
                    let mut bs = Vec::new();
                    for clause in self.tcx.item_bounds(adef).skip_binder().iter() {
                        if let Some(tp) = clause.as_trait_clause() {
                            bs.push(jstr(self.path(tp.skip_binder().def_id())));
                        }
                    }
                    o.put("bounds", J::A(bs));
                }
            }
            ty::Dynamic(..) => {
                o.put("k", jstr("dyn"));
            }
            _ => {
                o.put("k", jstr("other"));
            }
        }
        o
    }

    fn gargs_json(&mut self, args: GenericArgsRef<'tcx>) -> J {
        let mut v = Vec::new();
        for a in args.iter() {
            v.push(self.garg_json(a));
        }
        J::A(v)
    }

    fn garg_json(&mut self, a: GenericArg<'tcx>) -> J {
        match a.kind() {
            GenericArgKind::Lifetime(_) => J::obj().with("k", jstr("lt")),
            GenericArgKind::Type(t) => {
                let id = self.ty_id(t);
                J::obj().with("k", jstr("ty")).with("ty", id)
            }
            GenericArgKind::Const(c) => self.tyconst_json(c),
        }
    }

    fn tyconst_json(&mut self, c: ty::Const<'tcx>) -> J {
        let mut o = J::obj();
        match c.kind() {
            ty::ConstKind::Param(p) => {
                o.put("k", jstr("cparam"));
                o.put("n", jstr(p.name.to_string()));
                o.put("index", J::I(p.index as i128));
            }
            ty::ConstKind::Value(v) => {
                if let Some(leaf) = v.try_to_leaf() {
                    o.put("k", jstr("val"));
                    o.put("v", J::I(leaf.to_bits_unchecked() as i128));
                    o.put("ty", jstr(self.ty_str(v.ty)));
                } else {
                    o.put("k", jstr("valtree"));
                    o.put("s", jstr(with_no_trimmed_paths!(format!("{}", c))));
                }
            }
            ty::ConstKind::Unevaluated(uv) => {
                o.put("k", jstr("uneval"));
                o.put("path", jstr(self.path(uv.def)));
                let a = self.gargs_json(uv.args);
                o.put("args", a);
            }
            _ => {
                o.put("k", jstr("cother"));
                o.put("s", jstr(with_no_trimmed_paths!(format!("{:?}", c))));
            }
        }
        o
    }

    // ------------------------------------------------------------- constants

    fn alloc_bytes(&self, alloc_id: rustc_middle::mir::interpret::AllocId, off: u64, len: u64) -> Option<Vec<u8>> {
        match self.tcx.try_get_global_alloc(alloc_id)? {
            GlobalAlloc::Memory(a) => {
                let a = a.inner();
                let total = a.len() as u64;
                if off + len > total {
                    return None;
                }
                let bytes = a.inspect_with_uninit_and_ptr_outside_interpreter(
                    off as usize..(off + len) as usize,
                );
                Some(bytes.to_vec())
            }
            _ => None,
        }
    }

    fn layout_size(&self, env: TypingEnv<'tcx>, ty: Ty<'tcx>) -> Option<u64> {
        self.tcx.layout_of(env.as_query_input(ty)).ok().map(|l| l.size.bytes())
    }

    fn constvalue_json(&mut self, cv: ConstValue, ty: Ty<'tcx>, env: TypingEnv<'tcx>) -> J {
        let mut o = J::obj();
        o.put("ty", self.ty_id(ty));
        match cv {
            ConstValue::Scalar(Scalar::Int(i)) => {
                o.put("k", jstr("val"));
                o.put("v", J::I(i.to_bits_unchecked() as i128));
                o.put("size", J::I(i.size().bytes() as i128));
            }
            ConstValue::Scalar(Scalar::Ptr(ptr, _)) => {
                let (prov, off) = ptr.into_raw_parts();
                let alloc_id = prov.alloc_id();
                match self.tcx.try_get_global_alloc(alloc_id) {
                    Some(GlobalAlloc::Static(def)) => {
                        o.put("k", jstr("static_ref"));
                        o.put("path", jstr(self.path(def)));
                        o.put("krate", jstr(self.krate(def)));
                    }
                    Some(GlobalAlloc::Function { instance }) => {
                        o.put("k", jstr("fn_ptr"));
                        o.put("path", jstr(self.path(instance.def_id())));
                    }
                    Some(GlobalAlloc::Memory(a)) => {
                        o.put("k", jstr("mem_ref"));
                        let total = a.inner().len() as u64;
                        let off = off.bytes();
                        // pointee size when known
                        let len = match ty.builtin_deref(true) {
                            Some(inner) => self.layout_size(env, inner).unwrap_or(total - off),
                            None => total - off,
                        };
                        if let Some(b) = self.alloc_bytes(alloc_id, off, len.min(total - off)) {
                            if b.len() <= 4096 {
                                o.put("bytes", jstr(hex(&b)));
                            } else {
                                o.put("bytes_len", J::I(b.len() as i128));
                            }
                        }
                    }
                    _ => {
                        o.put("k", jstr("ptr_other"));
                    }
                }
            }
            ConstValue::ZeroSized => {
                if let ty::FnDef(def, args) = *ty.kind() {
                    o.put("k", jstr("fn"));
                    o.put("path", jstr(self.path(def)));
                    o.put("krate", jstr(self.krate(def)));
                    let a = self.gargs_json(args);
                    o.put("args", a);
                } else {
                    o.put("k", jstr("zst"));
                }
            }
            ConstValue::Slice { alloc_id, meta } => {
                o.put("k", jstr("slice"));
                o.put("meta", J::I(meta as i128));
                let elem_size = match ty.builtin_deref(true) {
                    Some(inner) => match *inner.kind() {
                        ty::Str => 1,
                        ty::Slice(e) => self.layout_size(env, e).unwrap_or(1),
                        _ => 1,
                    },
                    None => 1,
                };
                if let Some(b) = self.alloc_bytes(alloc_id, 0, meta * elem_size) {
                    if b.len() <= 4096 {
                        o.put("bytes", jstr(hex(&b)));
                    }
                }
            }
            ConstValue::Indirect { alloc_id, offset } => {
                o.put("k", jstr("indirect"));
                if let Some(sz) = self.layout_size(env, ty) {
                    if let Some(b) = self.alloc_bytes(alloc_id, offset.bytes(), sz) {
                        if b.len() <= (1 << 20) {
                            o.put("bytes", jstr(hex(&b)));
                        } else {
                            o.put("bytes_len", J::I(b.len() as i128));
                        }
                    }
                }
            }
        }
        o
    }

    fn mirconst_json(&mut self, c: &MirConst<'tcx>, env: TypingEnv<'tcx>, span: Span) -> J {
        match *c {
            MirConst::Ty(ty, ct) => {
                let mut o = self.tyconst_json(ct);
                o.put("ty", self.ty_id(ty));
                o
            }
            MirConst::Unevaluated(uv, ty) => {
                let mut o = J::obj();
                o.put("k", jstr("uneval"));
                o.put("path", jstr(self.path(uv.def)));
                let a = self.gargs_json(uv.args);
                o.put("args", a);
                if let Some(p) = uv.promoted {
                    o.put("promoted", J::I(p.as_usize() as i128));
                }
                o.put("ty", self.ty_id(ty));
                // evaluate when no generic parameters are involved
                let has_param = uv.args.iter().any(|a| match a.kind() {
                    GenericArgKind::Type(t) => ty::TypeVisitableExt::has_param(&t),
                    GenericArgKind::Const(c) => ty::TypeVisitableExt::has_param(&c),
                    GenericArgKind::Lifetime(_) => false,
                });
                if !has_param && uv.promoted.is_none() {
                    if let Ok(v) = c.eval(self.tcx, env, span) {
                        let vj = self.constvalue_json(v, ty, env);
                        o.put("value", vj);
                    }
                }
                o
            }
            MirConst::Val(cv, ty) => self.constvalue_json(cv, ty, env),
        }
    }

    // ------------------------------------------------------------------ MIR

    fn place_json(&mut self, p: &Place<'tcx>) -> J {
        let mut o = J::obj();
        o.put("l", J::I(p.local.as_usize() as i128));
        if !p.projection.is_empty() {
            let mut v = Vec::new();
            for e in p.projection.iter() {
                v.push(match e {
                    ProjectionElem::Deref => jstr("*"),
                    ProjectionElem::Field(f, t) => {
                        let t = self.ty_id(t);
                        J::obj().with("f", J::I(f.as_usize() as i128)).with("ty", t)
                    }
                    ProjectionElem::Index(l) => J::obj().with("idx", J::I(l.as_usize() as i128)),
                    ProjectionElem::ConstantIndex { offset, min_length, from_end } => J::obj()
                        .with("cidx", J::I(offset as i128))
                        .with("min", J::I(min_length as i128))
                        .with("from_end", J::B(from_end)),
                    ProjectionElem::Subslice { from, to, from_end } => J::obj()
                        .with("sub_from", J::I(from as i128))
                        .with("sub_to", J::I(to as i128))
                        .with("from_end", J::B(from_end)),
                    ProjectionElem::Downcast(name, idx) => J::obj()
                        .with("variant", J::I(idx.as_usize() as i128))
                        .with("vname", J::opt(name.map(|n| jstr(n.to_string())))),
                    ProjectionElem::OpaqueCast(_) => jstr("opaque"),
                    ProjectionElem::UnwrapUnsafeBinder(_) => jstr("unwrap_binder"),
                });
            }
            o.put("p", J::A(v));
        }
        o
    }

    fn operand_json(&mut self, op: &Operand<'tcx>, env: TypingEnv<'tcx>) -> J {
        match op {
            Operand::Copy(p) => J::obj().with("copy", self.place_json(p)),
            Operand::Move(p) => J::obj().with("move", self.place_json(p)),
            Operand::Constant(c) => {
                let cj = self.mirconst_json(&c.const_, env, c.span);
                J::obj().with("const", cj)
            }
            Operand::RuntimeChecks(rc) => J::obj().with("rtcheck", jstr(format!("{:?}", rc))),
        }
    }

    fn adt_variant_name(&self, def: DefId, idx: rustc_abi::VariantIdx) -> String {
        let adt = self.tcx.adt_def(def);
        adt.variant(idx).name.to_string()
    }

    fn rvalue_json(&mut self, rv: &Rvalue<'tcx>, env: TypingEnv<'tcx>, body: &Body<'tcx>) -> J {
        let mut o = J::obj();
        match rv {
            Rvalue::Use(op, _) => {
                o.put("rv", jstr("use"));
                o.put("op", self.operand_json(op, env));
            }
            Rvalue::Repeat(op, n) => {
                o.put("rv", jstr("repeat"));
                o.put("op", self.operand_json(op, env));
                let n = self.tyconst_json(*n);
                o.put("n", n);
            }
            Rvalue::Ref(_, bk, p) => {
                o.put("rv", jstr("ref"));
                o.put(
                    "bk",
                    jstr(match bk {
                        BorrowKind::Shared => "shared",
                        BorrowKind::Fake(_) => "fake",
                        BorrowKind::Mut { .. } => "mut",
                    }),
                );
                o.put("place", self.place_json(p));
            }
            Rvalue::ThreadLocalRef(d) => {
                o.put("rv", jstr("tls"));
                o.put("path", jstr(self.path(*d)));
            }
            Rvalue::RawPtr(k, p) => {
                o.put("rv", jstr("rawptr"));
                o.put("mut", J::B(matches!(k, mir::RawPtrKind::Mut)));
                o.put("place", self.place_json(p));
            }
            Rvalue::Cast(k, op, ty) => {
                o.put("rv", jstr("cast"));
                o.put("kind", jstr(format!("{:?}", k)));
                o.put("op", self.operand_json(op, env));
                o.put("ty", self.ty_id(*ty));
            }
            Rvalue::BinaryOp(b, ops) => {
                o.put("rv", jstr("bin"));
                o.put("op", jstr(format!("{:?}", b)));
                o.put("a", self.operand_json(&ops.0, env));
                o.put("b", self.operand_json(&ops.1, env));
            }
            Rvalue::UnaryOp(u, op) => {
                o.put("rv", jstr("un"));
                o.put("op", jstr(format!("{:?}", u)));
                o.put("a", self.operand_json(op, env));
            }
            Rvalue::Discriminant(p) => {
                o.put("rv", jstr("discr"));
                o.put("place", self.place_json(p));
                let pty = p.ty(&body.local_decls, self.tcx).ty;
                if let ty::Adt(adt, _) = *pty.kind() {
                    if adt.is_enum() {
                        o.put("enum", jstr(self.path(adt.did())));
                        o.put("enum_krate", jstr(self.krate(adt.did())));
                        let mut vs = J::obj();
                        for (i, v) in adt.variants().iter_enumerated() {
                            let d = adt.discriminant_for_variant(self.tcx, i).val;
                            vs.put(format!("{}", d), jstr(v.name.to_string()));
                        }
                        o.put("variants", vs);
                    }
                }
            }
            Rvalue::Aggregate(kind, ops) => {
                o.put("rv", jstr("agg"));
                match **kind {
                    AggregateKind::Array(t) => {
                        o.put("agg", jstr("array"));
                        o.put("elem", self.ty_id(t));
                    }
                    AggregateKind::Tuple => {
                        o.put("agg", jstr("tuple"));
                    }
                    AggregateKind::Adt(def, vidx, args, _, _) => {
                        o.put("agg", jstr("adt"));
                        o.put("path", jstr(self.path(def)));
                        o.put("krate", jstr(self.krate(def)));
                        o.put("variant", J::I(vidx.as_usize() as i128));
                        o.put("vname", jstr(self.adt_variant_name(def, vidx)));
                        let a = self.gargs_json(args);
                        o.put("args", a);
                    }
                    AggregateKind::Closure(def, args) => {
                        o.put("agg", jstr("closure"));
                        o.put("path", jstr(self.path(def)));
                        let _ = args;
                    }
                    AggregateKind::RawPtr(t, m) => {
                        o.put("agg", jstr("rawptr"));
                        o.put("to", self.ty_id(t));
                        o.put("mut", J::B(m.is_mut()));
                    }
                    _ => {
                        o.put("agg", jstr("other"));
                    }
                }
                let mut v = Vec::new();
                for op in ops.iter() {
                    v.push(self.operand_json(op, env));
                }
                o.put("ops", J::A(v));
            }
            Rvalue::CopyForDeref(p) => {
                o.put("rv", jstr("copy_for_deref"));
                o.put("place", self.place_json(p));
            }
            Rvalue::WrapUnsafeBinder(op, _) => {
                o.put("rv", jstr("wrap_binder"));
                o.put("op", self.operand_json(op, env));
            }
        }
        o
    }

    fn instance_json(&mut self, inst: Instance<'tcx>) -> J {
        let mut o = J::obj();
        let def = inst.def_id();
        o.put("path", jstr(self.path(def)));
        o.put("krate", jstr(self.krate(def)));
        o.put("local", J::B(def.is_local()));
        let kind = match inst.def {
            InstanceKind::Item(_) => "item",
            InstanceKind::Intrinsic(_) => "intrinsic",
            InstanceKind::Virtual(..) => "virtual",
            InstanceKind::ClosureOnceShim { .. } => "closure_once_shim",
            InstanceKind::FnPtrShim(..) => "fn_ptr_shim",
            InstanceKind::ReifyShim(..) => "reify_shim",
            InstanceKind::DropGlue(..) => "drop_glue",
            InstanceKind::CloneShim(..) => "clone_shim",
            InstanceKind::VTableShim(..) => "vtable_shim",
            _ => "other",
        };
        o.put("kind", jstr(kind));
        let a = self.gargs_json(inst.args);
        o.put("args", a);
        if let Some(imp) = self.tcx.impl_of_assoc(def) {
            o.put("impl", jstr(self.path(imp)));
            let st = self.tcx.type_of(imp).instantiate(self.tcx, inst.args).skip_norm_wip();
            let st = self.norm_in(imp, st);
            o.put("impl_self", self.ty_id(st));
        }
        o
    }

    fn callee_json(
        &mut self,
        func: &Operand<'tcx>,
        env: TypingEnv<'tcx>,
        body: &Body<'tcx>,
    ) -> J {
        let fty = func.ty(&body.local_decls, self.tcx);
        let mut o = J::obj();
        match *fty.kind() {
            ty::FnDef(def, args) => {
                o.put("path", jstr(self.path(def)));
                o.put("krate", jstr(self.krate(def)));
                o.put("name", jstr(self.tcx.item_name(def).to_string()));
                let a = self.gargs_json(args);
                o.put("args", a);
                if let Some(tr) = self.tcx.trait_of_assoc(def) {
                    o.put("trait", jstr(self.path(tr)));
                    o.put("trait_krate", jstr(self.krate(tr)));
                    if args.len() > 0 {
                        if let Some(t) = args[0].as_type() {
                            o.put("self_ty", self.ty_id(t));
                        }
                    }
                }
                if let Some(imp) = self.tcx.impl_of_assoc(def) {
                    o.put("impl", jstr(self.path(imp)));
                    let st = self.tcx.type_of(imp).instantiate(self.tcx, args).skip_norm_wip();
                    let st = self.norm_in(imp, st);
                    o.put("impl_self", self.ty_id(st));
                }
                let sig = self.tcx.fn_sig(def).skip_binder();
                o.put("unsafe", J::B(sig.safety().is_unsafe()));
                if self.tcx.intrinsic(def).is_some() {
                    o.put("intrinsic", J::B(true));
                }
                if matches!(self.tcx.def_kind(def), DefKind::Fn | DefKind::AssocFn) {
                    let attrs = self.tcx.codegen_fn_attrs(def);
                    if !attrs.target_features.is_empty() {
                        let mut tf = Vec::new();
                        for f in attrs.target_features.iter() {
                            tf.push(jstr(f.name.to_string()));
                        }
                        o.put("target_features", J::A(tf));
                    }
                }
                match Instance::try_resolve(self.tcx, env, def, args) {
                    Ok(Some(inst)) => {
                        let ij = self.instance_json(inst);
                        o.put("resolved", ij);
                    }
                    _ => {
                        o.put("resolved", J::Null);
                    }
                }
            }
            _ => {
                o.put("indirect", self.operand_json(func, env));
                o.put("fty", self.ty_id(fty));
            }
        }
        o
    }

    fn bb(b: BasicBlock) -> J {
        J::I(b.as_usize() as i128)
    }

    fn body_json(&mut self, body: &Body<'tcx>, env: TypingEnv<'tcx>) -> J {
        let mut o = J::obj();
        o.put("arg_count", J::I(body.arg_count as i128));
        // locals
        let mut locals = Vec::new();
        for (_, d) in body.local_decls.iter_enumerated() {
            let t = self.ty_id(d.ty);
            locals.push(
                J::obj()
                    .with("ty", t)
                    .with("mut", J::B(d.mutability.is_mut())),
            );
        }
        o.put("locals", J::A(locals));
        // debug names
        let mut names = Vec::new();
        for vdi in body.var_debug_info.iter() {
            if let mir::VarDebugInfoContents::Place(p) = &vdi.value {
                names.push(
                    J::obj()
                        .with("name", jstr(vdi.name.to_string()))
                        .with("place", self.place_json(p))
                        .with("arg", J::opt(vdi.argument_index.map(|i| J::I(i as i128)))),
                );
            }
        }
        o.put("names", J::A(names));
        // blocks
        let mut blocks = Vec::new();
        for (_, data) in body.basic_blocks.iter_enumerated() {
            let mut b = J::obj();
            if data.is_cleanup {
                b.put("cleanup", J::B(true));
            }
            let mut stmts = Vec::new();
            for st in data.statements.iter() {
                match &st.kind {
                    StatementKind::Assign(bx) => {
                        let (p, rv) = &**bx;
                        let mut s = self.rvalue_json(rv, env, body);
                        s.put("dst", self.place_json(p));
                        s.put("loc", self.loc(st.source_info.span));
                        stmts.push(s);
                    }
                    StatementKind::SetDiscriminant { place, variant_index } => {
                        stmts.push(
                            J::obj()
                                .with("rv", jstr("set_discr"))
                                .with("dst", self.place_json(place))
                                .with("variant", J::I(variant_index.as_usize() as i128)),
                        );
                    }
                    StatementKind::Intrinsic(i) => {
                        let mut s = J::obj().with("rv", jstr("nd_intrinsic"));
                        match &**i {
                            mir::NonDivergingIntrinsic::Assume(op) => {
                                s.put("what", jstr("assume"));
                                s.put("op", self.operand_json(op, env));
                            }
                            mir::NonDivergingIntrinsic::CopyNonOverlapping(_) => {
                                s.put("what", jstr("copy_nonoverlapping"));
                            }
                        }
                        s.put("loc", self.loc(st.source_info.span));
                        stmts.push(s);
                    }
                    _ => {}
                }
            }
            b.put("stmts", J::A(stmts));
            let term = data.terminator();
            let mut t = J::obj();
            t.put("loc", self.loc(term.source_info.span));
            match &term.kind {
                TerminatorKind::Goto { target } => {
                    t.put("t", jstr("goto"));
                    t.put("target", Self::bb(*target));
                }
                TerminatorKind::SwitchInt { discr, targets } => {
                    t.put("t", jstr("switch"));
                    t.put("discr", self.operand_json(discr, env));
                    let dty = discr.ty(&body.local_decls, self.tcx);
                    t.put("discr_ty", self.ty_id(dty));
                    let mut v = Vec::new();
                    for (val, tgt) in targets.iter() {
                        v.push(J::A(vec![J::I(val as i128), Self::bb(tgt)]));
                    }
                    t.put("targets", J::A(v));
                    t.put("otherwise", Self::bb(targets.otherwise()));
                }
                TerminatorKind::UnwindResume => {
                    t.put("t", jstr("resume"));
                }
                TerminatorKind::UnwindTerminate(_) => {
                    t.put("t", jstr("terminate"));
                }
                TerminatorKind::Return => {
                    t.put("t", jstr("return"));
                }
                TerminatorKind::Unreachable => {
                    t.put("t", jstr("unreachable"));
                }
                TerminatorKind::Drop { place, target, .. } => {
                    t.put("t", jstr("drop"));
                    t.put("place", self.place_json(place));
                    t.put("target", Self::bb(*target));
                }
                TerminatorKind::Call { func, args, destination, target, fn_span, .. } => {
                    t.put("t", jstr("call"));
                    t.put("callee", self.callee_json(func, env, body));
                    let mut v = Vec::new();
                    for a in args.iter() {
                        v.push(self.operand_json(&a.node, env));
                    }
                    t.put("args", J::A(v));
                    t.put("dst", self.place_json(destination));
                    t.put("target", J::opt(target.map(Self::bb)));
                    t.put("fn_loc", self.loc(*fn_span));
                }
                TerminatorKind::TailCall { func, args, .. } => {
                    t.put("t", jstr("tailcall"));
                    t.put("callee", self.callee_json(func, env, body));
                    let mut v = Vec::new();
                    for a in args.iter() {
                        v.push(self.operand_json(&a.node, env));
                    }
                    t.put("args", J::A(v));
                }
                TerminatorKind::Assert { cond, expected, msg, target, .. } => {
                    t.put("t", jstr("assert"));
                    t.put("cond", self.operand_json(cond, env));
                    t.put("expected", J::B(*expected));
                    t.put("target", Self::bb(*target));
                    let mut m = J::obj();
                    match &**msg {
                        mir::AssertKind::BoundsCheck { len, index } => {
                            m.put("kind", jstr("bounds"));
                            m.put("len", self.operand_json(len, env));
                            m.put("index", self.operand_json(index, env));
                        }
                        mir::AssertKind::Overflow(op, a, b) => {
                            m.put("kind", jstr("overflow"));
                            m.put("op", jstr(format!("{:?}", op)));
                            m.put("a", self.operand_json(a, env));
                            m.put("b", self.operand_json(b, env));
                        }
                        mir::AssertKind::OverflowNeg(a) => {
                            m.put("kind", jstr("overflow_neg"));
                            m.put("a", self.operand_json(a, env));
                        }
                        mir::AssertKind::DivisionByZero(a) => {
                            m.put("kind", jstr("div_zero"));
                            m.put("a", self.operand_json(a, env));
                        }
                        mir::AssertKind::RemainderByZero(a) => {
                            m.put("kind", jstr("rem_zero"));
                            m.put("a", self.operand_json(a, env));
                        }
                        mir::AssertKind::MisalignedPointerDereference { .. } => {
                            m.put("kind", jstr("misaligned_ptr"));
                        }
                        mir::AssertKind::NullPointerDereference => {
                            m.put("kind", jstr("null_ptr"));
                        }
                        _ => {
                            m.put("kind", jstr("other"));
                        }
                    }
                    t.put("msg", m);
                }
                TerminatorKind::FalseEdge { real_target, .. } => {
                    t.put("t", jstr("goto"));
                    t.put("target", Self::bb(*real_target));
                }
                TerminatorKind::FalseUnwind { real_target, .. } => {
                    t.put("t", jstr("goto"));
                    t.put("target", Self::bb(*real_target));
                }
                TerminatorKind::InlineAsm { .. } => {
                    t.put("t", jstr("asm"));
                }
                _ => {
                    t.put("t", jstr("other"));
                }
            }
            b.put("term", t);
            blocks.push(b);
        }
        o.put("blocks", J::A(blocks));
        o
    }

    // ------------------------------------------------------------ generics

    fn generics_json(&mut self, def: DefId) -> J {
        let g = self.tcx.generics_of(def);
        let mut v = Vec::new();
        let mut cur = Some(g);
        let mut chain = Vec::new();
        while let Some(gg) = cur {
            chain.push(gg);
            cur = gg.parent.map(|p| self.tcx.generics_of(p));
        }
        chain.reverse();
        // trait bounds on type parameters (own + inherited predicates)
        let mut bounds: HashMap<u32, Vec<String>> = HashMap::new();
        let preds = self.tcx.predicates_of(def).instantiate_identity(self.tcx);
        for (clause, _) in preds {
            let clause = clause.skip_norm_wip();
            if let Some(tp) = clause.as_trait_clause() {
                let tp = tp.skip_binder();
                if let ty::Param(p) = *tp.self_ty().kind() {
                    bounds.entry(p.index).or_default().push(self.path(tp.def_id()));
                }
            }
        }
        for gg in chain {
            for p in gg.own_params.iter() {
                let kind = match p.kind {
                    ty::GenericParamDefKind::Lifetime => "lt",
                    ty::GenericParamDefKind::Type { .. } => "ty",
                    ty::GenericParamDefKind::Const { .. } => "const",
                };
                let mut o = J::obj()
                    .with("n", jstr(p.name.to_string()))
                    .with("index", J::I(p.index as i128))
                    .with("k", jstr(kind));
                if let Some(b) = bounds.get(&p.index) {
                    o.put("bounds", J::A(b.iter().map(|x| jstr(x.clone())).collect()));
                }
                v.push(o);
            }
        }
        J::A(v)
    }

    fn vis_json(&self, def: DefId) -> J {
        match self.tcx.def_kind(def) {
            DefKind::Fn
            | DefKind::AssocFn
            | DefKind::Const { .. }
            | DefKind::AssocConst { .. }
            | DefKind::Static { .. }
            | DefKind::Struct
            | DefKind::Enum
            | DefKind::Trait
            | DefKind::TyAlias
            | DefKind::Mod
            | DefKind::AssocTy => match self.tcx.visibility(def) {
                ty::Visibility::Public => jstr("pub"),
                ty::Visibility::Restricted(d) => jstr(format!("restricted:{}", self.path(d))),
            },
            _ => J::Null,
        }
    }
}

// ---------------------------------------------------------------------------
// Seeds: concrete instantiations of local ADTs reachable from the crate's
// non-generic type aliases (the five hash variants, `Tlsh`, `TlshGenerator`).

struct Seeds<'tcx> {
    list: Vec<Ty<'tcx>>,
}

fn is_concrete_no_alias_check<'tcx>(ty: Ty<'tcx>) -> bool {
    !ty::TypeVisitableExt::has_param(&ty) && !ty::TypeVisitableExt::has_infer(&ty)
}

fn is_concrete<'tcx>(ty: Ty<'tcx>) -> bool {
    !ty::TypeVisitableExt::has_param(&ty)
        && !ty::TypeVisitableExt::has_aliases(&ty)
        && !ty::TypeVisitableExt::has_infer(&ty)
}

fn walk_seed<'tcx>(tcx: TyCtxt<'tcx>, seeds: &mut Seeds<'tcx>, ty: Ty<'tcx>, depth: usize) {
    if depth > 12 {
        return;
    }
    let env = TypingEnv::fully_monomorphized();
    let ty = match tcx.try_normalize_erasing_regions(env, rustc_middle::ty::Unnormalized::new_wip(ty)) {
        Ok(t) => t,
        Err(_) => return,
    };
    match *ty.kind() {
        ty::Adt(def, args) => {
            if !is_concrete(ty) {
                return;
            }
            if def.did().is_local() {
                if seeds.list.contains(&ty) {
                    return;
                }
                seeds.list.push(ty);
                for v in def.variants().iter() {
                    for f in v.fields.iter() {
                        let fty = f.ty(tcx, args);
                        walk_seed(tcx, seeds, fty, depth + 1);
                    }
                }
            }
        }
        ty::Array(e, _) | ty::Slice(e) => walk_seed(tcx, seeds, e, depth + 1),
        ty::Ref(_, t, _) | ty::RawPtr(t, _) => walk_seed(tcx, seeds, t, depth + 1),
        ty::Tuple(ts) => {
            for t in ts.iter() {
                walk_seed(tcx, seeds, t, depth + 1);
            }
        }
        _ => {}
    }
}

fn predicates_hold<'tcx>(tcx: TyCtxt<'tcx>, def: DefId, args: GenericArgsRef<'tcx>) -> bool {
    use rustc_infer::infer::TyCtxtInferExt;
    use rustc_infer::traits::{Obligation, ObligationCause};
    use rustc_trait_selection::traits::query::evaluate_obligation::InferCtxtExt;
    let preds = tcx.predicates_of(def).instantiate(tcx, args);
    let infcx = tcx.infer_ctxt().build(ty::TypingMode::PostAnalysis);
    for (clause, _) in preds {
        let clause = clause.skip_norm_wip();
        let ob = Obligation::new(tcx, ObligationCause::dummy(), ty::ParamEnv::empty(), clause);
        if !infcx.predicate_must_hold_modulo_regions(&ob) {
            return false;
        }
    }
    true
}

fn collect_seeds<'tcx>(tcx: TyCtxt<'tcx>) -> Seeds<'tcx> {
    let mut seeds = Seeds { list: Vec::new() };
    let mut alias_tys = Vec::new();
    for id in tcx.hir_crate_items(()).definitions() {
        let def = id.to_def_id();
        if tcx.def_kind(def) == DefKind::TyAlias && tcx.generics_of(def).count() == 0 {
            let ty = tcx.type_of(def).instantiate_identity().skip_norm_wip();
            alias_tys.push(ty);
            walk_seed(tcx, &mut seeds, ty, 0);
        }
    }
    // generic local ADTs with exactly one type parameter: try every alias type
    let alias_seeds: Vec<Ty<'tcx>> = seeds.list.clone();
    for id in tcx.hir_crate_items(()).definitions() {
        let def = id.to_def_id();
        if !matches!(tcx.def_kind(def), DefKind::Struct | DefKind::Enum) {
            continue;
        }
        let g = tcx.generics_of(def);
        if g.count() != 1 || g.own_params.len() != 1 {
            continue;
        }
        if !matches!(g.own_params[0].kind, ty::GenericParamDefKind::Type { .. }) {
            continue;
        }
        for s in alias_seeds.iter() {
            let args = tcx.mk_args(&[GenericArg::from(*s)]);
            if predicates_hold(tcx, def, args) {
                let adt = tcx.adt_def(def);
                let ty = Ty::new_adt(tcx, adt, args);
                walk_seed(tcx, &mut seeds, ty, 0);
            }
        }
    }
    seeds
}

// Self type of an impl with anonymous constants (`Foo<{ SOME_CONST }>`) evaluated.
fn norm_self_ty<'tcx>(tcx: TyCtxt<'tcx>, impl_def: DefId) -> Ty<'tcx> {
    let self_ty = tcx.type_of(impl_def).instantiate_identity().skip_norm_wip();
    let env = TypingEnv::post_analysis(tcx, impl_def);
    tcx.try_normalize_erasing_regions(env, rustc_middle::ty::Unnormalized::new_wip(self_ty))
        .unwrap_or(self_ty)
}

// Structural match of an impl's self type against a concrete seed type; returns the
// impl's generic arguments if every impl parameter gets bound.
fn match_impl<'tcx>(
    tcx: TyCtxt<'tcx>,
    impl_def: DefId,
    seed: Ty<'tcx>,
) -> Option<GenericArgsRef<'tcx>> {
    let g = tcx.generics_of(impl_def);
    if g.parent.is_some() {
        return None;
    }
    let self_ty = norm_self_ty(tcx, impl_def);
    let (ty::Adt(idef, iargs), ty::Adt(sdef, sargs)) = (self_ty.kind(), seed.kind()) else {
        return None;
    };
    if idef.did() != sdef.did() || iargs.len() != sargs.len() {
        return None;
    }
    let n = g.count();
    let mut bound: Vec<Option<GenericArg<'tcx>>> = vec![None; n];
    for (ia, sa) in iargs.iter().zip(sargs.iter()) {
        match (ia.kind(), sa.kind()) {
            (GenericArgKind::Lifetime(_), _) => {}
            (GenericArgKind::Type(it), GenericArgKind::Type(_)) => match *it.kind() {
                ty::Param(p) => {
                    let slot = &mut bound[p.index as usize];
                    if let Some(prev) = slot {
                        if *prev != sa {
                            return None;
                        }
                    }
                    *slot = Some(sa);
                }
                _ => {
                    if ia != sa {
                        return None;
                    }
                }
            },
            (GenericArgKind::Const(ic), GenericArgKind::Const(_)) => match ic.kind() {
                ty::ConstKind::Param(p) => {
                    let slot = &mut bound[p.index as usize];
                    if let Some(prev) = slot {
                        if *prev != sa {
                            return None;
                        }
                    }
                    *slot = Some(sa);
                }
                _ => {
                    if ia != sa {
                        return None;
                    }
                }
            },
            _ => return None,
        }
    }
    // lifetimes: erase
    let mut out = Vec::with_capacity(n);
    for (i, p) in g.own_params.iter().enumerate() {
        match p.kind {
            ty::GenericParamDefKind::Lifetime => {
                out.push(GenericArg::from(tcx.lifetimes.re_erased));
            }
            _ => match bound[i] {
                Some(a) => out.push(a),
                None => return None,
            },
        }
    }
    let args = tcx.mk_args(&out);
    if !predicates_hold(tcx, impl_def, args) {
        return None;
    }
    Some(args)
}

// ---------------------------------------------------------------------------

fn eval_const_item<'tcx>(cx: &mut Cx<'tcx>, def: DefId, args: GenericArgsRef<'tcx>) -> J {
    let tcx = cx.tcx;
    let env = TypingEnv::fully_monomorphized();
    let uv = mir::UnevaluatedConst { def, args, promoted: None };
    let span = tcx.def_span(def);
    match tcx.const_eval_resolve(env, uv, span) {
        Ok(v) => {
            let ty = tcx.type_of(def).instantiate(tcx, args).skip_norm_wip();
            let ty = tcx
                .try_normalize_erasing_regions(env, rustc_middle::ty::Unnormalized::new_wip(ty))
                .unwrap_or(ty);
            cx.constvalue_json(v, ty, env)
        }
        Err(_) => J::Null,
    }
}

pub fn collect<'tcx>(tcx: TyCtxt<'tcx>, argv: &[String]) -> J {
    let mut cx = Cx { tcx, ty_ids: HashMap::new(), ty_tab: Vec::new() };
    let mut root = J::obj();
    root.put("crate", jstr(tcx.crate_name(LOCAL_CRATE).to_string()));
    // cfg / features as given on the command line
    let mut cfgs = Vec::new();
    let mut i = 0;
    while i < argv.len() {
        if argv[i] == "--cfg" && i + 1 < argv.len() {
            cfgs.push(jstr(argv[i + 1].clone()));
            i += 1;
        }
        i += 1;
    }
    root.put("cfg", J::A(cfgs));
    let mut tfs: Vec<String> =
        tcx.sess.unstable_target_features.iter().map(|s| s.to_string()).collect();
    tfs.sort();
    root.put("target_features", J::A(tfs.into_iter().map(jstr).collect()));
    root.put(
        "debug_assertions",
        J::B(tcx.sess.opts.debug_assertions),
    );

    let seeds = collect_seeds(tcx);

    // ------------------------------------------------------------- items
    let mut items = Vec::new();
    let mut impls = Vec::new();
    let mut adts = Vec::new();
    let mut traits = Vec::new();
    let mut consts = Vec::new();
    let defs: Vec<LocalDefId> = tcx.hir_crate_items(()).definitions().collect();
    for id in defs.iter() {
        let def = id.to_def_id();
        let kind = tcx.def_kind(def);
        let mut it = J::obj();
        it.put("path", jstr(cx.path(def)));
        it.put("kind", jstr(format!("{:?}", kind)));
        it.put("vis", cx.vis_json(def));
        it.put("loc", cx.loc(tcx.def_span(def)));
        match kind {
            DefKind::Impl { of_trait } => {
                let mut im = J::obj();
                im.put("path", jstr(cx.path(def)));
                im.put("loc", cx.loc(tcx.def_span(def)));
                im.put("generics", cx.generics_json(def));
                let self_ty = norm_self_ty(tcx, def);
                im.put("self_ty", cx.ty_id(self_ty));
                im.put("derived", J::B(tcx.is_automatically_derived(def)));
                im.put("builtin_derived", J::B(tcx.is_builtin_derived(def)));
                if of_trait {
                    let tr = tcx.impl_trait_ref(def).instantiate_identity().skip_norm_wip();
                    im.put("trait", jstr(cx.path(tr.def_id)));
                    im.put("trait_krate", jstr(cx.krate(tr.def_id)));
                    let a = cx.gargs_json(tr.args);
                    im.put("trait_args", a);
                }
                let mut ais = Vec::new();
                for ai in tcx.associated_items(def).in_definition_order() {
                    let mut a = J::obj();
                    a.put("name", J::opt(ai.opt_name().map(|n| jstr(n.to_string()))));
                    a.put("kind", jstr(match ai.kind {
                        ty::AssocKind::Const { .. } => "const",
                        ty::AssocKind::Fn { .. } => "fn",
                        ty::AssocKind::Type { .. } => "type",
                    }));
                    a.put("path", jstr(cx.path(ai.def_id)));
                    if let Some(t) = ai.trait_item_def_id() {
                        a.put("trait_item", jstr(cx.path(t)));
                    }
                    if let ty::AssocKind::Type { .. } = ai.kind {
                        let t = tcx.type_of(ai.def_id).instantiate_identity().skip_norm_wip();
                        a.put("ty", cx.ty_id(t));
                    }
                    ais.push(a);
                }
                im.put("items", J::A(ais));
                // instantiations
                let g = tcx.generics_of(def);
                let mut insts = Vec::new();
                let mut cands: Vec<(String, GenericArgsRef<'tcx>)> = Vec::new();
                if g.count() == 0 {
                    if is_concrete(self_ty) {
                        cands.push((cx.ty_str(self_ty), ty::List::empty()));
                    }
                } else {
                    for s in seeds.list.iter() {
                        if let Some(args) = match_impl(tcx, def, *s) {
                            cands.push((cx.ty_str(*s), args));
                        }
                    }
                }
                for (key, args) in cands {
                    let mut ij = J::obj();
                    ij.put("self", jstr(key));
                    let a = cx.gargs_json(args);
                    ij.put("args", a);
                    let mut cs = J::obj();
                    if of_trait {
                        let tr = tcx.impl_trait_ref(def).instantiate(tcx, args).skip_norm_wip();
                        for ti in tcx.associated_items(tr.def_id).in_definition_order() {
                            if let ty::AssocKind::Const { name, .. } = ti.kind {
                                // only trait consts without own generics
                                let v = eval_const_item(&mut cx, ti.def_id, tr.args);
                                cs.put(name.to_string(), v);
                            }
                        }
                    } else {
                        for ai in tcx.associated_items(def).in_definition_order() {
                            if let ty::AssocKind::Const { name, .. } = ai.kind {
                                let v = eval_const_item(&mut cx, ai.def_id, args);
                                cs.put(name.to_string(), v);
                            }
                        }
                    }
                    ij.put("consts", cs);
                    insts.push(ij);
                }
                im.put("insts", J::A(insts));
                impls.push(im);
            }
            DefKind::Struct | DefKind::Enum | DefKind::Union => {
                let adt = tcx.adt_def(def);
                let mut a = J::obj();
                a.put("path", jstr(cx.path(def)));
                a.put("generics", cx.generics_json(def));
                a.put("repr", jstr(format!("{:?}", adt.repr())));
                let mut vs = Vec::new();
                let id_args = ty::GenericArgs::identity_for_item(tcx, def);
                for v in adt.variants().iter() {
                    let mut fs = Vec::new();
                    for f in v.fields.iter() {
                        let fty = f.ty(tcx, id_args);
                        let t = cx.ty_id(fty);
                        fs.push(
                            J::obj()
                                .with("name", jstr(f.name.to_string()))
                                .with("ty", t)
                                .with("vis", match f.vis {
                                    ty::Visibility::Public => jstr("pub"),
                                    ty::Visibility::Restricted(d) => {
                                        jstr(format!("restricted:{}", cx.path(d)))
                                    }
                                }),
                        );
                    }
                    let discr = if adt.is_enum() {
                        J::I(adt.discriminant_for_variant(tcx, adt.variant_index_with_id(v.def_id)).val as i128)
                    } else {
                        J::Null
                    };
                    vs.push(
                        J::obj()
                            .with("name", jstr(v.name.to_string()))
                            .with("discr", discr)
                            .with("fields", J::A(fs)),
                    );
                }
                a.put("variants", J::A(vs));
                adts.push(a);
            }
            DefKind::Trait => {
                let mut t = J::obj();
                t.put("path", jstr(cx.path(def)));
                let mut ais = Vec::new();
                for ai in tcx.associated_items(def).in_definition_order() {
                    let mut a = J::obj();
                    a.put("name", J::opt(ai.opt_name().map(|n| jstr(n.to_string()))));
                    a.put("kind", jstr(match ai.kind {
                        ty::AssocKind::Const { .. } => "const",
                        ty::AssocKind::Fn { .. } => "fn",
                        ty::AssocKind::Type { .. } => "type",
                    }));
                    a.put("path", jstr(cx.path(ai.def_id)));
                    a.put("has_default", J::B(ai.defaultness(tcx).has_value()));
                    ais.push(a);
                }
                t.put("items", J::A(ais));
                traits.push(t);
            }
            DefKind::Const { .. } | DefKind::Static { .. } => {
                if tcx.generics_of(def).count() == 0 {
                    let mut c = J::obj();
                    c.put("path", jstr(cx.path(def)));
                    c.put("kind", jstr(format!("{:?}", kind)));
                    let env = TypingEnv::fully_monomorphized();
                    let ty = tcx.type_of(def).instantiate_identity().skip_norm_wip();
                    c.put("ty", cx.ty_id(ty));
                    if let DefKind::Static { .. } = kind {
                        if let Ok(alloc) = tcx.eval_static_initializer(def) {
                            let a = alloc.inner();
                            let has_ptrs = !a.provenance().ptrs().is_empty();
                            c.put("has_ptrs", J::B(has_ptrs));
                            let bytes = a.inspect_with_uninit_and_ptr_outside_interpreter(0..a.len());
                            if bytes.len() <= (1 << 20) {
                                c.put("value", J::obj().with("k", jstr("indirect")).with("bytes", jstr(hex(bytes))));
                            }
                        }
                    } else if let Ok(v) = tcx.const_eval_poly(def) {
                        let vj = cx.constvalue_json(v, ty, env);
                        c.put("value", vj);
                    }
                    consts.push(c);
                }
            }
            DefKind::TyAlias => {
                if tcx.generics_of(def).count() == 0 {
                    let ty = tcx.type_of(def).instantiate_identity().skip_norm_wip();
                    let env = TypingEnv::fully_monomorphized();
                    let nty = tcx
                        .try_normalize_erasing_regions(env, rustc_middle::ty::Unnormalized::new_wip(ty))
                        .unwrap_or(ty);
                    it.put("alias_of", cx.ty_id(nty));
                }
            }
            _ => {}
        }
        items.push(it);
    }
    root.put("items", J::A(items));
    root.put("impls", J::A(impls));
    root.put("adts", J::A(adts));
    root.put("traits", J::A(traits));
    root.put("consts", J::A(consts));

    // ------------------------------------------------------------- seeds
    let mut sj = Vec::new();
    for s in seeds.list.iter() {
        let env = TypingEnv::fully_monomorphized();
        let mut o = J::obj();
        o.put("s", jstr(cx.ty_str(*s)));
        o.put("ty", cx.ty_id(*s));
        o.put("freeze", J::B(s.is_freeze(tcx, env)));
        o.put("copy", J::B(tcx.type_is_copy_modulo_regions(env, *s)));
        o.put("needs_drop", J::B(s.needs_drop(tcx, env)));
        if let Ok(l) = tcx.layout_of(env.as_query_input(*s)) {
            o.put("size", J::I(l.size.bytes() as i128));
            o.put("align", J::I(l.align.abi.bytes() as i128));
        }
        // normalized field types
        if let ty::Adt(def, args) = *s.kind() {
            let mut vs = Vec::new();
            for v in def.variants().iter() {
                let mut fs = Vec::new();
                for f in v.fields.iter() {
                    let fty = f.ty(tcx, args);
                    let fty = tcx
                        .try_normalize_erasing_regions(env, rustc_middle::ty::Unnormalized::new_wip(fty))
                        .unwrap_or(fty);
                    let t = cx.ty_id(fty);
                    fs.push(J::obj().with("name", jstr(f.name.to_string())).with("ty", t));
                }
                vs.push(J::obj().with("name", jstr(v.name.to_string())).with("fields", J::A(fs)));
            }
            o.put("variants", J::A(vs));
        }
        sj.push(o);
    }
    root.put("seeds", J::A(sj));

    // ------------------------------------------------------------- bodies
    let mut bodies = Vec::new();
    let owners: Vec<LocalDefId> = tcx.hir_body_owners().collect();
    for id in owners {
        let def = id.to_def_id();
        let kind = tcx.def_kind(def);
        let mut b = J::obj();
        b.put("path", jstr(cx.path(def)));
        b.put("kind", jstr(format!("{:?}", kind)));
        b.put("loc", cx.loc(tcx.def_span(def)));
        b.put("vis", cx.vis_json(def));
        b.put("generics", cx.generics_json(def));
        let is_fn_like = matches!(kind, DefKind::Fn | DefKind::AssocFn | DefKind::Closure);
        if matches!(kind, DefKind::Fn | DefKind::AssocFn) {
            let sig = tcx.fn_sig(def).instantiate_identity().skip_norm_wip().skip_binder();
            b.put("unsafe", J::B(sig.safety().is_unsafe()));
            let mut ins = Vec::new();
            for t in sig.inputs().iter() {
                ins.push(cx.ty_id(*t));
            }
            b.put("inputs", J::A(ins));
            b.put("output", cx.ty_id(sig.output()));
            b.put("const_fn", J::B(tcx.is_const_fn(def)));
            // reachable from outside the crate (directly, through re-exports, or as a method of a reachable type/trait)
            b.put("reachable", J::B(tcx.effective_visibilities(()).is_reachable(id)));
            b.put("name", jstr(tcx.item_name(def).to_string()));
            if let Some(imp) = tcx.impl_of_assoc(def) {
                b.put("impl", jstr(cx.path(imp)));
                if let Some(ti) = tcx.trait_item_of(def) {
                    b.put("trait_item", jstr(cx.path(ti)));
                }
            }
            if let Some(tr) = tcx.trait_of_assoc(def) {
                b.put("in_trait", jstr(cx.path(tr)));
            }
        }
        if is_fn_like {
            let attrs = tcx.codegen_fn_attrs(def);
            let mut tf = Vec::new();
            for f in attrs.target_features.iter() {
                tf.push(
                    J::obj()
                        .with("name", jstr(f.name.to_string()))
                        .with("kind", jstr(format!("{:?}", f.kind))),
                );
            }
            b.put("target_features", J::A(tf));
            b.put("inline", jstr(format!("{:?}", attrs.inline)));
        }
        if kind == DefKind::Closure {
            b.put("parent", jstr(cx.path(tcx.parent(def))));
            let cty = tcx.type_of(def).instantiate_identity().skip_norm_wip();
            b.put("closure_ty", cx.ty_id(cty));
            if let ty::Closure(_, args) = *cty.kind() {
                let mut v = Vec::new();
                for t in args.as_closure().upvar_tys().iter() {
                    v.push(cx.ty_id(t));
                }
                b.put("upvars", J::A(v));
                b.put("closure_kind", jstr(format!("{:?}", args.as_closure().kind())));
            }
        }
        let env = TypingEnv::post_analysis(tcx, def);
        let mir_body: Option<&Body<'tcx>> = match kind {
            DefKind::Fn | DefKind::AssocFn | DefKind::Closure => Some(tcx.optimized_mir(def)),
            DefKind::Const { .. }
            | DefKind::AssocConst { .. }
            | DefKind::Static { .. }
            | DefKind::AnonConst
            | DefKind::InlineConst => Some(tcx.mir_for_ctfe(def)),
            _ => None,
        };
        if let Some(body) = mir_body {
            let bj = cx.body_json(body, env);
            b.put("mir", bj);
            // promoted bodies
            if is_fn_like {
                let proms = tcx.promoted_mir(def);
                let mut pv = Vec::new();
                for p in proms.iter() {
                    pv.push(cx.body_json(p, env));
                }
                if !pv.is_empty() {
                    b.put("promoted", J::A(pv));
                }
            }
            // per-instantiation callee resolution
            if matches!(kind, DefKind::Fn | DefKind::AssocFn) {
                let mono = mono_calls(&mut cx, def, body, &seeds);
                b.put("mono", mono);
            }
        }
        bodies.push(b);
    }
    root.put("bodies", J::A(bodies));
    root.put("types", J::A(std::mem::take(&mut cx.ty_tab)));
    root
}

// For a function whose generic parameters can all be bound from a seed (through its
// parent impl, or -- for free functions with one type parameter -- directly), resolve every
// call site under that binding.
fn mono_calls<'tcx>(cx: &mut Cx<'tcx>, def: DefId, body: &Body<'tcx>, seeds: &Seeds<'tcx>) -> J {
    let tcx = cx.tcx;
    let g = tcx.generics_of(def);
    let mut cands: Vec<(String, GenericArgsRef<'tcx>)> = Vec::new();
    if g.count() == 0 {
        return J::A(Vec::new());
    }
    if let Some(imp) = tcx.impl_of_assoc(def) {
        if tcx.generics_of(imp).count() == 0 {
            // only method-level generics: leave them as identity under an empty impl binding
            let args = ty::GenericArgs::identity_for_item(tcx, def);
            let self_ty = norm_self_ty(tcx, imp);
            cands.push((cx.ty_str(self_ty), args));
        } else {
            for s in seeds.list.iter() {
                if let Some(iargs) = match_impl(tcx, imp, *s) {
                    let args = ty::GenericArgs::for_item(tcx, def, |p, _| {
                        if (p.index as usize) < iargs.len() {
                            iargs[p.index as usize]
                        } else {
                            tcx.mk_param_from_def(p)
                        }
                    });
                    cands.push((cx.ty_str(*s), args));
                }
            }
        }
    } else if g.parent.is_none() && g.own_params.len() >= 1 {
        // free function: bind the first type parameter to each seed for which the
        // predicates hold, leave the others generic
        if let ty::GenericParamDefKind::Type { .. } = g.own_params[0].kind {
            for s in seeds.list.iter() {
                let args = ty::GenericArgs::for_item(tcx, def, |p, _| {
                    if p.index == 0 {
                        GenericArg::from(*s)
                    } else {
                        tcx.mk_param_from_def(p)
                    }
                });
                if g.own_params.len() == 1 && predicates_hold(tcx, def, args) {
                    cands.push((cx.ty_str(*s), args));
                }
            }
        }
    }
    let env = TypingEnv::post_analysis(tcx, def);
    let mut out = Vec::new();
    for (key, args) in cands {
        let mut calls = Vec::new();
        for (bbi, data) in body.basic_blocks.iter_enumerated() {
            if let TerminatorKind::Call { func, .. } = &data.terminator().kind {
                let fty = func.ty(&body.local_decls, tcx);
                if let ty::FnDef(cdef, cargs) = *fty.kind() {
                    let cargs2 = ty::EarlyBinder::bind(cargs).instantiate(tcx, args).skip_norm_wip();
                    let poly = Instance::try_resolve(tcx, env, cdef, cargs).ok().flatten();
                    if let Ok(Some(inst)) = Instance::try_resolve(tcx, env, cdef, cargs2) {
                        if let Some(p) = poly {
                            if p.def == inst.def {
                                continue;
                            }
                        }
                        let ij = cx.instance_json(inst);
                        calls.push(J::obj().with("bb", J::I(bbi.as_usize() as i128)).with("resolved", ij));
                    }
                }
            }
        }
        let a = cx.gargs_json(args);
        out.push(J::obj().with("self", jstr(key)).with("args", a).with("calls", J::A(calls)));
    }
    J::A(out)
}
