// tlsh-facts: a rustc_private driver that dumps compiler facts (items, impls, ADTs,
// constant values, MIR with resolved callees, per-instantiation associated constants and
// callee resolutions) of selected crates as one JSON file per crate.
//
// Usage (as RUSTC_WORKSPACE_WRAPPER):  tlsh-facts <rustc> <rustc args...>
//   TLSH_FACTS_OUT_DIR  directory receiving <crate_name>.json
//   TLSH_FACTS_CRATES   comma separated crate names to analyse (default: tlsh)
//
// The driver never decides anything: all rules live in /verif/rules (Python).

#![feature(rustc_private)]
#![allow(clippy::all)]

extern crate rustc_abi;
extern crate rustc_data_structures;
extern crate rustc_driver;
extern crate rustc_hir;
extern crate rustc_index;
extern crate rustc_infer;
extern crate rustc_interface;
extern crate rustc_middle;
extern crate rustc_session;
extern crate rustc_span;
extern crate rustc_target;
extern crate rustc_trait_selection;

mod json;
mod facts;

use rustc_driver::{Callbacks, Compilation};
use rustc_interface::interface;
use rustc_middle::ty::TyCtxt;

struct FactsCallbacks {
    out_path: String,
    argv: Vec<String>,
}

impl Callbacks for FactsCallbacks {
    fn after_analysis<'tcx>(
        &mut self,
        _compiler: &interface::Compiler,
        tcx: TyCtxt<'tcx>,
    ) -> Compilation {
        let j = facts::collect(tcx, &self.argv);
        let mut s = String::with_capacity(1 << 22);
        j.write(&mut s);
        let tmp = format!("{}.tmp.{}", self.out_path, std::process::id());
        std::fs::write(&tmp, s).expect("tlsh-facts: cannot write fact file");
        std::fs::rename(&tmp, &self.out_path).expect("tlsh-facts: cannot rename fact file");
        Compilation::Continue
    }
}

struct Plain;
impl Callbacks for Plain {}

fn main() {
    let mut args: Vec<String> = std::env::args().collect();
    // RUSTC_WORKSPACE_WRAPPER convention: argv[1] is the real rustc; drop it.
    if args.len() > 1 && (args[1].ends_with("rustc") || args[1].contains("/rustc")) {
        args.remove(1);
    }
    let crate_name = args
        .iter()
        .position(|a| a == "--crate-name")
        .and_then(|i| args.get(i + 1))
        .cloned();
    let wanted = std::env::var("TLSH_FACTS_CRATES").unwrap_or_else(|_| "tlsh".to_string());
    let out_dir = std::env::var("TLSH_FACTS_OUT_DIR").ok();
    let is_test_harness = args.iter().any(|a| a == "--test");
    let analyse = match (&crate_name, &out_dir) {
        (Some(n), Some(_)) => wanted.split(',').any(|w| w == n) && !is_test_harness,
        _ => false,
    };
    if analyse {
        let name = crate_name.unwrap();
        let out_path = format!("{}/{}.json", out_dir.unwrap(), name);
        let mut cb = FactsCallbacks { out_path, argv: args.clone() };
        rustc_driver::run_compiler(&args, &mut cb);
    } else {
        rustc_driver::run_compiler(&args, &mut Plain);
    }
}
