// Minimal JSON value + writer (the driver has zero dependencies).

pub enum J {
    Null,
    B(bool),
    I(i128),
    S(String),
    A(Vec<J>),
    O(Vec<(String, J)>),
}

impl J {
    pub fn s<T: Into<String>>(t: T) -> J {
        J::S(t.into())
    }
    pub fn obj() -> J {
        J::O(Vec::new())
    }
    pub fn put<T: Into<String>>(&mut self, k: T, v: J) {
        if let J::O(m) = self {
            m.push((k.into(), v));
        } else {
            panic!("put on non-object");
        }
    }
    pub fn with<T: Into<String>>(mut self, k: T, v: J) -> J {
        self.put(k, v);
        self
    }
    pub fn opt(v: Option<J>) -> J {
        v.unwrap_or(J::Null)
    }

    pub fn write(&self, out: &mut String) {
        match self {
            J::Null => out.push_str("null"),
            J::B(b) => out.push_str(if *b { "true" } else { "false" }),
            J::I(i) => out.push_str(&i.to_string()),
            J::S(s) => write_str(s, out),
            J::A(v) => {
                out.push('[');
                for (i, x) in v.iter().enumerate() {
                    if i > 0 {
                        out.push(',');
                    }
                    x.write(out);
                }
                out.push(']');
            }
            J::O(m) => {
                out.push('{');
                for (i, (k, x)) in m.iter().enumerate() {
                    if i > 0 {
                        out.push(',');
                    }
                    write_str(k, out);
                    out.push(':');
                    x.write(out);
                }
                out.push('}');
            }
        }
    }
}

fn write_str(s: &str, out: &mut String) {
    out.push('"');
    for c in s.chars() {
        match c {
            '"' => out.push_str("\\\""),
            '\\' => out.push_str("\\\\"),
            '\n' => out.push_str("\\n"),
            '\r' => out.push_str("\\r"),
            '\t' => out.push_str("\\t"),
            c if (c as u32) < 0x20 => out.push_str(&format!("\\u{:04x}", c as u32)),
            c => out.push(c),
        }
    }
    out.push('"');
}
