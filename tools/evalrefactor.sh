#!/bin/bash
# usage: evalrefactor.sh [--tier quick|thorough] PATCH...   run every check on a scratch copy with each patch; one line per patch
cd /verif
tier=thorough
if [ "$1" = "--tier" ]; then tier=$2; shift 2; fi
one() {
  p=$1
  out=$(tools/trymut.py --build-check --tier $tier --patch $p C01 C02 C03 C04 C05 C06 C07 C08 C09 C10 C11 C12 C13 C14 C15 C16 C17 C18 2>&1)
  if echo "$out" | grep -q "cargo check --tests: ok" && ! echo "$out" | grep -qE "rc=[12]|PATCH FAILED"; then
    echo "silent  $p"
  else
    echo "ALARM   $p $(echo "$out" | grep -oE "^== C[0-9]+ rc=[12]" | tr '\n' ' ')"
    echo "$out" | grep -E "cargo check: FAILED|PATCH FAILED|key    :" | awk '!s[$0]++' | cut -c1-200 | head -10
  fi
}
export -f one; export tier
printf "%s\n" "$@" | xargs -P 3 -I{} bash -c 'one {}'
