#!/usr/bin/env python3
"""Development aid: apply one textual edit (or a patch file) to a scratch copy of /repo and run checks on it.
usage: trymut.py [--tier T] [--build-check] (--patch FILE | FILE OLD NEW) PROP [PROP...]
The scratch copy and its build output are removed afterwards."""
import hashlib, os, shutil, subprocess, sys, tempfile
VERIF = os.path.dirname(os.path.dirname(os.path.abspath(__file__)))
def main():
    a = sys.argv[1:]
    tier = "quick"; build_check = False; patch = None
    while a and a[0].startswith("--"):
        if a[0] == "--tier": tier = a[1]; a = a[2:]
        elif a[0] == "--build-check": build_check = True; a = a[1:]
        elif a[0] == "--patch": patch = a[1]; a = a[2:]
        else: break
    scratch = tempfile.mkdtemp(prefix="tlsh-mut-", dir="/tmp")
    dst = os.path.join(scratch, "repo")
    shutil.copytree("/repo", dst, ignore=shutil.ignore_patterns("target", ".git"))
    try:
        if patch:
            r = subprocess.run(["patch", "-p1", "-i", os.path.abspath(patch)], cwd=dst, capture_output=True, text=True)
            if r.returncode != 0:
                print("PATCH FAILED", r.stdout, r.stderr); return 2
            props = a
        else:
            f, old, new = a[0], a[1], a[2]; props = a[3:]
            p = os.path.join(dst, f); s = open(p).read()
            if s.count(old) != 1:
                print("edit site not unique: %d occurrences" % s.count(old)); return 2
            open(p, "w").write(s.replace(old, new))
        if build_check:
            r = subprocess.run(["cargo", "check", "--offline", "-p", "fast-tlsh", "--tests"], cwd=dst, capture_output=True, text=True,
                               env=dict(os.environ, CARGO_TARGET_DIR=os.path.join(scratch, "t")))
            print("cargo check --tests:", "ok" if r.returncode == 0 else "FAILED\n" + r.stderr[-1500:])
        rc = 0
        for pr in props:
            r = subprocess.run([os.path.join(VERIF, "check"), pr, "--tier", tier, "--repo", dst], capture_output=True, text=True,
                               env=dict(os.environ, TLSH_EVIDENCE_DIR=os.path.join(scratch, "ev")))
            out = r.stdout.strip().splitlines()
            print("== %s rc=%d" % (pr, r.returncode))
            for l in out:
                if l.startswith(("VIOLATION", "  key", "  what", "  config", "KNOWN", "ENV", "note")) or pr in l[:4]:
                    print("   " + l[:400])
            if r.stderr.strip(): print(r.stderr[-1500:])
            rc = max(rc, r.returncode)
        return rc
    finally:
        tag = hashlib.sha256(dst.encode()).hexdigest()[:8]
        for d in (scratch, os.path.join(VERIF, ".work", "facts", tag), os.path.join(VERIF, ".work", "target", tag)):
            shutil.rmtree(d, ignore_errors=True)
sys.exit(main())
