#!/bin/bash
# Applies each behaviour-preserving patch to a scratch copy and requires every check (thorough tier, which includes
# every configuration of the quick tier) to stay silent.  Prints one line per patch; exit 1 if any check fires.
cd /verif
rc=0
for p in selftest/preserving/*.diff; do
  out=$(tools/trymut.py --build-check --tier thorough --patch $p C01 C02 C03 C04 C05 C06 C07 C08 C09 C10 C11 C12 C13 C14 C15 C16 C17 C18 2>&1)
  if echo "$out" | grep -q "cargo check --tests: ok" && ! echo "$out" | grep -qE "rc=[12]|PATCH FAILED"; then
    echo "silent  $p"
  else
    echo "ALARM   $p"; echo "$out" | grep -E "cargo check|PATCH|rc=[12]|key|what" | cut -c1-260; rc=1
  fi
done
exit $rc
