#!/bin/bash
# Applies each behaviour-preserving patch to a scratch copy and requires every check to stay silent.
cd /verif
for p in selftest/preserving/*.diff; do
  echo "=== $p"
  tools/trymut.py --build-check --patch $p C01 C02 C03 C04 C05 C06 C07 C08 C09 C10 C11 C12 C13 C14 C15 C16 C17 C18 2>&1 | grep -E "cargo check|rc=[12]|key|what" | cut -c1-260
done
