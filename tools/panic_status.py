#!/usr/bin/env python3
import sys, re
sys.path.insert(0,'/verif')
from rules import engine
from rules.props import panics, layout, c17
key = sys.argv[1] if len(sys.argv) > 1 else 'K0'
filt = sys.argv[2] if len(sys.argv) > 2 else ''
F,_=engine.load_configs([key]); F=F[key]
roots=[b.path for b in F.bodies if b.kind in ('Fn','AssocFn') and not any(re.search(g,b.path) for g in c17.GENERATED)]
envs=layout.variant_envs(F)
from rules.props import simd
panics.RET_SUMMARY[0] = {k_: (0, v_) for k_, v_ in simd.scalar_kernel_return_max(F).items()}
sites,reach,G=panics.collect(F, roots)
sites=[s for s in sites if not any(re.search(g, s.body.path) for g in c17.GENERATED)]
panics.discharge(F, sites, envs)
c17.extra_idioms(F, sites, envs)
byfn={}
for s in sites:
    v=byfn.setdefault(s.body.path,[0,0,[]]); v[0]+=1
    if s.undischarged or not s.idioms: v[1]+=1; v[2].append((s.kind, s.what, sorted(set(s.undischarged))[:1]))
print(key, 'sites', len(sites), 'undischarged', sum(v[1] for v in byfn.values()), 'fns with undischarged', sum(1 for v in byfn.values() if v[1]))
for p,v in sorted(byfn.items()):
    if v[1] and filt in p:
        print('  ', v[:2], p[-100:])
        if filt:
            for x in v[2]: print('        ', x[0], x[1], str(x[2])[:260])
